/- Helper lemmas for C16V, part 1: extensionality of `SM`, and the PEG validator `pegAccepts`
(completeness: a run IS a replay with the no-op picks dropped; soundness: the column lists, padded with
re-picks of an admissible adjacent row when `wc > nrows`, are a pick sequence). -/
import LdpcV.Lemmas.ConstrLemmas
namespace LdpcV.Constr
open LdpcV LdpcV.SM LdpcV.Graph

/-! ### extensionality through `row` / `col` -/

theorem list_ext_getD (l1 l2 : List (List Nat)) (hl : l1.length = l2.length)
    (h : ∀ j, l1.getD j [] = l2.getD j []) : l1 = l2 := by
  apply List.ext_getElem hl
  intro i h1 h2
  have := h i
  simpa [List.getD_eq_getElem?_getD, h1, h2] using this

theorem sm_ext {a b : SM} (hr : a.nrows = b.nrows) (hc : a.ncols = b.ncols)
    (h1 : ∀ j, a.row j = b.row j) (h2 : ∀ j, a.col j = b.col j) : a = b := by
  cases a with
  | mk ar ac =>
    cases b with
    | mk br bc =>
      have e1 : ar = br := list_ext_getD ar br hr h1
      have e2 : ac = bc := list_ext_getD ac bc hc h2
      rw [e1, e2]

theorem col_out_of_range (h : SM) (c : Nat) (hc : h.ncols ≤ c) : h.col c = [] := by
  have : h.cols.length ≤ c := hc
  simp [col, List.getD_eq_getElem?_getD, this]

/-! ### PEG: the validator as a fold -/

/-- one column of the validator `pegAccepts` -/
def pegVStep (m : Nat) (H : SM) (h : SM) (c : Nat) : Option SM :=
  if (H.col c).length == m then pegReplayCol c h (H.col c) else none

theorem pegAccepts_iff (nrows ncols wc : Nat) (H : SM) :
    pegAccepts nrows ncols wc H = true ↔
      H.nrows = nrows ∧ H.ncols = ncols ∧
      (List.range ncols).foldlM (pegVStep (min wc nrows) H) (SM.new nrows ncols) = some H := by
  have e : pegAccepts nrows ncols wc H = (H.nrows == nrows && H.ncols == ncols &&
      (match (List.range ncols).foldlM (pegVStep (min wc nrows) H) (SM.new nrows ncols) with
       | some H' => H' == H
       | none => false)) := rfl
  rw [e]
  cases (List.range ncols).foldlM (pegVStep (min wc nrows) H) (SM.new nrows ncols) with
  | none => simp
  | some H' => simp [and_assoc]

theorem pegVStep_ok {m : Nat} {H h : SM} {c : Nat} (hl : (H.col c).length = m) :
    pegVStep m H h c = pegReplayCol c h (H.col c) := by
  simp [pegVStep, hl]

theorem pegVStep_some {m : Nat} {H h h1 : SM} {c : Nat} (hs : pegVStep m H h c = some h1) :
    (H.col c).length = m ∧ pegReplayCol c h (H.col c) = some h1 := by
  unfold pegVStep at hs
  split at hs
  · next hl => exact ⟨by simpa using hl, hs⟩
  · cases hs

/-! ### PEG: steps of the run invariant (factored out of `pegRun_inv`) -/

theorem PegInv.advance {nrows ncols wc : Nat} {h : SM} {col left : Nat} (hwc : 0 < wc)
    (hI : PegInv nrows ncols wc h col left) :
    PegInv nrows ncols wc h (if left = 0 then col + 1 else col) (if left = 0 then wc else left) ∧
      0 < (if left = 0 then wc else left) := by
  by_cases hl : left = 0
  · simp only [hl, if_true]
    refine ⟨⟨hI.inv, hI.nr, hI.nc, Nat.le_refl _, ?_, ?_, ?_⟩, hwc⟩
    · intro c hc
      by_cases hcc : c < col
      · exact hI.full c hcc
      · have : c = col := by omega
        subst this
        have := hI.cur
        rw [hl] at this
        simpa using this
    · rw [hI.empty (col + 1) (by omega)]; simp
    · intro c hc; exact hI.empty c (by omega)
  · simp only [hl, if_false]
    exact ⟨hI, by omega⟩

theorem PegInv.insert {nrows ncols wc : Nat} {h : SM} {col left r : Nat}
    (hI : PegInv nrows ncols wc h col left) (hl : 0 < left) (hrr : r < h.nrows) (hcc : col < h.ncols)
    (hadm : r ∈ pegAdmissible h col) : PegInv nrows ncols wc (h.insertRaw r col) col (left - 1) := by
  have hinv' := insertRaw_inv h r col hI.inv hrr hcc
  have hle := hI.left_le
  cases hn : h.has r col with
  | true =>
    have hm : r ∈ h.col col := (has_iff h r col).1 hn
    have hall := adm_adjacent_all hI.inv hcc hadm hm
    have hlen := length_ge_of_all_mem (h.col col) h.nrows (hI.inv.2.2.2 col)
      (fun x hx => (hI.inv.2.1 x col hx).1) hall
    have e : h.insertRaw r col = h := by simp [insertRaw, hn]
    rw [e]
    refine ⟨hI.inv, hI.nr, hI.nc, by omega, hI.full, ?_, hI.empty⟩
    have := hI.cur
    have := hI.nr
    omega
  | false =>
    have hcol := fun j => col_insertRaw h r col j hn hcc
    refine ⟨hinv', by simpa using hI.nr, by simpa using hI.nc, by omega, ?_, ?_, ?_⟩
    · intro c hc
      rw [hcol c, if_neg (by omega)]
      exact hI.full c hc
    · have hnd := hinv'.2.2.2 col
      have hbd : ∀ x ∈ (h.insertRaw r col).col col, x < h.nrows := by
        intro x hx
        simpa using (hinv'.2.1 x col hx).1
      have hlen := nodup_length_le _ _ hnd hbd
      rw [hcol col, if_pos rfl] at hlen ⊢
      simp only [List.length_append, List.length_singleton] at hlen ⊢
      have := hI.cur
      have := hI.nr
      omega
    · intro c hc
      rw [hcol c, if_neg (by omega)]
      exact hI.empty c hc

theorem pegInv_init (nrows ncols wc : Nat) : PegInv nrows ncols wc (SM.new nrows ncols) 0 wc := by
  refine ⟨new_inv _ _, by simp, by simp, Nat.le_refl _, by simp, ?_, fun c _ => new_col _ _ _⟩
  rw [new_col]; simp

/-! ### PEG completeness: the run, with its no-op picks dropped, is the replay -/

/-- the rest of the validator from a state of the run: finish the current column, then the later ones -/
def PegRest (nrows ncols wc : Nat) (H h : SM) (col : Nat) : Prop :=
  ∃ h1, pegReplayCol col h ((H.col col).drop (h.col col).length) = some h1 ∧
    (List.range' (col + 1) (ncols - (col + 1))).foldlM (pegVStep (min wc nrows) H) h1 = some H

theorem pegRun_replay (nrows ncols wc : Nat) (hwc : 0 < wc) (H : SM)
    (hlen : ∀ c, c < ncols → (H.col c).length = min wc nrows)
    (picks : List Nat) (h : SM) (col left : Nat)
    (hI : PegInv nrows ncols wc h col left) (hr : pegRun wc ncols h col left picks = some H) :
    (∀ c, h.col c <+: H.col c) ∧ PegRest nrows ncols wc H h col := by
  induction picks generalizing h col left with
  | nil =>
    simp only [pegRun] at hr
    split at hr
    · next hcond =>
      cases hr
      simp only [ge_iff_le, Bool.or_eq_true, decide_eq_true_eq, Bool.and_eq_true, beq_iff_eq] at hcond
      refine ⟨fun c => List.prefix_refl _, H, by simp [pegReplayCol], ?_⟩
      have : ncols - (col + 1) = 0 := by omega
      rw [this]
      rfl
    · cases hr
  | cons r rest ih =>
    simp only [pegRun] at hr
    obtain ⟨hI', hlpos⟩ := hI.advance hwc
    generalize hcol' : (if left = 0 then col + 1 else col) = col' at hr hI'
    generalize hleft' : (if left = 0 then wc else left) = left' at hr hI' hlpos
    split at hr
    · cases hr
    · next hcond =>
      simp only [ge_iff_le, Bool.or_eq_true, decide_eq_true_eq, beq_iff_eq, not_or] at hcond
      split at hr
      · next hadm =>
        have hadmb := hadm
        simp only [List.contains_iff_mem] at hadm
        split at hr
        · next h' hins =>
          obtain ⟨hrr, hcc, rfl⟩ := insert_eq hins
          obtain ⟨hpre, h1, hrep, hfold⟩ := ih (h.insertRaw r col') col' (left' - 1)
            (hI'.insert hlpos hrr hcc hadm) hr
          -- the step at the level of the (already advanced) column `col'`
          have hstep : (∀ c, h.col c <+: (h.insertRaw r col').col c) ∧ PegRest nrows ncols wc H h col' := by
            cases hn : h.has r col' with
            | true =>
              have e : h.insertRaw r col' = h := by simp [insertRaw, hn]
              rw [e] at hrep ⊢
              exact ⟨fun c => List.prefix_refl _, h1, hrep, hfold⟩
            | false =>
              have hcol := fun j => col_insertRaw h r col' j hn hcc
              refine ⟨fun c => ?_, h1, ?_, hfold⟩
              · rw [hcol c]; split
                · exact List.prefix_append _ _
                · exact List.prefix_refl _
              · have hp := hpre col'
                rw [hcol col', if_pos rfl] at hp hrep
                obtain ⟨t, ht⟩ := hp
                rw [← ht] at hrep ⊢
                rw [List.drop_left' rfl] at hrep
                rw [List.append_assoc, List.drop_left' rfl]
                simp only [List.singleton_append, pegReplayCol, hadmb, hn, Bool.not_false, Bool.and_self,
                  if_true, hins]
                exact hrep
          refine ⟨fun c => (hstep.1 c).trans (hpre c), ?_⟩
          -- back from `col'` to `col`
          by_cases hl : left = 0
          · simp only [hl, if_true] at hcol'
            subst hcol'
            obtain ⟨h2, hrep2, hfold2⟩ := hstep.2
            have hd : (H.col col).drop (h.col col).length = [] := by
              apply List.drop_eq_nil_of_le
              have := hI.cur
              rw [hl] at this
              rw [hlen col (by omega), this]
              simp
            refine ⟨h, by rw [hd]; rfl, ?_⟩
            have e : ncols - (col + 1) = (ncols - (col + 1 + 1)) + 1 := by omega
            rw [e, List.range'_succ, List.foldlM_cons, pegVStep_ok (hlen (col + 1) (by omega))]
            rw [hI.empty (col + 1) (by omega)] at hrep2
            simp only [List.length_nil, List.drop_zero] at hrep2
            rw [hrep2]
            exact hfold2
          · simp only [hl, if_false] at hcol'
            subst hcol'
            exact hstep.2
        · cases hr
      · cases hr

theorem foldlM_pegVStep_nil (H : SM) (hH : ∀ c, H.col c = []) (cs : List Nat) (h : SM) :
    cs.foldlM (pegVStep 0 H) h = some h := by
  induction cs with
  | nil => rfl
  | cons c cs ih =>
    rw [List.foldlM_cons]
    have : pegVStep 0 H h c = some h := by simp [pegVStep, hH c, pegReplayCol]
    rw [this]
    exact ih

theorem peg_complete (nrows ncols wc : Nat) (picks : List Nat) (H : SM)
    (hr : peg nrows ncols wc picks = some H) : pegAccepts nrows ncols wc H = true := by
  obtain ⟨_, hnr, hnc, hlen⟩ := peg_inv nrows ncols wc picks H hr
  rw [pegAccepts_iff]
  refine ⟨hnr, hnc, ?_⟩
  unfold peg at hr
  split at hr
  · next hwc =>
    split at hr
    · cases hr
      subst hwc
      simp only [Nat.zero_min]
      exact foldlM_pegVStep_nil _ (fun c => new_col _ _ c) _ _
    · cases hr
  · next hwc =>
    obtain ⟨_, h1, hrep, hfold⟩ := pegRun_replay nrows ncols wc (by omega) H hlen picks _ 0 wc
      (pegInv_init nrows ncols wc) hr
    rw [new_col] at hrep
    simp only [List.length_nil, List.drop_zero] at hrep
    cases ncols with
    | zero =>
      -- no column: the run consumed no pick
      simp only [List.range_zero]
      simp only [Nat.zero_sub, List.range'_zero] at hfold
      have e1 : h1 = H := by simpa using hfold
      rw [col_out_of_range H 0 (by omega)] at hrep
      have e2 : SM.new nrows 0 = h1 := by simpa [pegReplayCol] using hrep
      rw [e2, e1]
      rfl
    | succ n =>
      rw [List.range_eq_range', List.range'_succ, List.foldlM_cons, pegVStep_ok (hlen 0 (by omega)), hrep]
      simpa using hfold

/-! ### PEG soundness -/

theorem pegReplayCol_spec (col : Nat) (rs : List Nat) (h h1 : SM) (hinv : h.Inv)
    (hs : pegReplayCol col h rs = some h1) :
    h1.Inv ∧ h1.nrows = h.nrows ∧ h1.ncols = h.ncols ∧ (rs ≠ [] → col < h.ncols) ∧
      (h1.col col).length = (h.col col).length + rs.length := by
  induction rs generalizing h with
  | nil =>
    simp only [pegReplayCol, Option.some.injEq] at hs
    subst hs
    exact ⟨hinv, rfl, rfl, fun hne => (hne rfl).elim, rfl⟩
  | cons r rs ih =>
    simp only [pegReplayCol] at hs
    split at hs
    · next hcond =>
      simp only [Bool.and_eq_true, Bool.not_eq_eq_eq_not, Bool.not_true] at hcond
      split at hs
      · next h' hins =>
        obtain ⟨hrr, hcc, rfl⟩ := insert_eq hins
        obtain ⟨a1, a2, a3, _, a5⟩ := ih (h.insertRaw r col) (insertRaw_inv h r col hinv hrr hcc) hs
        refine ⟨a1, by simpa using a2, by simpa using a3, fun _ => hcc, ?_⟩
        rw [a5, col_insertRaw h r col col hcond.2 hcc, if_pos rfl]
        simp only [List.length_append, List.length_cons, List.length_nil]
        omega
      · cases hs
    · cases hs

theorem pegRun_left_zero (wc ncols : Nat) (hwc : 0 < wc) (h : SM) (col : Nat) (picks : List Nat) :
    pegRun wc ncols h col 0 picks = pegRun wc ncols h (col + 1) wc picks := by
  have hne : wc ≠ 0 := by omega
  cases picks with
  | nil =>
    simp only [pegRun, hne, beq_self_eq_true, Bool.true_and, ge_iff_le, Bool.or_eq_true, decide_eq_true_eq,
      Bool.and_eq_true, beq_iff_eq, false_and, or_false]
    by_cases h1 : ncols ≤ col + 1
    · simp [h1]
    · have h2 : ¬ ncols ≤ col := by omega
      simp [h1, h2]
  | cons r rest =>
    simp only [pegRun, if_true, hne, if_false]

/-- the picks of one column that really insert an edge -/
theorem pegRun_replayCol (wc ncols col : Nat) (hc : col < ncols) (rs : List Nat) (h h1 : SM) (left : Nat)
    (rest : List Nat) (hs : pegReplayCol col h rs = some h1) (hl : rs.length ≤ left) :
    pegRun wc ncols h col left (rs ++ rest) = pegRun wc ncols h1 col (left - rs.length) rest := by
  induction rs generalizing h left with
  | nil =>
    simp only [pegReplayCol, Option.some.injEq] at hs
    subst hs
    rfl
  | cons r rs ih =>
    simp only [pegReplayCol] at hs
    split at hs
    · next hcond =>
      simp only [Bool.and_eq_true] at hcond
      split at hs
      · next h' hins =>
        simp only [List.length_cons] at hl
        have hne : left ≠ 0 := by omega
        have hc' : ¬ ncols ≤ col := by omega
        simp only [List.cons_append, pegRun, hne, if_false, ge_iff_le, Bool.or_eq_true, decide_eq_true_eq,
          beq_iff_eq, hc', or_self, hcond.1, if_true, hins]
        rw [ih h' (left - 1) hs (by omega)]
        congr 1
        simp only [List.length_cons]
        omega
      · cases hs
    · cases hs

/-- re-picks of an admissible row that is already adjacent -/
theorem pegRun_noop (wc ncols col r : Nat) (hc : col < ncols) (h : SM) (hadm : r ∈ pegAdmissible h col)
    (hins : h.insert r col = some h) (k left : Nat) (rest : List Nat) (hl : k ≤ left) :
    pegRun wc ncols h col left (List.replicate k r ++ rest) = pegRun wc ncols h col (left - k) rest := by
  induction k generalizing left with
  | zero => rfl
  | succ k ih =>
    have hne : left ≠ 0 := by omega
    have hc' : ¬ ncols ≤ col := by omega
    have hadm' : (pegAdmissible h col).contains r = true := by simpa using hadm
    simp only [List.replicate_succ, List.cons_append, pegRun, hne, if_false, ge_iff_le, Bool.or_eq_true,
      decide_eq_true_eq, beq_iff_eq, hc', or_self, hadm', if_true, hins]
    rw [ih (left - 1) (by omega)]
    congr 1
    omega

theorem exists_argmin (f : Nat → Nat) (n : Nat) (hn : 0 < n) : ∃ i, i < n ∧ ∀ j, j < n → f i ≤ f j := by
  induction n with
  | zero => omega
  | succ n ih =>
    cases n with
    | zero =>
      refine ⟨0, by omega, fun j hj => ?_⟩
      have : j = 0 := by omega
      subst this
      exact Nat.le_refl _
    | succ m =>
      obtain ⟨i, hi, hmin⟩ := ih (by omega)
      by_cases hle : f i ≤ f (m + 1)
      · refine ⟨i, by omega, fun j hj => ?_⟩
        by_cases hj' : j < m + 1
        · exact hmin j hj'
        · have : j = m + 1 := by omega
          subst this; exact hle
      · refine ⟨m + 1, by omega, fun j hj => ?_⟩
        by_cases hj' : j < m + 1
        · have := hmin j hj'; omega
        · have : j = m + 1 := by omega
          subst this; exact Nat.le_refl _

/-- when every row is adjacent to the column, a row of least weight is admissible (all distances are 1) -/
theorem adm_of_all_adjacent {h : SM} (hinv : h.Inv) {col : Nat} (hc : col < h.ncols) (hn : 0 < h.nrows)
    (hall : ∀ r, r < h.nrows → r ∈ h.col col) : ∃ r, r ∈ pegAdmissible h col ∧ r < h.nrows := by
  obtain ⟨d, hb, hd⟩ := bfs_col h hinv col hc
  have e1 : ∀ r, r < h.nrows → d.rows.getD r none = some 1 :=
    fun r hr => ((hd r hr).1 1).2 (isDist_one_of_mem hinv (hall r hr))
  obtain ⟨i, hi, hmin⟩ := exists_argmin (fun r => (h.row r).length) h.nrows hn
  refine ⟨i, ?_, hi⟩
  rw [mem_pegAdmissible hb]
  refine ⟨hi, fun r' hr' => ?_⟩
  unfold pegKey
  rw [e1 i hi, e1 r' hr', pegBetter_ss]
  have := hmin r' hr'
  simp only [if_true, decide_eq_false_iff_not]
  omega

theorem all_mem_of_length (l : List Nat) (n : Nat) (hl : l.Nodup) (hb : ∀ x ∈ l, x < n) (hlen : n ≤ l.length) :
    ∀ x, x < n → x ∈ l := by
  have h1 := length_eq_filter_range l n hl hb
  have h2 : ((List.range n).filter (fun x => l.contains x)).length = (List.range n).length := by
    have := List.length_filter_le (fun x => l.contains x) (List.range n)
    simp only [List.length_range] at this ⊢
    omega
  rw [List.length_filter_eq_length_iff] at h2
  intro x hx
  simpa using h2 x (by simpa using hx)

/-- the picks of one whole column: from `(col, wc)` to `(col + 1, wc)` -/
theorem pegRun_column (nrows ncols wc col : Nat) (hwc : 0 < wc) (hn : 0 < nrows) (hc : col < ncols)
    (rs : List Nat) (h h1 : SM) (hinv : h.Inv) (hnr : h.nrows = nrows) (hnc : h.ncols = ncols)
    (hlen : rs.length = min wc nrows) (hs : pegReplayCol col h rs = some h1) :
    ∃ pk, ∀ rest, pegRun wc ncols h col wc (pk ++ rest) = pegRun wc ncols h1 (col + 1) wc rest := by
  obtain ⟨a1, a2, a3, _, a5⟩ := pegReplayCol_spec col rs h h1 hinv hs
  by_cases hle : wc ≤ nrows
  · refine ⟨rs, fun rest => ?_⟩
    rw [pegRun_replayCol wc ncols col hc rs h h1 wc rest hs (by omega)]
    have : wc - rs.length = 0 := by omega
    rw [this, pegRun_left_zero wc ncols hwc]
  · -- all rows are adjacent after the replay; pad with re-picks of an admissible row
    have hall : ∀ x, x < h1.nrows → x ∈ h1.col col :=
      all_mem_of_length _ _ (a1.2.2.2 col) (fun x hx => (a1.2.1 x col hx).1) (by omega)
    obtain ⟨r, hadm, hr⟩ := adm_of_all_adjacent a1 (col := col) (by omega) (by omega) hall
    have hins : h1.insert r col = some h1 := by
      have hh : h1.has r col = true := (has_iff _ _ _).2 (hall r hr)
      have hc1 : col < h1.ncols := by omega
      simp [SM.insert, SM.inRange, hr, hc1, insertRaw, hh]
    refine ⟨rs ++ List.replicate (wc - rs.length) r, fun rest => ?_⟩
    rw [List.append_assoc, pegRun_replayCol wc ncols col hc rs h h1 wc _ hs (by omega),
      pegRun_noop wc ncols col r hc h1 hadm hins (wc - rs.length) (wc - rs.length) rest (Nat.le_refl _),
      Nat.sub_self, pegRun_left_zero wc ncols hwc]

theorem peg_sound_from (nrows ncols wc : Nat) (hwc : 0 < wc) (hn : 0 < nrows) (H : SM) (n : Nat) :
    ∀ (k : Nat) (h : SM), k + n = ncols → h.Inv → h.nrows = nrows → h.ncols = ncols →
      (List.range' k n).foldlM (pegVStep (min wc nrows) H) h = some H →
      ∃ picks, pegRun wc ncols h k wc picks = some H := by
  induction n with
  | zero =>
    intro k h hk _ _ _ hf
    simp only [List.range'_zero] at hf
    have e : h = H := by simpa using hf
    subst e
    refine ⟨[], ?_⟩
    have : ncols ≤ k := by omega
    simp [pegRun, this]
  | succ n ih =>
    intro k h hk hinv hnr hnc hf
    rw [List.range'_succ, List.foldlM_cons] at hf
    cases hv : pegVStep (min wc nrows) H h k with
    | none => simp [hv] at hf
    | some h1 =>
      rw [hv] at hf
      obtain ⟨hlen, hrep⟩ := pegVStep_some hv
      obtain ⟨a1, a2, a3, _, _⟩ := pegReplayCol_spec k _ h h1 hinv hrep
      obtain ⟨picks', hp⟩ := ih (k + 1) h1 (by omega) a1 (by omega) (by omega) (by simpa using hf)
      obtain ⟨pk, hpk⟩ := pegRun_column nrows ncols wc k hwc hn (by omega) _ h h1 hinv hnr hnc hlen hrep
      exact ⟨pk ++ picks', by rw [hpk, hp]⟩

/-- soundness of the PEG validator (not for `nrows = 0 < wc`, `0 < ncols`: see `peg_no_run`) -/
theorem peg_sound (nrows ncols wc : Nat) (h0 : 0 < nrows ∨ wc = 0 ∨ ncols = 0) (H : SM)
    (ha : pegAccepts nrows ncols wc H = true) : ∃ picks, peg nrows ncols wc picks = some H := by
  rw [pegAccepts_iff] at ha
  obtain ⟨hnr, hnc, hf⟩ := ha
  by_cases hwc : wc = 0
  · subst hwc
    refine ⟨[], ?_⟩
    simp only [peg, if_true, List.isEmpty_nil, Option.some.injEq]
    rw [Nat.zero_min] at hf
    -- every column of `H` is empty, so the replay does nothing
    suffices hgen : ∀ (cs : List Nat) (h : SM), cs.foldlM (pegVStep 0 H) h = some H → h = H from
      hgen _ _ hf
    intro cs
    induction cs with
    | nil => intro h hf; simpa using hf
    | cons c cs ih =>
      intro h hf
      rw [List.foldlM_cons] at hf
      cases hv : pegVStep 0 H h c with
      | none => simp [hv] at hf
      | some h1 =>
        rw [hv] at hf
        obtain ⟨hlen, hrep⟩ := pegVStep_some hv
        simp only [List.length_eq_zero_iff] at hlen
        rw [hlen] at hrep
        simp only [pegReplayCol, Option.some.injEq] at hrep
        subst hrep
        exact ih h (by simpa using hf)
  · by_cases hnc0 : ncols = 0
    · subst hnc0
      refine ⟨[], ?_⟩
      simp only [List.range_zero] at hf
      have e : SM.new nrows 0 = H := by simpa using hf
      simp [peg, hwc, pegRun, e]
    · have hn : 0 < nrows := by omega
      rw [List.range_eq_range'] at hf
      obtain ⟨picks, hp⟩ := peg_sound_from nrows ncols wc (by omega) hn H ncols 0 (SM.new nrows ncols)
        (by omega) (new_inv _ _) (by simp) (by simp) hf
      exact ⟨picks, by simp [peg, hwc, hp]⟩

/-- with no rows, a positive column weight and at least one column PEG has no run at all (the Rust code
would pick from an empty candidate list), although the validator accepts the empty matrix -/
theorem peg_no_run (ncols wc : Nat) (hwc : 0 < wc) (hnc : 0 < ncols) (picks : List Nat) :
    peg 0 ncols wc picks = none := by
  have hne : wc ≠ 0 := by omega
  have hc' : ¬ ncols ≤ 0 := by omega
  have hadm : pegAdmissible (SM.new 0 ncols) 0 = [] := by
    unfold pegAdmissible
    cases bfs (SM.new 0 ncols) (.col 0) with
    | none => rfl
    | some d => simp
  cases picks with
  | nil =>
    simp only [peg, hne, if_false, pegRun, ge_iff_le, Bool.or_eq_true, decide_eq_true_eq, Bool.and_eq_true,
      beq_iff_eq, hc', false_and, or_self]
  | cons r rest =>
    simp only [peg, hne, if_false, pegRun, ge_iff_le, Bool.or_eq_true, decide_eq_true_eq,
      beq_iff_eq, hc', or_self, hadm, List.contains_nil]
    rfl

end LdpcV.Constr
