/-
Helper lemmas for C20 (`LdpcV/Model/Cli.lean`): the word splitting of `encodeStream` and its monadic fold.
-/
import LdpcV.Model.Cli
namespace LdpcV.Cli
open LdpcV.Blocks

/-- the number of words read is the number of complete words -/
theorem words_length (k : Nat) (hk : 0 < k) : ∀ (fuel : Nat) (l : List Nat), l.length < fuel →
    (encodeStream.words k fuel l).length = l.length / k := by
  intro fuel
  induction fuel with
  | zero => intro l h; omega
  | succ fuel ih =>
    intro l h
    unfold encodeStream.words
    by_cases hl : l.length < k
    · simp [hl, Nat.div_eq_of_lt hl]
    · simp only [hl, if_false, List.length_cons]
      rw [ih (l.drop k) (by simp [List.length_drop]; omega), List.length_drop,
        Nat.div_eq_sub_div hk (by omega : k ≤ l.length)]

/-- the `i`-th word read is the `i`-th chunk of `k` bytes -/
theorem words_getD (k : Nat) (hk : 0 < k) : ∀ (fuel : Nat) (l : List Nat) (i : Nat), l.length < fuel →
    i < l.length / k → (encodeStream.words k fuel l).getD i [] = (l.drop (i * k)).take k := by
  intro fuel
  induction fuel with
  | zero => intro l i h; omega
  | succ fuel ih =>
    intro l i h hi
    unfold encodeStream.words
    by_cases hl : l.length < k
    · rw [Nat.div_eq_of_lt hl] at hi; omega
    · simp only [hl, if_false]
      cases i with
      | zero => simp
      | succ i =>
        rw [List.getD_cons_succ]
        rw [Nat.div_eq_sub_div hk (by omega : k ≤ l.length)] at hi
        rw [ih (l.drop k) i (by simp [List.length_drop]; omega) (by rw [List.length_drop]; omega),
          List.drop_drop]
        congr 2
        rw [Nat.succ_mul]; omega

/-- the per-word step of the `encode` subcommand -/
def encStep (enc : Lin.Encoder) (pattern : Option (List Bool)) (acc : List Nat) (w : List Nat) : Option (List Nat) :=
  match Lin.encode enc (w.map (· == 1)) with
  | none => none
  | some cw =>
    match (match pattern with | some p => puncture p cw | none => .ok cw) with
    | .ok bits => some (acc ++ bits.map (fun b => if b then 1 else 0))
    | _ => none

theorem foldlM_encStep (enc : Lin.Encoder) (pattern : Option (List Bool)) :
    ∀ (ws : List (List Nat)) (acc out : List Nat), ws.foldlM (encStep enc pattern) acc = some out →
    ∃ bs : List (List Bool), bs.length = ws.length ∧
      out = acc ++ bs.flatMap (fun bits => bits.map (fun b => if b then 1 else 0)) ∧
      ∀ i, i < ws.length →
        ∃ cw, Lin.encode enc ((ws.getD i []).map (· == 1)) = some cw ∧
          (match pattern with | some p => puncture p cw | none => .ok cw) = .ok (bs.getD i []) := by
  intro ws
  induction ws with
  | nil =>
    intro acc out h
    simp [pure] at h
    exact ⟨[], rfl, by simp [h], by intro i hi; simp at hi⟩
  | cons w ws ih =>
    intro acc out h
    rw [List.foldlM_cons] at h
    unfold encStep at h
    split at h
    · simp at h
    · rename_i cw hcw
      split at h
      · rename_i bits hbits
        simp only [Option.bind_eq_bind, Option.bind_some] at h
        obtain ⟨bs, hlen, hout, hall⟩ := ih _ _ h
        refine ⟨bits :: bs, by simp [hlen], by simp [hout], ?_⟩
        intro i hi
        cases i with
        | zero => exact ⟨cw, by simpa using hcw, by simpa using hbits⟩
        | succ i =>
          simp only [List.getD_cons_succ]
          exact hall i (by simpa using hi)
      · simp at h
