/- Helper lemmas for the table-vs-real clause of C04 (Mathlib real analysis). -/
import LdpcV.Model.ArithI8
import Mathlib.Analysis.SpecialFunctions.Log.Basic
import Mathlib.Analysis.SpecialFunctions.Exponential
import Mathlib.Tactic
import Mathlib.Data.List.GetD
namespace LdpcV
namespace TableReal
open Real

/-- rational lower enclosure of `y = exp (1/16) = 1.0644944589…` -/
noncomputable def ya : ℝ := 106449445 / 100000000
/-- rational upper enclosure of `y = exp (1/16)` -/
noncomputable def yb : ℝ := 106449446 / 100000000

theorem ya_le : ya ≤ exp (1 / 16) := by
  have h := Real.sum_le_exp_of_nonneg (x := (1 / 16 : ℝ)) (by norm_num) 6
  refine le_trans ?_ h
  unfold ya
  norm_num [Finset.sum_range_succ, Nat.factorial]

theorem le_yb : exp (1 / 16) ≤ yb := by
  have h := Real.exp_bound' (x := (1 / 16 : ℝ)) (by norm_num) (by norm_num) (n := 6) (by norm_num)
  refine le_trans h ?_
  unfold yb
  norm_num [Finset.sum_range_succ, Nat.factorial]

theorem ya_pos : 0 < ya := by unfold ya; norm_num

theorem exp_div16 (n : ℕ) : exp ((n : ℝ) / 16) = exp (1 / 16) ^ n := by
  rw [← Real.exp_nat_mul]; congr 1; ring

/-- `exp(t/8)·(1 + exp(−t/8)) = y^(2t) + 1` -/
theorem shift (t : ℕ) :
    exp ((t : ℝ) / 8) * (1 + exp (-(t : ℝ) / 8)) = exp (1 / 16) ^ (2 * t) + 1 := by
  rw [← exp_div16, mul_add, ← Real.exp_add]
  have h1 : (t : ℝ) / 8 + -(t : ℝ) / 8 = 0 := by ring
  have h2 : ((2 * t : ℕ) : ℝ) / 16 = (t : ℝ) / 8 := by push_cast; ring
  rw [h1, h2, Real.exp_zero]; ring

theorem log_shift (t : ℕ) :
    log (exp (1 / 16) ^ (2 * t) + 1) = (t : ℝ) / 8 + log (1 + exp (-(t : ℝ) / 8)) := by
  rw [← shift, Real.log_mul (Real.exp_pos _).ne' (by positivity), Real.log_exp]

/-- lower bound: from the rational inequality `yb^m ≤ ya^(2t) + 1` -/
theorem lower (t m : ℕ) (h : yb ^ m ≤ ya ^ (2 * t) + 1) :
    ((m : ℝ) - 2 * t) / 2 ≤ 8 * log (1 + exp (-(t : ℝ) / 8)) := by
  have hy : exp (1 / 16) ^ m ≤ exp (1 / 16) ^ (2 * t) + 1 :=
    calc exp (1 / 16) ^ m ≤ yb ^ m := pow_le_pow_left₀ (Real.exp_pos _).le le_yb _
      _ ≤ ya ^ (2 * t) + 1 := h
      _ ≤ exp (1 / 16) ^ (2 * t) + 1 := by
        gcongr
        · exact ya_pos.le
        · exact ya_le
  have hl := Real.log_le_log (by positivity) hy
  rw [log_shift, ← exp_div16, Real.log_exp] at hl
  linarith

/-- strict upper bound: from the rational inequality `yb^(2t) + 1 < ya^m` -/
theorem upper (t m : ℕ) (h : yb ^ (2 * t) + 1 < ya ^ m) :
    8 * log (1 + exp (-(t : ℝ) / 8)) < ((m : ℝ) - 2 * t) / 2 := by
  have hy : exp (1 / 16) ^ (2 * t) + 1 < exp (1 / 16) ^ m :=
    calc exp (1 / 16) ^ (2 * t) + 1 ≤ yb ^ (2 * t) + 1 := by
          gcongr
          exact le_yb
      _ < ya ^ m := h
      _ ≤ exp (1 / 16) ^ m := pow_le_pow_left₀ ya_pos.le ya_le _
  have hl := Real.log_lt_log (by positivity) hy
  rw [log_shift, ← exp_div16, Real.log_exp] at hl
  linarith

/-- the real-valued correction is positive -/
theorem f_pos (t : ℕ) : 0 < 8 * log (1 + exp (-(t : ℝ) / 8)) := by
  have : 0 < log (1 + exp (-(t : ℝ) / 8)) :=
    Real.log_pos (by linarith [Real.exp_pos (-(t : ℝ) / 8)])
  linarith

/-- the real-valued correction is antitone in `t` -/
theorem f_anti {s t : ℕ} (h : s ≤ t) :
    8 * log (1 + exp (-(t : ℝ) / 8)) ≤ 8 * log (1 + exp (-(s : ℝ) / 8)) := by
  have hst : (s : ℝ) ≤ t := by exact_mod_cast h
  have : log (1 + exp (-(t : ℝ) / 8)) ≤ log (1 + exp (-(s : ℝ) / 8)) := by
    apply Real.log_le_log (by positivity)
    gcongr
  linarith

theorem f22_lt : 8 * log (1 + exp (-((22 : ℕ) : ℝ) / 8)) < 1 / 2 := by
  have h := upper 22 45 (by unfold ya yb; norm_num)
  norm_num at h ⊢
  linarith

theorem cut (t : ℕ) (ht : 22 ≤ t) : 8 * log (1 + exp (-(t : ℝ) / 8)) < 1 / 2 :=
  lt_of_le_of_lt (f_anti ht) f22_lt

/-- within 1/2 of the integer `T ≥ 1`, from two rational inequalities between powers of the enclosure -/
theorem track (t T : ℕ) (hT : 1 ≤ T) (hl : yb ^ (2 * T - 1 + 2 * t) ≤ ya ^ (2 * t) + 1)
    (hu : yb ^ (2 * t) + 1 < ya ^ (2 * T + 1 + 2 * t)) :
    |(((T : ℕ) : ℤ) : ℝ) - 8 * log (1 + exp (-(t : ℝ) / 8))| ≤ 1 / 2 := by
  have h1 := lower t _ hl
  have h2 := upper t _ hu
  have e1 : ((2 * T - 1 + 2 * t : ℕ) : ℝ) = 2 * T - 1 + 2 * t := by
    rw [Nat.cast_add, Nat.cast_sub (by omega)]; push_cast; ring
  rw [e1] at h1
  push_cast at h2 ⊢
  rw [abs_le]
  constructor <;> linarith

/-- beyond the table the entry is 0 and the real value is in (0, 1/2) -/
theorem track_zero (t : ℕ) (ht : 22 ≤ t) :
    |((0 : ℤ) : ℝ) - 8 * log (1 + exp (-(t : ℝ) / 8))| ≤ 1 / 2 := by
  have h1 := f_pos t
  have h2 := cut t ht
  rw [abs_le]
  constructor <;> push_cast <;> linarith

end TableReal
end LdpcV
