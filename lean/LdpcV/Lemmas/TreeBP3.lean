/-
Helper development for C03Tree, part 3: iterated sums over the values of a list of coordinates (`sumOver`):
congruence, permutation, factorisation over disjoint blocks, and the XOR-convolution as a constrained sum.
-/
import LdpcV.Lemmas.TreeBP0
namespace LdpcV.TreeBP
open LdpcV

/-- `F` depends only on the coordinates in `S` -/
def DepOn (F : (Nat → Bool) → ℝ) (S : List Nat) : Prop :=
  ∀ a a' : Nat → Bool, (∀ x ∈ S, a x = a' x) → F a = F a'

/-! ### indicator and parity -/

@[simp] theorem ind_true : ind true = 1 := rfl
@[simp] theorem ind_false : ind false = 0 := rfl

theorem ind_nonneg (b : Bool) : 0 ≤ ind b := by cases b <;> simp

theorem ind_and (p q : Bool) : ind (p && q) = ind p * ind q := by
  cases p <;> cases q <;> simp

theorem xr_nil (a : Nat → Bool) : xr a [] = false := by simp [xr]

theorem xr_cons (a : Nat → Bool) (u : Nat) (K : List Nat) : xr a (u :: K) = xor (a u) (xr a K) := by
  unfold xr
  rw [List.filter_cons]
  cases hu : a u
  · simp
  · simp only [if_true, List.length_cons, Bool.true_xor]
    rcases Nat.mod_two_eq_zero_or_one (List.filter a K).length with h | h
    · have : ((List.filter a K).length + 1) % 2 = 1 := by omega
      simp [h, this]
    · have : ((List.filter a K).length + 1) % 2 = 0 := by omega
      simp [h, this]

theorem xr_perm (a : Nat → Bool) {K K' : List Nat} (hp : K.Perm K') : xr a K = xr a K' := by
  unfold xr
  rw [(hp.filter a).length_eq]

theorem xr_congr {a a' : Nat → Bool} {K : List Nat} (hc : ∀ x ∈ K, a x = a' x) : xr a K = xr a' K := by
  unfold xr
  rw [List.filter_congr hc]

/-! ### basic properties of `sumOver` -/

theorem sumOver_append (K1 K2 : List Nat) (F : (Nat → Bool) → ℝ) (a : Nat → Bool) :
    sumOver (K1 ++ K2) F a = sumOver K1 (sumOver K2 F) a := by
  induction K1 generalizing a with
  | nil => rfl
  | cons u K ih => simp only [List.cons_append, sumOver, ih]

/-- the summand only matters on the assignments that agree with `a` outside `K` -/
theorem sumOver_congr (K : List Nat) (F G : (Nat → Bool) → ℝ) (a : Nat → Bool)
    (hFG : ∀ a', (∀ x, x ∉ K → a' x = a x) → F a' = G a') : sumOver K F a = sumOver K G a := by
  induction K generalizing a with
  | nil => exact hFG a (fun _ _ => rfl)
  | cons u K ih =>
    simp only [sumOver]
    have key : ∀ b, sumOver K F (Function.update a u b) = sumOver K G (Function.update a u b) := by
      intro b
      apply ih
      intro a' ha'
      apply hFG
      intro x hx
      have hxK : x ∉ K := fun hm => hx (by simp [hm])
      have hxu : x ≠ u := fun e => hx (by simp [e])
      rw [ha' x hxK, Function.update_of_ne hxu]
    rw [key false, key true]

theorem sumOver_const_mul (K : List Nat) (c : ℝ) (F : (Nat → Bool) → ℝ) (a : Nat → Bool) :
    sumOver K (fun a => c * F a) a = c * sumOver K F a := by
  induction K generalizing a with
  | nil => rfl
  | cons u K ih => simp only [sumOver, ih]; ring

theorem sumOver_mul_const (K : List Nat) (c : ℝ) (F : (Nat → Bool) → ℝ) (a : Nat → Bool) :
    sumOver K (fun a => F a * c) a = sumOver K F a * c := by
  induction K generalizing a with
  | nil => rfl
  | cons u K ih => simp only [sumOver, ih]; ring

/-- a factor that does not see the summed coordinates can be pulled out (left) -/
theorem sumOver_mul_left (K : List Nat) (G F : (Nat → Bool) → ℝ) (a : Nat → Bool)
    (hG : ∀ a', (∀ x, x ∉ K → a' x = a x) → G a' = G a) :
    sumOver K (fun a => G a * F a) a = G a * sumOver K F a := by
  rw [← sumOver_const_mul]
  apply sumOver_congr
  intro a' ha'
  rw [hG a' ha']

/-- a factor that does not see the summed coordinates can be pulled out (right) -/
theorem sumOver_mul_right (K : List Nat) (F G : (Nat → Bool) → ℝ) (a : Nat → Bool)
    (hG : ∀ a', (∀ x, x ∉ K → a' x = a x) → G a' = G a) :
    sumOver K (fun a => F a * G a) a = sumOver K F a * G a := by
  rw [← sumOver_mul_const]
  apply sumOver_congr
  intro a' ha'
  rw [hG a' ha']

/-- the sum depends only on the coordinates of `S` that are not summed -/
theorem sumOver_dep (K S : List Nat) (F : (Nat → Bool) → ℝ) (hF : DepOn F S) (a a' : Nat → Bool)
    (haa : ∀ x ∈ S, x ∉ K → a x = a' x) : sumOver K F a = sumOver K F a' := by
  induction K generalizing a a' with
  | nil => exact hF a a' (fun x hx => haa x hx (by simp))
  | cons u K ih =>
    simp only [sumOver]
    have key : ∀ b, sumOver K F (Function.update a u b) = sumOver K F (Function.update a' u b) := by
      intro b
      apply ih
      intro x hx hxK
      by_cases hxu : x = u
      · subst hxu; simp
      · rw [Function.update_of_ne hxu, Function.update_of_ne hxu]
        exact haa x hx (by simp [hxu, hxK])
    rw [key false, key true]

theorem sumOver_swap (u v : Nat) (K : List Nat) (F : (Nat → Bool) → ℝ) (a : Nat → Bool) :
    sumOver (u :: v :: K) F a = sumOver (v :: u :: K) F a := by
  by_cases huv : u = v
  · subst huv; rfl
  · simp only [sumOver]
    have e : ∀ b b', Function.update (Function.update a u b) v b' = Function.update (Function.update a v b') u b :=
      fun b b' => Function.update_comm huv b b' a
    rw [e, e, e, e]
    ring

theorem sumOver_perm {K K' : List Nat} (hp : K.Perm K') (F : (Nat → Bool) → ℝ) (a : Nat → Bool) :
    sumOver K F a = sumOver K' F a := by
  induction hp generalizing a with
  | nil => rfl
  | cons u _ ih => simp only [sumOver, ih]
  | swap u v K => exact sumOver_swap v u K F a
  | trans _ _ ih1 ih2 => rw [ih1, ih2]

theorem sumOver_nonneg (K : List Nat) (F : (Nat → Bool) → ℝ) (hF : ∀ a, 0 ≤ F a) (a : Nat → Bool) :
    0 ≤ sumOver K F a := by
  induction K generalizing a with
  | nil => exact hF a
  | cons u K ih =>
    simp only [sumOver]
    have := ih (Function.update a u false)
    have := ih (Function.update a u true)
    linarith

/-- a sum of non-negative terms is at least the term where the summed coordinates are all `false` -/
theorem sumOver_ge_false (K : List Nat) (F : (Nat → Bool) → ℝ) (hF : ∀ a, 0 ≤ F a) (a : Nat → Bool) :
    F (fun x => if x ∈ K then false else a x) ≤ sumOver K F a := by
  induction K generalizing a with
  | nil => simp [sumOver]
  | cons u K ih =>
    simp only [sumOver]
    have h1 := ih (Function.update a u false)
    have h2 := sumOver_nonneg K F hF (Function.update a u true)
    have e : (fun x => if x ∈ u :: K then false else a x) =
        (fun x => if x ∈ K then false else Function.update a u false x) := by
      funext x
      by_cases hxK : x ∈ K
      · simp [hxK]
      · by_cases hxu : x = u
        · subst hxu; simp
        · simp [hxK, hxu]
    rw [e]
    linarith

/-! ### factorisation over blocks -/

/-- the sum over the concatenation of blocks `f i` of a product of factors `G i`, the `i`-th of which depends only on
`S i`, where `S i` avoids the other blocks, is the product of the block sums -/
theorem sumOver_flatMap_prod (Ls : List Nat) (f S : Nat → List Nat) (G : Nat → (Nat → Bool) → ℝ)
    (hG : ∀ i ∈ Ls, DepOn (G i) (S i))
    (hdis : Ls.Pairwise (fun i j => (∀ x ∈ S i, x ∉ f j) ∧ (∀ x ∈ S j, x ∉ f i))) (a : Nat → Bool) :
    sumOver (Ls.flatMap f) (fun a => (Ls.map (fun i => G i a)).prod) a =
      (Ls.map (fun i => sumOver (f i) (G i) a)).prod := by
  induction Ls generalizing a with
  | nil => simp [sumOver]
  | cons i Ls ih =>
    rw [List.pairwise_cons] at hdis
    obtain ⟨hi, hrest⟩ := hdis
    have ih' := ih (fun j hj => hG j (by simp [hj])) hrest
    simp only [List.flatMap_cons, List.map_cons, List.prod_cons]
    rw [sumOver_append]
    have e1 : (sumOver (Ls.flatMap f) (fun a => G i a * (Ls.map (fun j => G j a)).prod)) =
        (fun a => G i a * (Ls.map (fun j => sumOver (f j) (G j) a)).prod) := by
      funext a
      rw [sumOver_mul_left, ih' a]
      intro a' ha'
      apply hG i (by simp)
      intro x hx
      apply ha'
      intro hm
      obtain ⟨j, hj, hxj⟩ := List.mem_flatMap.1 hm
      exact (hi j hj).1 x hx hxj
    rw [e1, sumOver_mul_right]
    intro a' ha'
    congr 1
    apply List.map_congr_left
    intro j hj
    apply sumOver_dep (f j) (S j) (G j) (hG j (by simp [hj]))
    intro x hx _
    apply ha'
    exact (hi j hj).2 x hx

/-! ### the XOR-convolution is a sum with a parity constraint -/

theorem bool_xor_beq (b' y b : Bool) : (xor b' y == b) = (y == xor b b') := by
  cases b' <;> cases y <;> cases b <;> rfl

theorem sumOver_conv (g : Nat → Bool → ℝ) (K : List Nat) (hK : K.Nodup) (b : Bool) (a : Nat → Bool) :
    sumOver K (fun a => ind (xr a K == b) * (K.map (fun u => g u (a u))).prod) a = conv g K b := by
  induction K generalizing b a with
  | nil => cases b <;> simp [sumOver, conv, xr_nil]
  | cons u K ih =>
    rw [List.nodup_cons] at hK
    obtain ⟨huK, hK⟩ := hK
    have key : ∀ b', sumOver K (fun a => ind (xr a (u :: K) == b) * ((u :: K).map (fun u => g u (a u))).prod)
        (Function.update a u b') = g u b' * conv g K (xor b b') := by
      intro b'
      rw [← ih hK (xor b b') (Function.update a u b'), ← sumOver_const_mul]
      apply sumOver_congr
      intro a' ha'
      have hu : a' u = b' := by rw [ha' u huK]; simp
      rw [xr_cons, hu, bool_xor_beq, List.map_cons, List.prod_cons, hu]
      ring
    simp only [sumOver, conv]
    rw [key false, key true]
    simp

end LdpcV.TreeBP
