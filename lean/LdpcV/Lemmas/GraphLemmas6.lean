/- Helper lemmas for C11, part 6: the outer loop of the girth search, the local girth, the girth. -/
import LdpcV.Lemmas.GraphLemmas5
namespace LdpcV.Graph

/-- invariant of the outer loop of the girth search -/
structure GInv (h : SM) (root : Node) (mx : Nat) (dist : Labels Nat) (branch : Labels Node)
    (queue : List PathHead) : Prop where
  sized : dist.Sized h
  bsized : branch.Sized h
  root0 : dist.get root = some (some 0)
  rootb : branch.get root = some none
  sound : ∀ v k, dist.get v = some (some k) → v ≠ root → ∃ b p, GoodPath h root branch b v k p
  bd : ∀ x b, branch.get x = some (some b) → ∃ k, dist.get x = some (some k)
  qok : ∀ q ∈ queue, QOK h root mx dist branch q
  sorted : queue.Pairwise (fun a b => a.len ≤ b.len)
  le : ∀ q ∈ queue, ∀ v k, dist.get v = some (some k) → k ≤ q.len + 1
  closed : ∀ v k, dist.get v = some (some k) →
    mx ≤ k ∨ (∃ q ∈ queue, q.node = v) ∨ GExp h root dist branch v k

theorem girthLoop_cons (h : SM) (mx fuel : Nat) (dist : Labels Nat) (branch : Labels Node)
    (head : PathHead) (queue : List PathHead) :
    girthLoop h mx (fuel + 1) dist branch (head :: queue) =
      match girthVisit mx ((branch.get head.node).getD none) dist branch queue (head.next h) with
      | .found total => if total ≤ mx then some total else none
      | .continue dist' branch' queue' => girthLoop h mx fuel dist' branch' queue' := rfl

theorem girthLoop_spec {h : SM} (hinv : h.Inv) {root : Node} {mx : Nat} :
    ∀ (fuel : Nat) (dist : Labels Nat) (branch : Labels Node) (queue : List PathHead),
      GInv h root mx dist branch queue → dist.unl + queue.length < fuel →
      (∀ g, girthLoop h mx fuel dist branch queue = some g → IsLocalGirth h root g ∧ g ≤ mx) ∧
      (girthLoop h mx fuel dist branch queue = none → ∀ c, IsCycle h c → root ∈ c → mx < c.length) := by
  intro fuel
  induction fuel with
  | zero => intro _ _ _ _ hf; omega
  | succ fuel ih =>
    intro dist branch queue hg hf
    cases queue with
    | nil =>
      refine ⟨fun g hgg => by simp [girthLoop] at hgg, fun _ c hc hrc => ?_⟩
      have h3 := hc.1
      by_cases hmx : mx = 0
      · omega
      · have hexp : ∀ v k, dist.get v = some (some k) → k < mx → GExp h root dist branch v k := by
          intro v k hvk hk
          rcases hg.closed v k hvk with h1 | ⟨q, hq, _⟩ | h3
          · omega
          · simp at hq
          · exact h3
        have := no_short_cycle hexp hg.root0 hg.rootb (by omega) hc hrc
        omega
    | cons head queue =>
      rw [girthLoop_cons]
      have hsorted := List.pairwise_cons.1 hg.sorted
      have hhead := hg.qok head List.mem_cons_self
      have hv : GVInv h root mx head.len head.node dist branch queue := by
        refine ⟨hg.sized, hg.bsized, hg.root0, hg.rootb, hg.sound, hg.bd,
          fun q hq => hg.qok q (List.mem_cons_of_mem _ hq), hsorted.2, fun q hq => hsorted.1 q hq,
          fun v k hvk => hg.le head List.mem_cons_self v k hvk, ?_⟩
        intro v k hvk
        rcases hg.closed v k hvk with h1 | ⟨q, hq, rfl⟩ | h3
        · exact .inl h1
        · rcases List.mem_cons.1 hq with rfl | hq
          · exact .inr (.inl rfl)
          · exact .inr (.inr (.inl ⟨q, hq, rfl⟩))
        · exact .inr (.inr (.inr h3))
      have ho : HeadOK root mx head.len head.node ((branch.get head.node).getD none) dist branch := by
        refine ⟨hhead.lab, ?_⟩
        by_cases hur : head.node = root
        · left; refine ⟨hur, ?_⟩; rw [hur, hg.rootb]; rfl
        · right
          obtain ⟨h1, p, b, _, h3, _, _⟩ := hhead.par hur
          exact ⟨hur, h1, b, by rw [h3]; rfl, h3⟩
      have hitems : ∀ nh ∈ head.next h, nh.len = head.len + 1 ∧ Adj h head.node nh.node ∧
          nh.node ≠ root ∧ nh.parent = some head.node := by
        intro nh hnh
        obtain ⟨h1, h2, h3, h4⟩ := (mem_next hinv head nh).1 hnh
        refine ⟨h4, h1, ?_, h3⟩
        intro hnr
        by_cases hur : head.node = root
        · rw [hur, hnr] at h1; exact h1.ne rfl
        · obtain ⟨_, p, b, e2, _, _, e5⟩ := hhead.par hur
          rw [hnr] at h1
          have := e5 h1
          subst this
          exact h2 _ e2 hnr
      have hpost := girthVisit_inv hinv (head.next h) dist branch queue hv ho hitems
      generalize girthVisit mx ((branch.get head.node).getD none) dist branch queue (head.next h) = res at hpost
      cases res with
      | found t =>
        simp only
        have hpost : IsLocalGirth h root t := hpost
        constructor
        · intro g hgg
          split at hgg
          · cases hgg; exact ⟨hpost, by assumption⟩
          · cases hgg
        · intro hn c hc hrc
          split at hn
          · cases hn
          · have := hpost.2 c hc hrc; omega
      | «continue» d' b' q' =>
        simp only
        obtain ⟨h1, h2, h3, h4, h5⟩ := hpost
        have ho' := ho.mono h3 h4
        have hg' : GInv h root mx d' b' q' := by
          refine ⟨h1.sized, h1.bsized, h1.root0, h1.rootb, h1.sound, h1.bd, h1.qok, h1.sorted, ?_, ?_⟩
          · intro q hq v k hvk
            have := h1.qge q hq
            have := h1.le v k hvk
            omega
          · intro v k hvk
            rcases h1.closed v k hvk with h1' | rfl | h3' | h4'
            · exact .inl h1'
            · right; right
              have hk : k = head.len := by
                have := ho'.lab; rw [this] at hvk; simpa using hvk.symm
              subst hk
              -- the value of the head branch under the final labels
              have hhb : (b'.get head.node).getD none = (branch.get head.node).getD none := by
                rcases ho.cases with ⟨hur, e⟩ | ⟨_, _, b, e, e'⟩
                · rw [e, hur, h1.rootb]; rfl
                · rw [e', h4 _ _ e']
              intro w hw hwr
              by_cases hp : head.parent = some w
              · have hur : head.node ≠ root := by
                  intro hur; rw [hhead.rootp hur] at hp; cases hp
                obtain ⟨_, p, b, e2, e3, e4, _⟩ := hhead.par hur
                rw [hp] at e2; cases e2
                rcases e4 with e4 | ⟨k', e4, e4'⟩
                · exact (hwr e4).elim
                · refine ⟨k', h3 _ _ e4, h1.le _ _ (h3 _ _ e4), ?_⟩
                  rw [h4 _ _ e4', h4 _ _ e3]; rfl
              · have hmem : (⟨w, some head.node, head.len + 1⟩ : PathHead) ∈ head.next h := by
                  rw [mem_next hinv]
                  refine ⟨hw, ?_, rfl, rfl⟩
                  intro q hq hwq
                  exact hp (by rw [hq]; simp at hwq; rw [hwq])
                obtain ⟨k', e1, e2⟩ := h2 _ hmem
                exact ⟨k', e1, h1.le _ _ e1, by rw [hhb]; exact e2⟩
            · exact .inr (.inl h3')
            · exact .inr (.inr h4')
        have hf' : d'.unl + q'.length < fuel := by
          simp only [List.length_cons] at hf; omega
        exact ih d' b' q' hg' hf'

/-- the girth search for an arbitrary bound -/
theorem localGirth_spec (h : SM) (hinv : h.Inv) (root : Node) (hr : inRange h root = true) (max : Option Nat) :
    ∃ r, localGirth h root max = some r ∧
      (∀ g, r = some g → IsLocalGirth h root g ∧ g ≤ max.getD (2 * (h.nrows + h.ncols) + 2)) ∧
      (r = none → ∀ c, IsCycle h c → root ∈ c → max.getD (2 * (h.nrows + h.ncols) + 2) < c.length) := by
  have hblank : (Labels.blank h : Labels Nat).get root = some none := Labels.get_blank h root hr
  have hroot0 : ((Labels.blank h : Labels Nat).set root 0).get root = some (some 0) :=
    Labels.get_set_same _ _ _ _ hblank
  have hnob : ∀ x b, (Labels.blank h : Labels Node).get x ≠ some (some b) := by
    intro x b hx
    cases hrx : inRange h x
    · have := (Labels.Sized.get_isSome (Labels.Sized.blank (α := Node) h) x).1 ⟨_, hx⟩
      simp [hrx] at this
    · rw [Labels.get_blank h x hrx] at hx; simp at hx
  have hold : ∀ v k, ((Labels.blank h : Labels Nat).set root 0).get v = some (some k) → v = root ∧ k = 0 := by
    intro v k hvk
    by_cases hv : v = root
    · subst hv; rw [hroot0] at hvk; exact ⟨rfl, by simpa using hvk.symm⟩
    · rw [Labels.get_set_ne _ _ _ _ hv] at hvk
      cases hrv : inRange h v
      · have := (Labels.Sized.get_isSome (Labels.Sized.blank (α := Nat) h) v).1 ⟨_, hvk⟩
        simp [hrv] at this
      · rw [Labels.get_blank h v hrv] at hvk; simp at hvk
  have hinit : GInv h root (max.getD (2 * (h.nrows + h.ncols) + 2)) ((Labels.blank h).set root 0)
      (Labels.blank h) [{ node := root, parent := none, len := 0 }] := by
    refine ⟨(Labels.Sized.blank h).set _ _, Labels.Sized.blank h, hroot0, Labels.get_blank h root hr,
      ?_, ?_, ?_, List.pairwise_singleton _ _, ?_, ?_⟩
    · intro v k hvk hvr; exact (hvr (hold v k hvk).1).elim
    · intro x b hxb; exact (hnob x b hxb).elim
    · intro q hq; simp only [List.mem_singleton] at hq; subst hq
      exact ⟨hroot0, fun _ => rfl, fun hne => (hne rfl).elim⟩
    · intro q _ v k hvk; obtain ⟨rfl, rfl⟩ := hold v k hvk; omega
    · intro v k hvk; obtain ⟨rfl, rfl⟩ := hold v k hvk
      exact .inr (.inl ⟨_, List.mem_singleton.2 rfl, rfl⟩)
  have hfuel : ((Labels.blank h : Labels Nat).set root 0).unl +
      [({ node := root, parent := none, len := 0 } : PathHead)].length < fuelFor h := by
    have := Labels.unl_set (Labels.blank h : Labels Nat) root 0 hblank
    rw [Labels.unl_blank] at this
    simp only [List.length_singleton, fuelFor]; omega
  obtain ⟨s1, s2⟩ := girthLoop_spec hinv _ _ _ _ hinit hfuel
  exact ⟨_, by simp only [localGirth, hr, if_true], s1, s2⟩

theorem IsLocalGirth.unique {h : SM} {root : Node} {g g' : Nat} (h1 : IsLocalGirth h root g)
    (h2 : IsLocalGirth h root g') : g = g' := by
  obtain ⟨⟨c, hc, hr, hl⟩, hmin⟩ := h1
  obtain ⟨⟨c', hc', hr', hl'⟩, hmin'⟩ := h2
  have := hmin c' hc' hr'
  have := hmin' c hc hr
  omega

theorem localGirth_exact (h : SM) (hinv : h.Inv) (root : Node) (hr : inRange h root = true) :
    ∃ r, localGirth h root none = some r ∧
      (∀ g, r = some g ↔ IsLocalGirth h root g) ∧ (r = none ↔ OnNoCycle h root) := by
  obtain ⟨r, h1, h2, h3⟩ := localGirth_spec h hinv root hr none
  simp only [Option.getD_none] at h2 h3
  have hnone : r = none → OnNoCycle h root := by
    intro hn c hc hrc
    have := h3 hn c hc hrc
    have := hc.length_le hinv
    omega
  refine ⟨r, h1, ?_, hnone, ?_⟩
  · intro g
    constructor
    · intro hg; exact (h2 g hg).1
    · intro hg
      cases r with
      | none =>
        obtain ⟨⟨c, hc, hrc, _⟩, _⟩ := hg
        exact (hnone rfl c hc hrc).elim
      | some g' => rw [(h2 g' rfl).1.unique hg]
  · intro hno
    cases r with
    | none => rfl
    | some g' =>
      obtain ⟨⟨c, hc, hrc, _⟩, _⟩ := (h2 g' rfl).1
      exact (hno c hc hrc).elim

theorem localGirth_bounded (h : SM) (hinv : h.Inv) (root : Node) (hr : inRange h root = true) (b : Nat) :
    localGirth h root (some b) = (localGirth h root none).map (cutAt (some b)) := by
  obtain ⟨r, h1, h2, h3⟩ := localGirth_spec h hinv root hr (some b)
  obtain ⟨r', h1', h2', h3'⟩ := localGirth_exact h hinv root hr
  simp only [Option.getD_some] at h2 h3
  rw [h1, h1']
  simp only [Option.map_some, Option.some.injEq]
  cases r with
  | some g =>
    obtain ⟨e1, e2⟩ := h2 g rfl
    rw [(h2' g).2 e1]
    simp [cutAt, e2]
  | none =>
    cases r' with
    | none => rfl
    | some g' =>
      obtain ⟨⟨c, hc, hrc, hl⟩, _⟩ := (h2' g').1 rfl
      have := h3 rfl c hc hrc
      simp only [cutAt]
      rw [if_neg (by omega)]

/-! ### the minimum over all columns -/

theorem minOpt_none (l : List (Option Nat)) : minOpt l = none ↔ ∀ x ∈ l, x = none := by
  induction l with
  | nil => simp [minOpt]
  | cons a t ih =>
    cases a with
    | none => simp [minOpt, ih]
    | some a => cases hm : minOpt t <;> simp [minOpt, hm]

theorem minOpt_some (l : List (Option Nat)) (g : Nat) :
    minOpt l = some g ↔ some g ∈ l ∧ ∀ g', some g' ∈ l → g ≤ g' := by
  induction l generalizing g with
  | nil => simp [minOpt]
  | cons a t ih =>
    cases a with
    | none => simp [minOpt, ih]
    | some a =>
      cases hm : minOpt t with
      | none =>
        have hn := (minOpt_none t).1 hm
        simp only [minOpt, hm, Option.some.injEq, List.mem_cons]
        constructor
        · rintro rfl
          refine ⟨.inl rfl, ?_⟩
          rintro g' (e | e)
          · omega
          · have := hn _ e; simp at this
        · rintro ⟨e | e, _⟩
          · exact e.symm
          · have := hn _ e; simp at this
      | some m =>
        obtain ⟨hm1, hm2⟩ := (ih m).1 hm
        simp only [minOpt, hm, Option.some.injEq, List.mem_cons]
        constructor
        · rintro rfl
          constructor
          · by_cases hle : a ≤ m
            · left; rw [Nat.min_eq_left hle]
            · right; rw [Nat.min_eq_right (by omega)]; exact hm1
          · rintro g' (e | e)
            · have := Nat.min_le_left a m; omega
            · have := hm2 g' e; have := Nat.min_le_right a m; omega
        · rintro ⟨e | e, hmin⟩
          · have h1 := hmin m (.inr hm1)
            have : g = a := by omega
            subst this
            exact Nat.min_eq_left h1
          · have h1 := hmin a (.inl rfl)
            have h2 := hm2 g e
            have : m = g := by have := hmin m (.inr hm1); omega
            subst this
            exact Nat.min_eq_right h1

theorem minOpt_cutAt (b : Nat) (l : List (Option Nat)) :
    minOpt (l.map (cutAt (some b))) = cutAt (some b) (minOpt l) := by
  induction l with
  | nil => rfl
  | cons a t ih =>
    cases a with
    | none => simpa [minOpt, cutAt] using ih
    | some a =>
      simp only [List.map_cons]
      cases hm : minOpt t with
      | none =>
        rw [hm] at ih
        by_cases hab : a ≤ b
        · simp [cutAt, hab, minOpt, hm, ih]
        · simp only [cutAt, hab, if_false, minOpt, hm, ih]
      | some m =>
        rw [hm] at ih
        by_cases hab : a ≤ b <;> by_cases hmb : m ≤ b
        all_goals simp only [cutAt, hab, hmb, if_true, if_false, minOpt, hm] at ih ⊢
        all_goals simp only [ih]
        all_goals first
          | rfl
          | (have : min a m ≤ b := by omega
             simp [this])
          | (have : ¬ min a m ≤ b := by omega
             simp [this])
          | skip
        all_goals omega

end LdpcV.Graph
