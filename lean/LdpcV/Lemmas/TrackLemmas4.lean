/- Helper lemmas (TrackLemmas4) for C04Track: partial hard limiting is applied only at emission, so every 8-bit check
rule with an arbitrary configuration is the rule without partial hard limiting followed by `cfg.hl` on every emitted
value; the promotion clauses (`amin_rule_tracks_hl`, `approx_rule_promotion`) follow from the no-hard-limit theorems
and an elementary fact about `phl`. -/
import LdpcV.Lemmas.TrackLemmas3
namespace LdpcV.TrackL
open LdpcV LdpcV.ArithF

/-! ### `cfg.hl` -/

/-- the configuration with partial hard limiting switched off -/
def noHl (cfg : I8.Cfg) : I8.Cfg := { cfg with hardLimit := false }

theorem noHl_hardLimit (cfg : I8.Cfg) : (noHl cfg).hardLimit = false := rfl

theorem noHl_hl (cfg : I8.Cfg) (x : ℤ) : (noHl cfg).hl x = x := by
  simp [I8.Cfg.hl, noHl]

/-- emission map: partial hard limiting of the value of a message -/
def emit (cfg : I8.Cfg) (p : ℕ × ℤ) : ℕ × ℤ := (p.1, cfg.hl p.2)

theorem hl_pm (cfg : I8.Cfg) (c : Prop) [Decidable c] (x : ℤ) :
    (if c then -cfg.hl x else cfg.hl x) = cfg.hl (if c then -x else x) := by
  split
  · exact (I8.hl_neg cfg x).symm
  · rfl

/-- a promoted value comes from a pre-limit value of magnitude at least 100 -/
theorem hl_big (cfg : I8.Cfg) (w : ℤ) (h : 100 ≤ (cfg.hl w).natAbs) : 100 ≤ w.natAbs := by
  by_contra hlt
  unfold I8.Cfg.hl at h
  split at h
  · unfold I8.phl at h
    split at h
    · omega
    · split at h <;> omega
  · omega

/-- the two clauses for one emitted value -/
theorem hl_clauses (cfg : I8.Cfg) (w : ℤ) (r e : ℝ) (hb : |(w : ℝ) - 8 * r| ≤ e) :
    ((cfg.hl w).natAbs < 100 → |((cfg.hl w : ℤ) : ℝ) - 8 * r| ≤ e) ∧
    (100 ≤ (cfg.hl w).natAbs → (100 : ℝ) - e ≤ |8 * r|) := by
  constructor
  · intro h
    rw [hl_guard cfg w (Or.inr h)]
    exact hb
  · intro h
    have h1 := hl_big cfg w h
    have h2 : (100 : ℝ) ≤ |(w : ℝ)| := by
      have : (100 : ℤ) ≤ |w| := by rw [Int.abs_eq_natAbs]; exact_mod_cast h1
      have h3 : ((100 : ℤ) : ℝ) ≤ ((|w| : ℤ) : ℝ) := Int.cast_le.2 this
      rw [Int.cast_abs] at h3
      simpa using h3
    have h4 : |(w : ℝ)| ≤ |(w : ℝ) - 8 * r| + |8 * r| := by
      have := abs_add_le ((w : ℝ) - 8 * r) (8 * r)
      simpa using this
    linarith

/-! ### the rules: emission factored out -/

theorem mapM_map {α β γ : Type} (f : α → Option β) (g : β → γ) (l : List α) :
    l.mapM (fun x => (f x).map g) = (l.mapM f).map (List.map g) := by
  induction l with
  | nil => simp
  | cons a l ih =>
    rw [List.mapM_cons, List.mapM_cons, ih]
    cases f a with
    | none => rfl
    | some y =>
      cases l.mapM f with
      | none => rfl
      | some ys => rfl

theorem approxOne_hl (cfg : I8.Cfg) (msgs : List (ℕ × ℤ)) (ex : ℕ × ℤ) :
    I8.approxOne cfg msgs ex = (I8.approxOne (noHl cfg) msgs ex).map (emit cfg) := by
  rw [I8.approxOne_eq, I8.approxOne_eq]
  cases I8.foldAbs I8.stepApprox (I8.othersOf msgs ex.1) none with
  | none => rfl
  | some r =>
    cases r with
    | none => rfl
    | some z => simp [emit, noHl_hl]

theorem checkApprox_hl (cfg : I8.Cfg) (msgs : List (ℕ × ℤ)) :
    I8.checkApprox cfg msgs = (I8.checkApprox (noHl cfg) msgs).map (List.map (emit cfg)) := by
  rw [I8.checkApprox_eq, I8.checkApprox_eq, ← mapM_map]
  congr 1
  funext ex
  exact approxOne_hl cfg msgs ex

theorem checkAmin_hl (cfg : I8.Cfg) (msgs : List (ℕ × ℤ)) :
    I8.checkAmin cfg msgs = (I8.checkAmin (noHl cfg) msgs).map (List.map (emit cfg)) := by
  unfold I8.checkAmin
  simp only [Option.bind_eq_bind, Option.pure_def]
  cases I8.argminAbs (msgs.map (·.2)) with
  | none => rfl
  | some p =>
    obtain ⟨j, w⟩ := p
    simp only [Option.bind_some]
    cases I8.foldAbs I8.stepFull (((msgs.map (·.2)).zipIdx.filter (fun p => p.2 != j)).map (·.1)) none with
    | none => rfl
    | some r =>
      cases r with
      | none => rfl
      | some delta =>
        simp only [Option.bind_some]
        cases I8.abs8 w with
        | none => rfl
        | some vmin =>
          simp only [Option.bind_some]
          cases I8.stepFull delta vmin with
          | none => rfl
          | some delta2 =>
            simp only [Option.bind_some, Option.map_some, List.map_cons, List.map_map, noHl_hl, hl_pm, emit,
              Function.comp_def, bne_iff_ne, ne_eq]

/-! ### from the no-hard-limit bound to the two clauses -/

theorem emit_clauses (cfg : I8.Cfg) (e : ℝ) (out0 : List (ℕ × ℤ)) (outR : List (ℕ × ℝ))
    (hfst : out0.map Prod.fst = outR.map Prod.fst)
    (hb : ∀ i, i < out0.length → |((out0.getD i (0, 0)).2 : ℝ) - 8 * (outR.getD i (0, 0)).2| ≤ e) :
    (out0.map (emit cfg)).map Prod.fst = outR.map Prod.fst ∧
    ∀ i, i < (out0.map (emit cfg)).length →
      (((out0.map (emit cfg)).getD i (0, 0)).2.natAbs < 100 →
        |((((out0.map (emit cfg)).getD i (0, 0)).2 : ℤ) : ℝ) - 8 * (outR.getD i (0, 0)).2| ≤ e) ∧
      (100 ≤ ((out0.map (emit cfg)).getD i (0, 0)).2.natAbs → (100 : ℝ) - e ≤ |8 * (outR.getD i (0, 0)).2|) := by
  constructor
  · rw [List.map_map, ← hfst]
    rfl
  · intro i hi
    rw [List.length_map] at hi
    have e1 : (out0.map (emit cfg)).getD i (0, 0) = emit cfg (out0.getD i (0, 0)) := by
      simp [List.getD_eq_getElem?_getD, hi]
    rw [e1]
    exact hl_clauses cfg _ _ e (hb i hi)

/-- the A-Min* rule, any configuration: both clauses -/
theorem amin_rule_hl (cfg : I8.Cfg) (msgs : List (ℕ × ℤ))
    (hr : ∀ m ∈ msgs, -127 ≤ m.2 ∧ m.2 ≤ 127) (hd : 2 ≤ msgs.length) :
    ∃ out outR, I8.checkAmin cfg msgs = some out ∧ checkAmin Sc.real (sc msgs) = some outR ∧
      out.map Prod.fst = outR.map Prod.fst ∧
      ∀ i, i < out.length →
        ((out.getD i (0, 0)).2.natAbs < 100 →
          |((out.getD i (0, 0)).2 : ℝ) - 8 * (outR.getD i (0, 0)).2| ≤ ((msgs.length - 1 : ℕ) : ℝ)) ∧
        (100 ≤ (out.getD i (0, 0)).2.natAbs →
          (100 : ℝ) - ((msgs.length - 1 : ℕ) : ℝ) ≤ |8 * (outR.getD i (0, 0)).2|) := by
  obtain ⟨out0, outR, h1, h2, h3, h4⟩ := amin_rule (noHl cfg) (noHl_hardLimit cfg) msgs hr hd
  obtain ⟨a, b⟩ := emit_clauses cfg _ out0 outR h3 h4
  refine ⟨out0.map (emit cfg), outR, ?_, h2, a, b⟩
  rw [checkAmin_hl, h1]
  rfl

/-- the approximate rule, any configuration: both clauses -/
theorem approx_rule_hl (cfg : I8.Cfg) (msgs : List (ℕ × ℤ)) (hn : (msgs.map Prod.fst).Nodup)
    (hr : ∀ m ∈ msgs, -127 ≤ m.2 ∧ m.2 ≤ 127) (hd : 2 ≤ msgs.length) :
    ∃ out outR, I8.checkApprox cfg msgs = some out ∧ checkApprox Sc.real (sc msgs) = some outR ∧
      out.map Prod.fst = outR.map Prod.fst ∧
      ∀ i, i < out.length →
        ((out.getD i (0, 0)).2.natAbs < 100 →
          |((out.getD i (0, 0)).2 : ℝ) - 8 * (outR.getD i (0, 0)).2| ≤ ((msgs.length - 2 : ℕ) : ℝ) / 2) ∧
        (100 ≤ (out.getD i (0, 0)).2.natAbs →
          (100 : ℝ) - ((msgs.length - 2 : ℕ) : ℝ) / 2 ≤ |8 * (outR.getD i (0, 0)).2|) := by
  obtain ⟨out0, outR, h1, h2, h3, h4⟩ := approx_rule (noHl cfg) msgs hn hr hd
  obtain ⟨a, b⟩ := emit_clauses cfg _ out0 outR h3 (fun i hi => h4 i hi (Or.inl (noHl_hardLimit cfg)))
  refine ⟨out0.map (emit cfg), outR, ?_, h2, a, b⟩
  rw [checkApprox_hl, h1]
  rfl

end LdpcV.TrackL
