/- Helper lemmas for the BER thread protocol (C13Proto). -/
import LdpcV.Model.BerProto
namespace LdpcV.BerProto

/-- the terminate messages have been sent exactly in the phases after `signalling` -/
def pastSignal : Phase → Bool
  | .joining _ => true
  | .done _ => true
  | _ => false

/-- number of workers that have already been joined -/
def jb (s : St) : Nat := match s.phase with
  | .joining i => i
  | .done _ => s.workers.length
  | _ => 0

/-- the protocol invariant (independent of the error target and of `keepSender`) -/
structure Inv (n : Nat) (s : St) : Prop where
  len : s.workers.length = n
  term : s.termSent = pastSignal s.phase
  jbLe : jb s ≤ n
  joined : ∀ j, j < jb s → s.workers[j]? ≠ some .running
  saw : ∀ j, j < jb s →
    (s.workers[j]? = some .exitedErr ∨ s.workers[j]? = some .panicked) → s.sawError = true
  doneOk : ∀ ok, s.phase = .done ok → ok = !s.sawError

theorem getElem?_set_running {ws : List WState} {i j : Nat} {v : WState}
    (hi : ws[i]? = some .running) (hj : ws[j]? ≠ some .running) : (ws.set i v)[j]? = ws[j]? := by
  have hne : i ≠ j := by
    intro h; subst h; exact hj hi
  exact List.getElem?_set_ne hne

theorem jb_set (s : St) (i : Nat) (v : WState) (q : List Bool) :
    jb { s with workers := s.workers.set i v, queue := q } = jb s := by
  unfold jb
  cases s.phase <;> simp

theorem inv_init (n : Nat) : Inv n (init n) := by
  refine ⟨by simp [init], rfl, by simp [jb, init], ?_, ?_, ?_⟩
  · intro j hj; simp [jb, init] at hj
  · intro j hj; simp [jb, init] at hj
  · intro ok h; simp [init] at h

/-- a running worker moves to a non-running state (and possibly the queue changes) -/
theorem inv_set {n : Nat} {s : St} {i : Nat} {v : WState} (h : Inv n s)
    (hi : s.workers[i]? = some .running) (q : List Bool) :
    Inv n { s with workers := s.workers.set i v, queue := q } := by
  refine ⟨?_, h.term, ?_, ?_, ?_, h.doneOk⟩
  · simpa using h.len
  · rw [jb_set]; exact h.jbLe
  · intro j hj
    rw [jb_set] at hj
    have := h.joined j hj
    show (s.workers.set i v)[j]? ≠ _
    rw [getElem?_set_running hi this]; exact this
  · intro j hj
    rw [jb_set] at hj
    have := h.joined j hj
    show ((s.workers.set i v)[j]? = _ ∨ (s.workers.set i v)[j]? = _) → s.sawError = true
    rw [getElem?_set_running hi this]; exact h.saw j hj

theorem inv_queue {n : Nat} {s : St} (h : Inv n s) (q : List Bool) :
    Inv n { s with queue := q } :=
  ⟨h.len, h.term, h.jbLe, h.joined, h.saw, h.doneOk⟩

/-- a collector step inside / out of the `while` loop -/
theorem inv_early {n : Nat} {s : St} (h : Inv n s) (hps : s.phase = .collecting) (p : Phase)
    (hp : p = .collecting ∨ p = .signalling) (q : List Bool) (e : Nat) (sw : Bool) :
    Inv n { s with queue := q, errors := e, sawError := sw, phase := p } := by
  have ht : s.termSent = false := by rw [h.term, hps]; rfl
  rcases hp with hp | hp <;> subst hp
  · refine ⟨h.len, ht, by simp [jb], ?_, ?_, ?_⟩
    · intro j hj; simp [jb] at hj
    · intro j hj; simp [jb] at hj
    · intro ok hk; simp at hk
  · refine ⟨h.len, ht, by simp [jb], ?_, ?_, ?_⟩
    · intro j hj; simp [jb] at hj
    · intro j hj; simp [jb] at hj
    · intro ok hk; simp at hk

theorem ite_phase (c : Prop) [Decidable c] :
    (if c then Phase.collecting else Phase.signalling) = .collecting ∨
    (if c then Phase.collecting else Phase.signalling) = .signalling := by
  by_cases h : c
  · exact Or.inl (if_pos h)
  · exact Or.inr (if_neg h)

theorem inv_step {keep : Bool} {target n : Nat} {s s' : St} (h : Inv n s)
    (hs : Step keep target s s') : Inv n s' := by
  cases hs with
  | workerTerminates i hi ht => exact inv_set h hi _
  | workerSendsFrame i hi ht => exact inv_queue h _
  | workerSendsError i hi ht => exact inv_set h hi _
  | workerPanics i hi ht => exact inv_set h hi _
  | collectFrame rest raises hp hq =>
    exact inv_early h hp _ (ite_phase _) _ _ _
  | collectError rest hp hq => exact inv_early h hp _ (Or.inr rfl) _ _ _
  | collectDisconnected hp hq ha hk => exact inv_early h hp _ (Or.inr rfl) _ _ _
  | signal hp =>
    refine ⟨h.len, rfl, by simp [jb], ?_, ?_, ?_⟩
    · intro j hj; simp [jb] at hj
    · intro j hj; simp [jb] at hj
    · intro ok hk; simp at hk
  | join i w hp hw hne =>
    have hjb : jb s = i := by simp [jb, hp]
    have hlt : i < s.workers.length := by
      have := (List.getElem?_eq_some_iff.mp hw).1
      exact this
    refine ⟨h.len, ?_, ?_, ?_, ?_, ?_⟩
    · show s.termSent = true
      rw [h.term, hp]; rfl
    · show i + 1 ≤ n
      have := h.len; omega
    · intro j hj
      have hj' : j < i + 1 := hj
      show s.workers[j]? ≠ _
      by_cases hji : j = i
      · subst hji; rw [hw]; simpa using hne
      · exact h.joined j (by omega)
    · intro j hj hwj
      have hj' : j < i + 1 := hj
      have hwj' : s.workers[j]? = some .exitedErr ∨ s.workers[j]? = some .panicked := hwj
      show (s.sawError || w == .exitedErr || w == .panicked) = true
      by_cases hji : j = i
      · subst hji
        rw [hw] at hwj'
        rcases hwj' with h1 | h1
        · have : w = .exitedErr := by simpa using h1
          subst this; simp
        · have : w = .panicked := by simpa using h1
          subst this; simp
      · have := h.saw j (by omega) hwj'
        simp [this]
    · intro ok hk; simp at hk
  | finish i hp hi =>
    have hjb : jb s = i := by simp [jb, hp]
    refine ⟨h.len, ?_, ?_, ?_, ?_, ?_⟩
    · show s.termSent = true
      rw [h.term, hp]; rfl
    · show s.workers.length ≤ n
      have := h.len; omega
    · intro j hj
      have hj' : j < s.workers.length := hj
      exact h.joined j (by omega)
    · intro j hj hwj
      have hj' : j < s.workers.length := hj
      exact h.saw j (by omega) hwj
    · intro ok hk
      have : (!s.sawError) = ok := by simpa using hk
      exact this.symm

theorem inv_of_reachable {keep : Bool} {target n : Nat} {s : St}
    (hr : Reachable keep target n s) : Inv n s := by
  induction hr with
  | init => exact inv_init n
  | step _ hs ih => exact inv_step ih hs

/-! ### the error target -/

theorem target_step {keep : Bool} {target : Nat} {s s' : St}
    (h : s.errors ≤ target ∧ (s.phase = .collecting → s.errors < target))
    (hs : Step keep target s s') :
    s'.errors ≤ target ∧ (s'.phase = .collecting → s'.errors < target) := by
  cases hs with
  | workerTerminates i hi ht => exact h
  | workerSendsFrame i hi ht => exact h
  | workerSendsError i hi ht => exact h
  | workerPanics i hi ht => exact h
  | collectFrame rest raises hp hq =>
    have := h.2 hp
    refine ⟨?_, ?_⟩
    · show s.errors + (if raises = true then 1 else 0) ≤ target
      split <;> omega
    · intro hph
      show s.errors + (if raises = true then 1 else 0) < target
      have hph' : (if s.errors + (if raises = true then 1 else 0) < target then Phase.collecting
          else Phase.signalling) = Phase.collecting := hph
      by_cases hlt : s.errors + (if raises = true then 1 else 0) < target
      · exact hlt
      · rw [if_neg hlt] at hph'; cases hph'
  | collectError rest hp hq => exact ⟨h.1, fun hph => by cases hph⟩
  | collectDisconnected hp hq ha hk => exact ⟨h.1, fun hph => by cases hph⟩
  | signal hp => exact ⟨h.1, fun hph => by cases hph⟩
  | join i w hp hw hne => exact ⟨h.1, fun hph => by cases hph⟩
  | finish i hp hi => exact ⟨h.1, fun hph => by cases hph⟩

theorem target_of_reachable {keep : Bool} {target n : Nat} (ht : 1 ≤ target) {s : St}
    (hr : Reachable keep target n s) :
    s.errors ≤ target ∧ (s.phase = .collecting → s.errors < target) := by
  induction hr with
  | init => exact ⟨Nat.zero_le _, fun _ => ht⟩
  | step _ hs ih => exact target_step ih hs

/-! ### deadlock-freedom -/

theorem exists_running_of_alive {s : St} (h : alive s = true) :
    ∃ i : Nat, s.workers[i]? = some WState.running := by
  unfold alive at h
  rw [List.any_eq_true] at h
  obtain ⟨x, hx, hxr⟩ := h
  have : x = WState.running := by simpa using hxr
  subst this
  exact List.mem_iff_getElem?.mp hx

theorem inv_progress {target n : Nat} {s : St} (h : Inv n s) (hd : isDone s = false) :
    ∃ s', Step false target s s' := by
  cases hph : s.phase with
  | collecting =>
    have ht : s.termSent = false := by rw [h.term, hph]; rfl
    cases hq : s.queue with
    | nil =>
      by_cases ha : alive s = true
      · obtain ⟨i, hi⟩ := exists_running_of_alive ha
        exact ⟨_, Step.workerSendsFrame s i hi ht⟩
      · exact ⟨_, Step.collectDisconnected s hph hq (by simpa using ha) rfl⟩
    | cons b rest =>
      cases b with
      | true => exact ⟨_, Step.collectFrame s rest false hph hq⟩
      | false => exact ⟨_, Step.collectError s rest hph hq⟩
  | signalling => exact ⟨_, Step.signal s hph⟩
  | joining i =>
    have ht : s.termSent = true := by rw [h.term, hph]; rfl
    have hle : i ≤ s.workers.length := by
      have := h.jbLe; simp [jb, hph] at this; have := h.len; omega
    by_cases hi : i = s.workers.length
    · exact ⟨_, Step.finish s i hph hi⟩
    · have hlt : i < s.workers.length := by omega
      have hw : s.workers[i]? = some s.workers[i] := List.getElem?_eq_getElem hlt
      by_cases hr : s.workers[i] = .running
      · rw [hr] at hw
        exact ⟨_, Step.workerTerminates s i hw ht⟩
      · exact ⟨_, Step.join s i _ hph hw hr⟩
  | done ok => simp [isDone, hph] at hd

theorem done_phase {s : St} (hd : isDone s = true) : ∃ ok, s.phase = .done ok := by
  unfold isDone at hd
  cases hph : s.phase with
  | done ok => exact ⟨ok, rfl⟩
  | collecting => simp [hph] at hd
  | signalling => simp [hph] at hd
  | joining i => simp [hph] at hd

/-! ### the stuck state of the protocol before the repair -/

/-- `k` workers have panicked, `m` are still running, nothing else has happened -/
def panickedSt (k m : Nat) : St :=
  { workers := List.replicate k .panicked ++ List.replicate m .running, termSent := false,
    queue := [], errors := 0, sawError := false, phase := .collecting }

theorem set_replicate_append (k m : Nat) :
    (List.replicate k WState.panicked ++ List.replicate (m + 1) WState.running).set k WState.panicked =
      List.replicate (k + 1) WState.panicked ++ List.replicate m WState.running := by
  induction k with
  | zero => simp [List.replicate_succ]
  | succ k ih =>
    rw [List.replicate_succ (n := k), List.cons_append, List.set_cons_succ, ih]
    simp [List.replicate_succ]

theorem reachable_panicked (target : Nat) (k m : Nat) :
    Reachable true target (k + m) (panickedSt k m) := by
  induction k generalizing m with
  | zero =>
    have : panickedSt 0 m = init (0 + m) := by simp [panickedSt, init]
    rw [this]; exact Reachable.init
  | succ k ih =>
    have hr : Reachable true target (k + (m + 1)) (panickedSt k (m + 1)) := ih (m + 1)
    have hn : k + 1 + m = k + (m + 1) := by omega
    rw [hn]
    have hi : (panickedSt k (m + 1)).workers[k]? = some .running := by
      simp [panickedSt, List.replicate_succ]
    have hstep := Step.workerPanics (keepSender := true) (target := target) _ k hi rfl
    have heq : { panickedSt k (m + 1) with
        workers := (panickedSt k (m + 1)).workers.set k .panicked } = panickedSt (k + 1) m := by
      simp only [panickedSt, set_replicate_append]
    rw [heq] at hstep
    exact Reachable.step hr hstep

theorem panicked_stuck (target n : Nat) : ¬ ∃ s', Step true target (panickedSt n 0) s' := by
  have hw : ∀ i : Nat, (panickedSt n 0).workers[i]? ≠ some WState.running := by
    intro i hi
    simp [panickedSt, List.getElem?_replicate] at hi
  rintro ⟨s', hs⟩
  cases hs with
  | workerTerminates i hi ht => exact hw i hi
  | workerSendsFrame i hi ht => exact hw i hi
  | workerSendsError i hi ht => exact hw i hi
  | workerPanics i hi ht => exact hw i hi
  | collectFrame rest raises hp hq => simp [panickedSt] at hq
  | collectError rest hp hq => simp [panickedSt] at hq
  | collectDisconnected hp hq ha hk => cases hk
  | signal hp => simp [panickedSt] at hp
  | join i w hp hw hne => simp [panickedSt] at hp
  | finish i hp hi => simp [panickedSt] at hp

/-! ### bounded termination once the terminate messages are out -/

/-- number of workers still running -/
def runningCount (ws : List WState) : Nat := ws.countP (· == .running)

/-- termination measure for states in which the terminate messages have been sent -/
def mu (n : Nat) (s : St) : Nat :=
  runningCount s.workers + (match s.phase with | .joining i => (n - i) + 1 | .done _ => 0 | _ => n + 2)

theorem runningCount_le (ws : List WState) : runningCount ws ≤ ws.length := List.countP_le_length

theorem runningCount_set {ws : List WState} {i : Nat} {v : WState} (hi : ws[i]? = some .running) (hv : v ≠ .running) :
    runningCount (ws.set i v) + 1 = runningCount ws := by
  induction ws generalizing i with
  | nil => simp at hi
  | cons a t ih =>
    cases i with
    | zero =>
      simp only [List.getElem?_cons_zero, Option.some.injEq] at hi
      subst hi
      simp only [List.set_cons_zero, runningCount, List.countP_cons]
      have : (v == WState.running) = false := by simpa using hv
      simp [this]
    | succ i =>
      simp only [List.getElem?_cons_succ] at hi
      have := ih hi
      simp only [List.set_cons_succ, runningCount, List.countP_cons] at this ⊢
      omega

/-- every step taken after the terminate messages were sent keeps them sent and strictly decreases `mu` -/
theorem step_decreases {keep : Bool} {target n : Nat} {s s' : St} (h : Inv n s) (ht : s.termSent = true)
    (hs : Step keep target s s') : s'.termSent = true ∧ mu n s' < mu n s := by
  have hph : pastSignal s.phase = true := by rw [← h.term]; exact ht
  cases hs with
  | workerTerminates i hi _ =>
    refine ⟨ht, ?_⟩
    have := runningCount_set (v := WState.exitedOk) hi (by decide)
    simp only [mu]; omega
  | workerSendsFrame i _ hf => rw [ht] at hf; cases hf
  | workerSendsError i _ hf => rw [ht] at hf; cases hf
  | workerPanics i _ hf => rw [ht] at hf; cases hf
  | collectFrame rest raises hp _ => rw [hp] at hph; cases hph
  | collectError rest hp _ => rw [hp] at hph; cases hph
  | collectDisconnected hp _ _ _ => rw [hp] at hph; cases hph
  | signal hp => rw [hp] at hph; cases hph
  | join i w hp hw _ =>
    refine ⟨ht, ?_⟩
    have hi : i < n := by
      rw [← h.len]
      exact (List.getElem?_eq_some_iff.mp hw).1
    simp only [mu, hp]; omega
  | finish i hp _ =>
    refine ⟨ht, ?_⟩
    simp only [mu, hp]; omega

/-- `k` consecutive steps -/
inductive Steps (keep : Bool) (target : Nat) : Nat → St → St → Prop
  | zero (s : St) : Steps keep target 0 s s
  | succ {k : Nat} {s s' s'' : St} : Step keep target s s' → Steps keep target k s' s'' → Steps keep target (k + 1) s s''

theorem steps_bounded {keep : Bool} {target n k : Nat} {s s' : St} (h : Inv n s) (ht : s.termSent = true)
    (hs : Steps keep target k s s') : k + mu n s' ≤ mu n s ∧ Inv n s' ∧ s'.termSent = true := by
  induction hs with
  | zero s => exact ⟨by omega, h, ht⟩
  | succ hstep _ ih =>
    obtain ⟨ht', hlt⟩ := step_decreases h ht hstep
    obtain ⟨h1, h2, h3⟩ := ih (inv_step h hstep) ht'
    exact ⟨by omega, h2, h3⟩

theorem mu_le {n : Nat} {s : St} (h : Inv n s) (hp : pastSignal s.phase = true) : mu n s ≤ 2 * n + 1 := by
  have h1 := runningCount_le s.workers
  rw [h.len] at h1
  unfold mu
  cases hph : s.phase with
  | collecting => rw [hph] at hp; cases hp
  | signalling => rw [hph] at hp; cases hp
  | joining i => simp only; omega
  | done ok => simp only; omega

end LdpcV.BerProto
