/-
CcsdsEnc1 — helper lemmas for LdpcV/Props/C07Enc.lean, part 1: the bridge between the bitset vocabulary of the
rank facts (`IndepBits`, `bitsOfRow`) and the dense vocabulary of the encoder theorems (`Nonsingular`, `tailMat`).

* `square_nonsingular_of_indepF` : a square matrix with independent rows has a trivial right kernel
  (row echelon form of C09: independent rows ⇒ `n` pivots in `n` columns ⇒ unit triangular ⇒ kernel trivial;
  row operations only enlarge the right kernel).
* `testBit_bitsOfRow`, `testBit_selFold` : bit `j` of a bitset row / of a selected xor of bitset rows.
* `tail_nonsingular_of_indepBits'` : the bridge.
-/
import LdpcV.Props.C07
import LdpcV.Props.C09
namespace LdpcV.CcsdsEnc
open LdpcV LdpcV.Ccsds LdpcV.Lin

/-! ### square matrices: independent rows ⇒ trivial right kernel -/

theorem square_nonsingular_of_indepF (a : Mat) (n : Nat) (hs : e_Shape n n a)
    (hi : e_IndepF n n a.get) : Nonsingular a := by
  obtain ⟨hre, hcase⟩ := e_rowEchelonForm_spec n n a hs
  generalize rowEchelonForm a n n = A at hre hcase
  rcases hcase with ⟨j', p, hj', hech⟩ | ⟨k', hk', hzero⟩
  · have hp : ∀ c, c < n → p c = c := by
      intro c hc
      have h1 := hech.room hj' c hc
      have h2 := hech.mono_le 0 c (by omega) hc
      omega
    intro x hx hz
    have hxn : x.length = n := by rw [hx, hs.1]
    have hsum := e_mulVec_zero a n n x hs hxn hz
    have hA := hre.ker id n (fun c => x.getD c false) hsum
    have hx0 := hech.tri (fun c => x.getD c false) (by
      intro i hi'
      refine Eq.trans ?_ (hA i hi')
      apply e_csum_congr
      intro c hc
      rw [hp c hc]; rfl)
    rw [e_isZero_iff]
    intro c hc
    exact hx0 c (by omega)
  · exact absurd ((hre.indep (m := n)).mp hi)
      (e_not_indep_of_zero_row hk' (fun c hc => hzero k' c (Nat.le_refl _) hc))

theorem square_nonsingular_of_rowsIndep (a : Mat) (n : Nat) (hs : e_Shape n n a)
    (hi : RowsIndep a n) : Nonsingular a :=
  square_nonsingular_of_indepF a n hs ((e_rowsIndep_iff a n n hs).mp hi)

/-! ### bits of `bitsOfRow` and of a selected xor -/

theorem testBit_foldl_or (l : List Nat) (lo j : Nat) : ∀ acc : Nat,
    (l.foldl (fun acc c => acc ||| (1 <<< (c - lo))) acc).testBit j =
      (acc.testBit j || l.any (fun c => c - lo == j)) := by
  induction l with
  | nil => intro acc; simp
  | cons c l ih =>
    intro acc
    rw [List.foldl_cons, ih, Nat.testBit_or, Nat.one_shiftLeft, Nat.testBit_two_pow, List.any_cons,
      Bool.or_assoc]
    congr 2

theorem testBit_bitsOfRow (cols : List Nat) (lo hi j : Nat) :
    (bitsOfRow cols lo hi).testBit j = (decide (lo + j < hi) && cols.contains (lo + j)) := by
  unfold bitsOfRow
  rw [testBit_foldl_or, Nat.zero_testBit, Bool.false_or, Bool.eq_iff_iff]
  simp only [List.any_eq_true, List.mem_filter, Bool.and_eq_true, decide_eq_true_eq, beq_iff_eq,
    List.contains_iff_mem]
  constructor
  · rintro ⟨c, ⟨hc, h1, h2⟩, h3⟩
    have : lo + j = c := by omega
    rw [this]; exact ⟨h2, hc⟩
  · rintro ⟨h1, h2⟩
    exact ⟨lo + j, ⟨h2, by omega, h1⟩, by omega⟩

theorem testBit_selFold (l : List (Nat × Bool)) (c : Nat) : ∀ acc : Nat,
    (l.foldl (fun (acc : Nat) (p : Nat × Bool) => if p.2 then acc ^^^ p.1 else acc) acc).testBit c =
      xor (acc.testBit c) (xorAll (l.map (fun p : Nat × Bool => p.2 && p.1.testBit c))) := by
  induction l with
  | nil => intro acc; simp [xorAll]
  | cons p l ih =>
    intro acc
    rw [List.foldl_cons, ih, List.map_cons, e_xorAll_cons]
    cases hp : p.2 <;> simp [Nat.testBit_xor]

/-- bit `c` of the xor of the rows selected by `y` -/
theorem testBit_sel (rows : List Nat) (y : Nat → Bool) (c : Nat) :
    ((rows.zip ((List.range rows.length).map y)).foldl
        (fun (acc : Nat) (p : Nat × Bool) => if p.2 then acc ^^^ p.1 else acc) 0).testBit c =
      e_csum rows.length (fun i => y i && (rows.getD i 0).testBit c) := by
  rw [testBit_selFold, Nat.zero_testBit, Bool.false_xor, e_xorAll_eq_csum]
  simp only [List.length_map, List.length_zip, List.length_range, Nat.min_self]
  apply e_csum_congr
  intro i hi
  simp only [List.getD_eq_getElem?_getD, List.getElem?_map, e_zip_getElem?]
  rw [List.getElem?_eq_getElem hi]
  simp [hi]

/-! ### the bridge -/

theorem tail_nonsingular_of_indepBits' (h : SM) (hn : h.nrows ≤ h.ncols)
    (hi : IndepBits (h.rows.map (fun r => bitsOfRow r (h.ncols - h.nrows) h.ncols))) :
    Nonsingular (tailMat h) := by
  apply square_nonsingular_of_indepF _ h.nrows (e_tailMat_shape h)
  intro y hy i hi'
  cases hyi : y i with
  | false => rfl
  | true =>
    exfalso
    let rows := h.rows.map (fun r => bitsOfRow r (h.ncols - h.nrows) h.ncols)
    have hlen : rows.length = h.nrows := by simp [rows, SM.nrows]
    have hne := hi ((List.range rows.length).map y) (by simp [rows]) (by
      rw [List.contains_iff_mem, List.mem_map]
      exact ⟨i, List.mem_range.mpr (by omega), hyi⟩)
    apply hne
    apply Nat.eq_of_testBit_eq
    intro c
    rw [testBit_sel, Nat.zero_testBit, hlen]
    have hrow : ∀ r, r < h.nrows →
        (rows.getD r 0).testBit c = (decide (c < h.nrows) && h.mem r (h.ncols - h.nrows + c)) := by
      intro r hr
      have hr' : r < h.rows.length := hr
      have : rows.getD r 0 = bitsOfRow (h.row r) (h.ncols - h.nrows) h.ncols := by
        simp [rows, SM.row, List.getD_eq_getElem?_getD, hr']
      rw [this, testBit_bitsOfRow, SM.mem]
      congr 1
      apply decide_eq_decide.mpr
      omega
    by_cases hc : c < h.nrows
    · refine Eq.trans ?_ (hy c hc)
      apply e_csum_congr
      intro r hr
      rw [hrow r hr, e_tailMat_get h r c hr hc]
      simp [hc]
    · apply e_csum_zero
      intro r hr
      rw [hrow r hr]
      simp [hc]

end LdpcV.CcsdsEnc
