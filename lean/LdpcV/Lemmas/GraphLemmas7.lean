/- Helper lemmas for C11, part 7: the girth as the minimum of the local girths of the column nodes. -/
import LdpcV.Lemmas.GraphLemmas6
namespace LdpcV.Graph

/-- the local girth at an in-range column, with the panic layer stripped -/
theorem localGirth_col (h : SM) (hinv : h.Inv) (n : Nat) (hn : n < h.ncols) :
    (∀ g, (localGirth h (.col n) none).getD none = some g ↔ IsLocalGirth h (.col n) g) ∧
    ((localGirth h (.col n) none).getD none = none ↔ OnNoCycle h (.col n)) := by
  obtain ⟨r, h1, h2, h3⟩ := localGirth_exact h hinv (.col n) (by simpa [inRange] using hn)
  rw [h1]; exact ⟨h2, h3⟩

theorem girth_exact' (h : SM) (hinv : h.Inv) :
    (∀ g, girth h none = some g ↔ IsGirth h g) ∧ (girth h none = none ↔ IsForest h) := by
  constructor
  · intro g
    unfold girth
    rw [minOpt_some]
    simp only [List.mem_map, List.mem_range]
    constructor
    · rintro ⟨⟨n, hn, hL⟩, hmin⟩
      obtain ⟨⟨c, hc, _, hl⟩, _⟩ := ((localGirth_col h hinv n hn).1 g).1 hL
      refine ⟨⟨c, hc, hl⟩, ?_⟩
      intro c' hc'
      obtain ⟨m, hm, hmc⟩ := hc'.exists_col hinv
      obtain ⟨e1, e2⟩ := localGirth_col h hinv m hm
      cases hr : (localGirth h (.col m) none).getD none with
      | none => exact ((e2.1 hr) c' hc' hmc).elim
      | some g' =>
        have := ((e1 g').1 hr).2 c' hc' hmc
        have := hmin g' ⟨m, hm, hr⟩
        omega
    · rintro ⟨⟨c, hc, hl⟩, hmin⟩
      obtain ⟨m, hm, hmc⟩ := hc.exists_col hinv
      obtain ⟨e1, e2⟩ := localGirth_col h hinv m hm
      constructor
      · refine ⟨m, hm, ?_⟩
        cases hr : (localGirth h (.col m) none).getD none with
        | none => exact ((e2.1 hr) c hc hmc).elim
        | some g' =>
          obtain ⟨⟨c', hc', _, hl'⟩, hmin'⟩ := (e1 g').1 hr
          have := hmin' c hc hmc
          have := hmin c' hc'
          have : g' = g := by omega
          rw [this]
      · rintro g' ⟨n, hn, hL⟩
        obtain ⟨⟨c', hc', _, hl'⟩, _⟩ := ((localGirth_col h hinv n hn).1 g').1 hL
        have := hmin c' hc'
        omega
  · unfold girth
    rw [minOpt_none]
    simp only [List.mem_map, List.mem_range]
    constructor
    · intro hall c hc
      obtain ⟨m, hm, hmc⟩ := hc.exists_col hinv
      have := hall _ ⟨m, hm, rfl⟩
      exact ((localGirth_col h hinv m hm).2.1 this) c hc hmc
    · rintro hf x ⟨n, hn, rfl⟩
      exact (localGirth_col h hinv n hn).2.2 (fun c hc _ => hf c hc)

theorem girth_bounded' (h : SM) (hinv : h.Inv) (b : Nat) :
    girth h (some b) = cutAt (some b) (girth h none) := by
  unfold girth
  rw [← minOpt_cutAt, List.map_map]
  congr 1
  apply List.map_congr_left
  intro n hn
  have hn' : inRange h (.col n) = true := by simpa [inRange] using hn
  rw [localGirth_bounded h hinv (.col n) hn' b]
  obtain ⟨r, h1, _⟩ := localGirth_exact h hinv (.col n) hn'
  simp [h1]

end LdpcV.Graph
