/- Helper lemmas (AllRefine) for C10All: call and history independence for every arithmetic that meets the weakest
contract, panics included; then for all 36 implementation names.
AllRefine1: the arithmetic models meet `PanicOrBehaved`; AllRefine2: flooding refinement across panics;
AllRefine3: the layered primitives keep shapes. -/
import LdpcV.Lemmas.AllRefine1
import LdpcV.Lemmas.AllRefine2
import LdpcV.Lemmas.AllRefine3
import LdpcV.Lemmas.DecSound
namespace LdpcV
open BPRef

section Generic
variable {A : Arith}

/-- the layered primitive keeps the number of variables and the destinations of the check's messages -/
def LayerKeeps (A : Arith) : Prop :=
  ∀ msgs vars msgs' vars', A.layerRule msgs vars = some (msgs', vars') →
    vars'.length = vars.length ∧ msgs'.map Prod.fst = msgs.map Prod.fst

/-- the schedule of a decoder object -/
def ar_sched : DecSt A → Sched
  | .flood _ => Sched.flooding
  | .hl _ => Sched.layered

theorem ar_fresh_shape (s : Sched) (h : SM) : DecSt.Shape h (DecSt.fresh A s h) := by
  cases s with
  | flooding => exact fr_fresh_shape h
  | layered => exact hr_fresh_shape h

theorem ar_fresh_sched (s : Sched) (h : SM) :
    ar_sched (DecSt.fresh A s h) = s := by
  cases s <;> rfl

/-- one call from any state of the right shape: the textbook result (or panic), and shape and schedule are kept -/
theorem ar_call_ref (h : SM) (hinv : h.Inv) (pb : PanicOrBehaved A h) (hk : LayerKeeps A) (s : Sched)
    (st : DecSt A) (hs : DecSt.Shape h st)
    (hsched : ar_sched st = s)
    (llrs : List UInt64) (hlen : llrs.length = h.ncols) (n : Nat) :
    (st.decode h llrs n).map Prod.fst = decodeRef A s h llrs n ∧
    (∀ v st', st.decode h llrs n = some (v, st') → DecSt.Shape h st' ∧
      ar_sched st' = s) := by
  cases st with
  | flood s0 =>
    simp only [ar_sched] at hsched
    subst hsched
    constructor
    · simp only [DecSt.decode, Option.map_map, Function.comp_def, decodeRef]
      exact ar_flood_refines_any h hinv pb s0 hs llrs hlen n
    · intro v st' hd
      simp only [DecSt.decode, Option.map_eq_some_iff] at hd
      obtain ⟨⟨v0, s1⟩, hd0, he⟩ := hd
      simp only [Prod.mk.injEq] at he
      obtain ⟨rfl, rfl⟩ := he
      exact ⟨Flood.decode_shape h s0 s1 llrs n v0 hs hd0, rfl⟩
  | hl s0 =>
    simp only [ar_sched] at hsched
    subst hsched
    constructor
    · simp only [DecSt.decode, Option.map_map, Function.comp_def, decodeRef]
      exact hr_decode_eq h s0 hs llrs hlen n
    · intro v st' hd
      simp only [DecSt.decode, Option.map_eq_some_iff] at hd
      obtain ⟨⟨v0, s1⟩, hd0, he⟩ := hd
      simp only [Prod.mk.injEq] at he
      obtain ⟨rfl, rfl⟩ := he
      exact ⟨Hl.decode_shape h s0 s1 llrs n v0 hs hk hd0, rfl⟩

/-- a fresh decoder returns the textbook result (or panics with it) -/
theorem ar_fresh_ref (h : SM) (hinv : h.Inv) (pb : PanicOrBehaved A h) (hk : LayerKeeps A) (s : Sched)
    (llrs : List UInt64) (hlen : llrs.length = h.ncols) (n : Nat) :
    ((DecSt.fresh A s h).decode h llrs n).map Prod.fst = decodeRef A s h llrs n :=
  (ar_call_ref h hinv pb hk s _ (ar_fresh_shape s h) (ar_fresh_sched s h) llrs hlen n).1

theorem ar_call_independent (h : SM) (hinv : h.Inv) (pb : PanicOrBehaved A h) (hk : LayerKeeps A) (s : Sched)
    (st : DecSt A) (hs : DecSt.Shape h st)
    (hsched : ar_sched st = s)
    (llrs : List UInt64) (hlen : llrs.length = h.ncols) (n : Nat) :
    (st.decode h llrs n).map Prod.fst = ((DecSt.fresh A s h).decode h llrs n).map Prod.fst ∧
    (∀ v st', st.decode h llrs n = some (v, st') → DecSt.Shape h st') := by
  obtain ⟨h1, h2⟩ := ar_call_ref h hinv pb hk s st hs hsched llrs hlen n
  exact ⟨h1.trans (ar_fresh_ref h hinv pb hk s llrs hlen n).symm, fun v st' hd => (h2 v st' hd).1⟩

/-- whole histories from any state of the right shape and schedule -/
theorem ar_history (h : SM) (hinv : h.Inv) (pb : PanicOrBehaved A h) (hk : LayerKeeps A) (s : Sched)
    (calls : List (List UInt64 × Nat)) (hcalls : ∀ c ∈ calls, c.1.length = h.ncols)
    (st : DecSt A) (hs : DecSt.Shape h st)
    (hsched : ar_sched st = s) :
    DecSt.runHistory h st calls
      = calls.mapM (fun c => ((DecSt.fresh A s h).decode h c.1 c.2).map Prod.fst) := by
  induction calls generalizing st with
  | nil => rfl
  | cons c rest ih =>
    obtain ⟨llrs, n⟩ := c
    have hlen : llrs.length = h.ncols := hcalls (llrs, n) (by simp)
    obtain ⟨h1, h2⟩ := ar_call_ref h hinv pb hk s st hs hsched llrs hlen n
    have hf := ar_fresh_ref h hinv pb hk s llrs hlen n
    rw [List.mapM_cons]
    simp only
    rw [hf, ← h1]
    unfold DecSt.runHistory
    cases hd : st.decode h llrs n with
    | none => rfl
    | some p =>
      obtain ⟨v, st'⟩ := p
      obtain ⟨hs', hsched'⟩ := h2 v st' hd
      simp only [Option.map_some]
      rw [ih (fun c hc => hcalls c (by simp [hc])) st' hs' hsched']
      cases rest.mapM (fun c => ((DecSt.fresh A s h).decode h c.1 c.2).map Prod.fst) with
      | none => rfl
      | some vs => rfl

end Generic

/-! ## all 36 names -/

/-- executable check of the mirror invariant (core-only copy of `TreeBP.invB`) -/
def ar_invB (h : SM) : Bool :=
  (List.range h.nrows).all (fun r => (h.row r).all (fun c => decide (c < h.ncols) && (h.col c).contains r)) &&
  (List.range h.ncols).all (fun c => (h.col c).all (fun r => decide (r < h.nrows) && (h.row r).contains c)) &&
  (List.range h.nrows).all (fun r => decide (h.row r).Nodup) &&
  (List.range h.ncols).all (fun c => decide (h.col c).Nodup)

theorem ar_getD_nil_of_le (l : List (List Nat)) (i : Nat) (hi : l.length ≤ i) : l.getD i [] = [] := by
  rw [List.getD_eq_getElem?_getD, List.getElem?_eq_none hi]
  rfl

theorem ar_inv_of_invB (h : SM) (hb : ar_invB h = true) : h.Inv := by
  simp only [ar_invB, Bool.and_eq_true, List.all_eq_true, List.mem_range, decide_eq_true_eq,
    List.contains_iff_mem] at hb
  obtain ⟨⟨⟨h1, h2⟩, h3⟩, h4⟩ := hb
  refine ⟨?_, ?_, ?_, ?_⟩
  · intro r c hc
    by_cases hr : r < h.nrows
    · exact ⟨hr, h1 r hr c hc⟩
    · rw [SM.row, ar_getD_nil_of_le _ _ (by simpa [SM.nrows] using hr)] at hc
      simp at hc
  · intro r c hc
    by_cases hcl : c < h.ncols
    · obtain ⟨a, b⟩ := h2 c hcl r hc
      exact ⟨a, hcl, b⟩
    · rw [SM.col, ar_getD_nil_of_le _ _ (by simpa [SM.ncols] using hcl)] at hc
      simp at hc
  · intro r
    by_cases hr : r < h.nrows
    · exact h3 r hr
    · rw [SM.row, ar_getD_nil_of_le _ _ (by simpa [SM.nrows] using hr)]
      exact List.nodup_nil
  · intro c
    by_cases hcl : c < h.ncols
    · exact h4 c hcl
    · rw [SM.col, ar_getD_nil_of_le _ _ (by simpa [SM.ncols] using hcl)]
      exact List.nodup_nil

theorem ar_all_layerKeeps (i : Factory.Impl) : LayerKeeps i.model :=
  fun msgs vars msgs' vars' h => ar_all_layer_shape i msgs vars msgs' vars' h

end LdpcV
