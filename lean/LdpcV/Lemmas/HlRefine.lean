/- Helper lemmas (HlRefine) for the decoder properties C01 / C03 / C10. -/
import LdpcV.Spec.DecoderSpec
import LdpcV.Model.ArithI8
import LdpcV.Model.ArithTest
namespace LdpcV
open BPRef

variable {A : Arith}

/-! ### `initialize` resets the check messages to the blank store -/

theorem hr_reset_blank {β : Type} (d : β) (s : Store β) (adj : List (List Nat)) (hs : s.HasShape adj) :
    s.map (fun l => l.map (fun p => (p.1, d))) = Store.blank d adj := by
  unfold Store.HasShape at hs
  subst hs
  simp [Store.blank, List.map_map, Function.comp_def]

theorem hr_blank_shape {β : Type} (d : β) (adj : List (List Nat)) : (Store.blank d adj).HasShape adj := by
  simp [Store.HasShape, Store.blank, List.map_map, Function.comp_def]

theorem hr_fresh_shape (h : SM) : Hl.Shape h (Hl.fresh A h) :=
  ⟨by simp [Hl.fresh, SM.ncols], hr_blank_shape _ _⟩

/-! ### one iteration: the model's `go` is the reference's `layerIter` without trace and counter -/

theorem hr_go_eq (rcv : List (List (Nat × A.CheckMsg))) (c : Nat) (vars : List A.VarLlr) :
    (layerIter c rcv vars).map (fun x => (x.1, x.2.1)) = Hl.checkPass.go rcv vars := by
  induction rcv generalizing c vars with
  | nil => simp [layerIter, Hl.checkPass.go]
  | cons msgs rest ih =>
    unfold layerIter Hl.checkPass.go
    cases hr : A.layerRule msgs vars with
    | none => simp
    | some p =>
      obtain ⟨msgs', vars'⟩ := p
      simp only
      rw [← ih (c+1) vars']
      cases layerIter (c+1) rest vars' with
      | none => simp
      | some q => simp

theorem hr_checkPass_eq (st : HlSt A) :
    Hl.checkPass st = (layerIter 0 st.checkMsgs st.llrs).map (fun x => { llrs := x.2.1, checkMsgs := x.1 }) := by
  unfold Hl.checkPass
  rw [← hr_go_eq st.checkMsgs 0 st.llrs]
  cases layerIter 0 st.checkMsgs st.llrs with
  | none => simp
  | some q => simp

/-! ### the loop -/

theorem hr_loop_eq (h : SM) (n rem : Nat) (st : HlSt A) (tr : List (Call A)) :
    (Hl.loop h n rem st).map Prod.fst = (layerLoop h n rem st.checkMsgs st.llrs tr).map Prod.fst := by
  induction rem generalizing st tr with
  | zero => simp [Hl.loop, layerLoop, Hl.hardAll]
  | succ rem ih =>
    unfold Hl.loop layerLoop
    rw [hr_checkPass_eq]
    cases layerIter 0 st.checkMsgs st.llrs with
    | none => simp
    | some q =>
      obtain ⟨rcv', vars', t⟩ := q
      simp only [Option.map_some, Hl.hardAll]
      by_cases hsyn : syndromeOK h (List.map (fun x => A.hard (A.ofVarLlr x)) vars') = true
      · simp [hsyn]
      · simp only [hsyn]
        exact ih _ _

theorem hr_decode_eq (h : SM) (st : HlSt A) (hs : Hl.Shape h st) (llrs : List UInt64)
    (hlen : llrs.length = h.ncols) (n : Nat) :
    (Hl.decode h st llrs n).map Prod.fst = layerRef A h llrs n := by
  unfold Hl.decode layerRef layerRefTraced
  have h1 : ¬ llrs.length ≠ st.llrs.length := by rw [hs.llrs, hlen]; simp
  have h2 : ¬ llrs.length ≠ h.ncols := by simp [hlen]
  rw [if_neg h1, if_neg h2]
  split
  · simp
  · rw [hr_loop_eq h n n _ []]
    simp only [Hl.initSt]
    rw [hr_reset_blank _ _ _ hs.checkMsgs]

/-! ### totality and shape preservation under `WellBehavedLayer` -/

theorem hr_set_shape {β : Type} (s : Store β) (adj : List (List Nat)) (hs : s.HasShape adj) (c : Nat)
    (msgs : List (Nat × β)) (hm : msgs.map Prod.fst = adj.getD c []) : Store.HasShape (s.set c msgs) adj := by
  unfold Store.HasShape at *
  rw [List.map_set, hm, ← hs]
  apply List.ext_getElem?
  intro i
  rw [List.getElem?_set]
  split
  · next hci =>
    subst hci
    split
    · next hlt =>
      simp only [List.length_map] at hlt
      simp [List.getD_eq_getElem?_getD, hlt]
    · next hlt => simp only [List.length_map] at hlt; rw [List.getElem?_eq_none (by simpa using hlt)]
  · rfl

/-- the rows from `c` on, with the rows before `c` already updated -/
theorem hr_go_total (h : SM) (wb : WellBehavedLayer A h) (k : Nat) :
    ∀ (c : Nat) (rcv : List (List (Nat × A.CheckMsg))) (vars : List A.VarLlr), c + k = h.nrows →
      wb.okState rcv vars → Store.HasShape rcv h.rows → vars.length = h.ncols →
      ∃ rest' vars', Hl.checkPass.go (rcv.drop c) vars = some (rest', vars') ∧
        Store.HasShape (rcv.take c ++ rest') h.rows ∧ vars'.length = h.ncols ∧
        wb.okState (rcv.take c ++ rest') vars' := by
  induction k with
  | zero =>
    intro c rcv vars hc hok hsh hlen
    have hl : rcv.length = h.nrows := by
      have := congrArg List.length hsh
      simpa [SM.nrows] using this
    have hd : rcv.drop c = [] := by apply List.drop_eq_nil_of_le; omega
    have ht : rcv.take c = rcv := by apply List.take_of_length_le; omega
    refine ⟨[], vars, ?_, ?_, hlen, ?_⟩
    · rw [hd]; rfl
    · simpa [ht] using hsh
    · simpa [ht] using hok
  | succ k ih =>
    intro c rcv vars hc hok hsh hlen
    have hl : rcv.length = h.nrows := by
      have := congrArg List.length hsh
      simpa [SM.nrows] using this
    have hclt : c < h.nrows := by omega
    have hcl : c < rcv.length := by omega
    obtain ⟨msgs', vars', hrule, hfst, hlen', hok'⟩ := wb.layer_ok rcv vars c hok hsh hlen hclt
    have hsh' : Store.HasShape (rcv.set c msgs') h.rows := hr_set_shape rcv h.rows hsh c msgs' hfst
    obtain ⟨rest', vars'', hgo, hsh'', hlen'', hok''⟩ :=
      ih (c+1) (rcv.set c msgs') vars' (by omega) hok' hsh' (by omega)
    have hdrop : rcv.drop c = rcv.getD c [] :: rcv.drop (c+1) := by
      rw [List.drop_eq_getElem_cons hcl]
      simp [List.getD_eq_getElem?_getD, hcl]
    have hdrop' : (rcv.set c msgs').drop (c+1) = rcv.drop (c+1) := by
      rw [List.drop_set_of_lt (by omega)]
    have htake' : (rcv.set c msgs').take (c+1) = rcv.take c ++ [msgs'] := by
      rw [List.take_set, List.take_succ_eq_append_getElem hcl, List.set_append_right _ _ (by simp; omega)]
      simp [Nat.min_eq_left (Nat.le_of_lt hcl)]
    rw [hdrop'] at hgo
    rw [htake', List.append_assoc] at hsh'' hok''
    refine ⟨msgs' :: rest', vars'', ?_, by simpa using hsh'', hlen'', by simpa using hok''⟩
    rw [hdrop]
    unfold Hl.checkPass.go
    rw [hrule]
    simp only
    rw [hgo]

theorem hr_checkPass_total (h : SM) (wb : WellBehavedLayer A h) (st : HlSt A) (hs : Hl.Shape h st)
    (hok : wb.okState st.checkMsgs st.llrs) :
    ∃ st', Hl.checkPass st = some st' ∧ Hl.Shape h st' ∧ wb.okState st'.checkMsgs st'.llrs := by
  obtain ⟨rest', vars', hgo, hsh, hlen, hok'⟩ :=
    hr_go_total h wb h.nrows 0 st.checkMsgs st.llrs (by omega) hok hs.checkMsgs hs.llrs
  simp only [List.drop_zero, List.take_zero, List.nil_append] at hgo hsh hok'
  refine ⟨{ llrs := vars', checkMsgs := rest' }, ?_, ⟨hlen, hsh⟩, hok'⟩
  unfold Hl.checkPass
  rw [hgo]

theorem hr_loop_total (h : SM) (wb : WellBehavedLayer A h) (n rem : Nat) (st : HlSt A) (hs : Hl.Shape h st)
    (hok : wb.okState st.checkMsgs st.llrs) :
    ∃ v st', Hl.loop h n rem st = some (v, st') ∧ Hl.Shape h st' := by
  induction rem generalizing st with
  | zero => exact ⟨_, _, rfl, hs⟩
  | succ rem ih =>
    obtain ⟨st1, h1, hs1, hok1⟩ := hr_checkPass_total h wb st hs hok
    unfold Hl.loop
    rw [h1]
    simp only
    split
    · exact ⟨_, _, rfl, hs1⟩
    · exact ih st1 hs1 hok1

theorem hr_decode_total (h : SM) (wb : WellBehavedLayer A h) (st : HlSt A) (hs : Hl.Shape h st)
    (llrs : List UInt64) (hlen : llrs.length = h.ncols) (n : Nat) :
    ∃ v st', Hl.decode h st llrs n = some (v, st') ∧ Hl.Shape h st' := by
  unfold Hl.decode
  have h1 : ¬ llrs.length ≠ st.llrs.length := by rw [hs.llrs, hlen]; simp
  rw [if_neg h1]
  split
  · exact ⟨_, _, rfl, hs⟩
  · apply hr_loop_total h wb
    · refine ⟨by simp [Hl.initSt, hlen], ?_⟩
      simp only [Hl.initSt]
      rw [hr_reset_blank _ _ _ hs.checkMsgs]
      exact hr_blank_shape _ _
    · simp only [Hl.initSt]
      rw [hr_reset_blank _ _ _ hs.checkMsgs]
      exact wb.init_ok llrs hlen

/-- refinement with totality and shape preservation, the form used by C03 and C10 -/
theorem hr_refines (h : SM) (wb : WellBehavedLayer A h) (st : HlSt A) (hs : Hl.Shape h st)
    (llrs : List UInt64) (hlen : llrs.length = h.ncols) (n : Nat) :
    ∃ v st', Hl.decode h st llrs n = some (v, st') ∧ layerRef A h llrs n = some v ∧ Hl.Shape h st' := by
  obtain ⟨v, st', hd, hs'⟩ := hr_decode_total h wb st hs llrs hlen n
  refine ⟨v, st', hd, ?_, hs'⟩
  rw [← hr_decode_eq h st hs llrs hlen n, hd]
  rfl

/-! ### histories of calls on one decoder object (both schedules) -/

/-- if every call from a state satisfying `P` succeeds, re-establishes `P` and returns what the
fresh object returns, then a whole history returns what fresh objects return, call by call -/
theorem hr_history (h : SM) (fresh : DecSt A) (P : DecSt A → Prop)
    (hstep : ∀ st, P st → ∀ (llrs : List UInt64) (n : Nat), llrs.length = h.ncols →
      ∃ v st', st.decode h llrs n = some (v, st') ∧ P st' ∧ (fresh.decode h llrs n).map Prod.fst = some v)
    (calls : List (List UInt64 × Nat)) (hcalls : ∀ c ∈ calls, c.1.length = h.ncols)
    (st : DecSt A) (hst : P st) :
    DecSt.runHistory h st calls
      = some (calls.filterMap (fun c => (fresh.decode h c.1 c.2).map Prod.fst)) ∧
    (calls.filterMap (fun c => (fresh.decode h c.1 c.2).map Prod.fst)).length = calls.length := by
  induction calls generalizing st with
  | nil => exact ⟨rfl, rfl⟩
  | cons c rest ih =>
    obtain ⟨llrs, n⟩ := c
    obtain ⟨v, st', hd, hP, hf⟩ := hstep st hst llrs n (hcalls (llrs, n) (by simp))
    obtain ⟨ih1, ih2⟩ := ih (fun c hc => hcalls c (by simp [hc])) st' hP
    constructor
    · unfold DecSt.runHistory
      rw [hd]
      simp only
      rw [ih1, List.filterMap_cons, hf]
    · rw [List.filterMap_cons, hf]
      simp [ih2]

theorem hr_hl_history (h : SM) (wb : WellBehavedLayer A h)
    (calls : List (List UInt64 × Nat)) (hcalls : ∀ c ∈ calls, c.1.length = h.ncols) :
    DecSt.runHistory h (DecSt.fresh A .layered h) calls
      = some (calls.filterMap (fun c => ((DecSt.fresh A .layered h).decode h c.1 c.2).map Prod.fst)) ∧
    (calls.filterMap (fun c => ((DecSt.fresh A .layered h).decode h c.1 c.2).map Prod.fst)).length = calls.length := by
  apply hr_history h _ (fun st => ∃ s, st = .hl s ∧ Hl.Shape h s) _ calls hcalls _ ⟨_, rfl, hr_fresh_shape h⟩
  rintro st ⟨s, rfl, hs⟩ llrs n hlen
  obtain ⟨v, s', hd, hr, hs'⟩ := hr_refines h wb s hs llrs hlen n
  obtain ⟨v0, s0, hd0, hr0, _⟩ := hr_refines h wb (Hl.fresh A h) (hr_fresh_shape h) llrs hlen n
  have hv : v0 = v := by rw [hr] at hr0; exact (Option.some.inj hr0).symm
  refine ⟨v, .hl s', ?_, ⟨s', rfl, hs'⟩, ?_⟩
  · simp [DecSt.decode, hd]
  · simp [DecSt.fresh, DecSt.decode, hd0, hv]

end LdpcV
