/- Helper lemmas for C16, part 3: PEG — the selection rule in graph terms and the run invariant. -/
import LdpcV.Lemmas.ConstrLemmas2
namespace LdpcV.Constr
open LdpcV LdpcV.SM LdpcV.Graph

/-! ### the selection keys -/

def pegKey (h : SM) (d : Labels Nat) (r : Nat) : Option Nat × Nat := (d.rows.getD r none, (h.row r).length)

theorem mem_pegAdmissible {h : SM} {col : Nat} {d : Labels Nat} (hb : bfs h (.col col) = some d) (r : Nat) :
    r ∈ pegAdmissible h col ↔
      r < h.nrows ∧ ∀ r', r' < h.nrows → pegBetter (pegKey h d r') (pegKey h d r) = false := by
  simp only [pegAdmissible, hb, pegKey]
  simp only [List.getD_eq_getElem?_getD, List.any_map, List.mem_map, List.mem_filter, List.mem_range,
    Bool.not_eq_eq_eq_not, Bool.not_true, List.any_eq_false, Function.comp_apply, Bool.not_eq_true, Prod.exists,
    Prod.mk.injEq, exists_and_right, exists_eq_right]
  constructor
  · rintro ⟨a, b, ⟨r0, h1, rfl, rfl, rfl⟩, h2⟩
    exact ⟨h1, h2⟩
  · rintro ⟨h1, h2⟩
    exact ⟨_, _, ⟨r, h1, rfl, rfl, rfl⟩, h2⟩

/-- the BFS labels of the row nodes, from a column root, are the true distances -/
theorem bfs_col (h : SM) (hinv : h.Inv) (col : Nat) (hc : col < h.ncols) :
    ∃ d, bfs h (.col col) = some d ∧ ∀ r, r < h.nrows →
      (∀ k, d.rows.getD r none = some k ↔ IsDist h (.col col) (.row r) k) ∧
      (d.rows.getD r none = none ↔ ¬ Reachable h (.col col) (.row r)) := by
  obtain ⟨d, h1, h2, _, h4⟩ := C11.bfs_exact h hinv (.col col) (by simpa [Graph.inRange] using hc)
  refine ⟨d, h1, fun r hr => ?_⟩
  obtain ⟨a, b⟩ := h4 (.row r) (by simpa [Graph.inRange] using hr)
  have e : d.get (.row r) = some (d.rows.getD r none) := by
    simp only [Labels.get, List.getD_eq_getElem?_getD]
    rw [List.getElem?_eq_getElem (by omega)]
    rfl
  rw [e] at a b
  simp only [Option.some.injEq] at a b
  exact ⟨a, b⟩

theorem isDist_unique {h : SM} {a b : Node} {d d' : Nat} (h1 : IsDist h a b d) (h2 : IsDist h a b d') : d = d' :=
  Nat.le_antisymm (h1.2 d' h2.1) (h2.2 d h1.1)

theorem isDist_reachable {h : SM} {a b : Node} {d : Nat} (h1 : IsDist h a b d) : Reachable h a b := ⟨d, h1.1⟩

theorem pegBetter_nn (a b : Nat) : pegBetter (none, a) (none, b) = decide (a < b) := rfl
theorem pegBetter_ns (y a b : Nat) : pegBetter (none, a) (some y, b) = true := rfl
theorem pegBetter_sn (x a b : Nat) : pegBetter (some x, a) (none, b) = false := rfl
theorem pegBetter_ss (x y a b : Nat) :
    pegBetter (some x, a) (some y, b) = if x = y then decide (a < b) else decide (x > y) := rfl

/-- the four ways a key can be strictly better, in graph terms -/
theorem peg_rule_aux (h : SM) (hinv : h.Inv) (col r : Nat) (hc : col < h.ncols) :
    r ∈ pegAdmissible h col ↔
      r < h.nrows ∧ ∀ r', r' < h.nrows →
        ¬ ((¬ Reachable h (.col col) (.row r') ∧ Reachable h (.col col) (.row r')) ∨
           ((¬ Reachable h (.col col) (.row r')) ∧ Reachable h (.col col) (.row r)) ∨
           (∃ d d', IsDist h (.col col) (.row r) d ∧ IsDist h (.col col) (.row r') d' ∧ d < d') ∨
           (((¬ Reachable h (.col col) (.row r) ∧ ¬ Reachable h (.col col) (.row r')) ∨
             (∃ d, IsDist h (.col col) (.row r) d ∧ IsDist h (.col col) (.row r') d)) ∧
               (h.row r').length < (h.row r).length)) := by
  obtain ⟨d, hb, hd⟩ := bfs_col h hinv col hc
  rw [mem_pegAdmissible hb]
  apply and_congr_right
  intro hr
  apply forall_congr'
  intro r'
  apply imp_congr_right
  intro hr'
  obtain ⟨a1, a2⟩ := hd r hr
  obtain ⟨b1, b2⟩ := hd r' hr'
  unfold pegKey
  cases hx : d.rows.getD r' none with
  | none =>
    have ur' := b2.1 hx
    cases hy : d.rows.getD r none with
    | none =>
      have ur := a2.1 hy
      rw [pegBetter_nn]
      simp only [decide_eq_false_iff_not]
      constructor
      · rintro hn (⟨_, h2⟩ | ⟨_, h2⟩ | ⟨_, _, h2, _⟩ | ⟨_, h2⟩)
        · exact ur' h2
        · exact ur h2
        · exact ur (isDist_reachable h2)
        · exact hn h2
      · intro hn hlt
        exact hn (Or.inr (Or.inr (Or.inr ⟨Or.inl ⟨ur, ur'⟩, hlt⟩)))
    | some y =>
      have dr := (a1 y).1 hy
      rw [pegBetter_ns]
      constructor
      · intro hf; cases hf
      · intro hn
        exact (hn (Or.inr (Or.inl ⟨ur', isDist_reachable dr⟩))).elim
  | some x =>
    have dr' := (b1 x).1 hx
    cases hy : d.rows.getD r none with
    | none =>
      have ur := a2.1 hy
      rw [pegBetter_sn]
      simp only [true_iff]
      rintro (⟨h1, _⟩ | ⟨h1, _⟩ | ⟨_, _, h2, _⟩ | ⟨⟨_, h1⟩ | ⟨_, h2, _⟩, _⟩)
      · exact h1 (isDist_reachable dr')
      · exact h1 (isDist_reachable dr')
      · exact ur (isDist_reachable h2)
      · exact h1 (isDist_reachable dr')
      · exact ur (isDist_reachable h2)
    | some y =>
      have dr := (a1 y).1 hy
      rw [pegBetter_ss]
      split
      · next hxy =>
        subst hxy
        simp only [decide_eq_false_iff_not]
        constructor
        · rintro hn (⟨h1, _⟩ | ⟨h1, _⟩ | ⟨e, e', h2, h3, h4⟩ | ⟨_, h2⟩)
          · exact h1 (isDist_reachable dr')
          · exact h1 (isDist_reachable dr')
          · have := isDist_unique h2 dr
            have := isDist_unique h3 dr'
            omega
          · exact hn h2
        · intro hn hlt
          exact hn (Or.inr (Or.inr (Or.inr ⟨Or.inr ⟨x, dr, dr'⟩, hlt⟩)))
      · next hxy =>
        simp only [gt_iff_lt, decide_eq_false_iff_not]
        constructor
        · rintro hn (⟨h1, _⟩ | ⟨h1, _⟩ | ⟨e, e', h2, h3, h4⟩ | ⟨⟨_, h1⟩ | ⟨e, h2, h3⟩, _⟩)
          · exact h1 (isDist_reachable dr')
          · exact h1 (isDist_reachable dr')
          · have := isDist_unique h2 dr
            have := isDist_unique h3 dr'
            omega
          · exact h1 (isDist_reachable dr')
          · have := isDist_unique h2 dr
            have := isDist_unique h3 dr'
            omega
        · intro hn hlt
          exact hn (Or.inr (Or.inr (Or.inl ⟨y, x, dr, dr', hlt⟩)))

/-! ### an adjacent row is admissible only when every row is adjacent -/

theorem walk_zero {h : SM} {a b : Node} (w : Walk h a b 0) : a = b := by
  cases w; rfl

theorem walk_one {h : SM} {a b : Node} (w : Walk h a b 1) : Adj h a b := by
  cases w with
  | cons hab w' => cases w'; exact hab

theorem isDist_one_of_mem {h : SM} (hinv : h.Inv) {col r : Nat} (hm : r ∈ h.col col) :
    IsDist h (.col col) (.row r) 1 := by
  obtain ⟨hr, _, hm'⟩ := hinv.2.1 r col hm
  constructor
  · exact Walk.cons (b := .row r) (by simpa [Adj, mem_iff] using hm') (Walk.nil _ (by simpa [Graph.inRange] using hr))
  · intro d' w
    cases d' with
    | zero => cases walk_zero w
    | succ n => omega

theorem adm_adjacent_all {h : SM} (hinv : h.Inv) {col r : Nat} (hc : col < h.ncols)
    (hadm : r ∈ pegAdmissible h col) (hm : r ∈ h.col col) : ∀ r', r' < h.nrows → r' ∈ h.col col := by
  obtain ⟨d, hb, hd⟩ := bfs_col h hinv col hc
  rw [mem_pegAdmissible hb] at hadm
  obtain ⟨hr, hbest⟩ := hadm
  have e1 : d.rows.getD r none = some 1 := ((hd r hr).1 1).2 (isDist_one_of_mem hinv hm)
  intro r' hr'
  have hb' := hbest r' hr'
  unfold pegKey at hb'
  rw [e1] at hb'
  cases hx : d.rows.getD r' none with
  | none => rw [hx, pegBetter_ns] at hb'; cases hb'
  | some k =>
    have dk := ((hd r' hr').1 k).1 hx
    rw [hx, pegBetter_ss] at hb'
    match k, dk with
    | 0, dk => cases walk_zero dk.1
    | 1, dk =>
      have := walk_one dk.1
      simp only [Adj, mem_iff] at this
      exact (hinv.1 r' col this).2.2
    | k + 2, _ => simp at hb'

/-! ### the run invariant -/

structure PegInv (nrows ncols wc : Nat) (h : SM) (col left : Nat) : Prop where
  inv : h.Inv
  nr : h.nrows = nrows
  nc : h.ncols = ncols
  left_le : left ≤ wc
  full : ∀ c, c < col → (h.col c).length = min wc nrows
  cur : (h.col col).length = min (wc - left) nrows
  empty : ∀ c, col < c → h.col c = []

theorem length_ge_of_all_mem (l : List Nat) (n : Nat) (hl : l.Nodup) (hb : ∀ x ∈ l, x < n)
    (hall : ∀ x, x < n → x ∈ l) : l.length = n := by
  rw [length_eq_filter_range l n hl hb, List.filter_eq_self.2]
  · simp
  · intro x hx
    simpa using hall x (by simpa using hx)

theorem pegRun_inv (nrows ncols wc : Nat) (hwc : 0 < wc) (picks : List Nat) (h : SM) (col left : Nat) (H : SM)
    (hI : PegInv nrows ncols wc h col left) (hr : pegRun wc ncols h col left picks = some H) :
    H.Inv ∧ H.nrows = nrows ∧ H.ncols = ncols ∧ ∀ c, c < ncols → (H.col c).length = min wc nrows := by
  induction picks generalizing h col left with
  | nil =>
    simp only [pegRun] at hr
    split at hr
    · next hcond =>
      cases hr
      refine ⟨hI.inv, hI.nr, hI.nc, fun c hc => ?_⟩
      simp only [ge_iff_le, Bool.or_eq_true, decide_eq_true_eq, Bool.and_eq_true, beq_iff_eq] at hcond
      rcases hcond with hcond | ⟨hl, hcond⟩
      · exact hI.full c (by omega)
      · by_cases hcc : c < col
        · exact hI.full c hcc
        · have : c = col := by omega
          subst this
          have := hI.cur
          rw [hl] at this
          simpa using this
    · cases hr
  | cons r rest ih =>
    simp only [pegRun] at hr
    -- the state after moving on to the next column
    generalize hcol' : (if left = 0 then col + 1 else col) = col' at hr
    generalize hleft' : (if left = 0 then wc else left) = left' at hr
    have hI' : PegInv nrows ncols wc h col' left' := by
      by_cases hl : left = 0
      · simp only [hl, if_true] at hcol' hleft'
        subst hcol' hleft'
        refine ⟨hI.inv, hI.nr, hI.nc, Nat.le_refl _, ?_, ?_, ?_⟩
        · intro c hc
          by_cases hcc : c < col
          · exact hI.full c hcc
          · have : c = col := by omega
            subst this
            have := hI.cur
            rw [hl] at this
            simpa using this
        · rw [hI.empty (col + 1) (by omega)]; simp
        · intro c hc; exact hI.empty c (by omega)
      · simp only [hl, if_false] at hcol' hleft'
        subst hcol' hleft'
        exact hI
    have hlpos : 0 < left' := by
      by_cases hl : left = 0
      · simp only [hl, if_true] at hleft'; omega
      · simp only [hl, if_false] at hleft'; omega
    split at hr
    · cases hr
    · next hcond =>
      simp only [ge_iff_le, Bool.or_eq_true, decide_eq_true_eq, beq_iff_eq, not_or] at hcond
      split at hr
      · next hadm =>
        simp only [List.contains_iff_mem] at hadm
        split at hr
        · next h' hins =>
          obtain ⟨hrr, hcc, rfl⟩ := insert_eq hins
          have hinv' := insertRaw_inv h r col' hI'.inv hrr hcc
          have hle := hI'.left_le
          refine ih (h.insertRaw r col') col' (left' - 1) ?_ hr
          cases hn : h.has r col' with
          | true =>
            have hm : r ∈ h.col col' := (has_iff h r col').1 hn
            have hall := adm_adjacent_all hI'.inv hcc hadm hm
            have hlen := length_ge_of_all_mem (h.col col') h.nrows (hI'.inv.2.2.2 col')
              (fun x hx => (hI'.inv.2.1 x col' hx).1) hall
            have e : h.insertRaw r col' = h := by simp [insertRaw, hn]
            rw [e]
            refine ⟨hI'.inv, hI'.nr, hI'.nc, by omega, hI'.full, ?_, hI'.empty⟩
            have := hI'.cur
            have := hI'.nr
            omega
          | false =>
            have hcol := fun j => col_insertRaw h r col' j hn hcc
            refine ⟨hinv', by simpa using hI'.nr, by simpa using hI'.nc, by omega, ?_, ?_, ?_⟩
            · intro c hc
              rw [hcol c, if_neg (by omega)]
              exact hI'.full c hc
            · have hnd := hinv'.2.2.2 col'
              have hbd : ∀ x ∈ (h.insertRaw r col').col col', x < h.nrows := by
                intro x hx
                simpa using (hinv'.2.1 x col' hx).1
              have hlen := nodup_length_le _ _ hnd hbd
              rw [hcol col', if_pos rfl] at hlen ⊢
              simp only [List.length_append, List.length_singleton] at hlen ⊢
              have := hI'.cur
              have := hI'.nr
              omega
            · intro c hc
              rw [hcol c, if_neg (by omega)]
              exact hI'.empty c hc
        · cases hr
      · cases hr

theorem peg_inv (nrows ncols wc : Nat) (picks : List Nat) (H : SM) (hr : peg nrows ncols wc picks = some H) :
    H.Inv ∧ H.nrows = nrows ∧ H.ncols = ncols ∧ ∀ c, c < ncols → (H.col c).length = min wc nrows := by
  unfold peg at hr
  split at hr
  · next hwc =>
    split at hr
    · cases hr
      refine ⟨new_inv _ _, by simp, by simp, fun c _ => ?_⟩
      rw [new_col, hwc]; simp
    · cases hr
  · next hwc =>
    refine pegRun_inv nrows ncols wc (by omega) picks _ 0 wc H ?_ hr
    refine ⟨new_inv _ _, by simp, by simp, Nat.le_refl _, by simp, ?_, fun c _ => new_col _ _ _⟩
    rw [new_col]; simp

end LdpcV.Constr
