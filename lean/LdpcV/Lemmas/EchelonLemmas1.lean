/-
EchelonLemmas1 — function-level GF(2) linear algebra used by C09.
Matrices are viewed as functions `Nat → Nat → Bool`; sums over GF(2) are `e_csum`.
Row operations: `e_addF f k e` adds `e r • row k` to every row `r` (with `e k = false`);
a row swap is three such additions.  `e_RowEq` is the generated (head-recursive) relation.
-/
import LdpcV.Spec.GF2Spec
namespace LdpcV.Lin

/-- `f 0 + f 1 + … + f (n-1)` over GF(2) -/
def e_csum : Nat → (Nat → Bool) → Bool
  | 0, _ => false
  | n + 1, f => xor (e_csum n f) (f n)

theorem e_csum_congr {n : Nat} {f g : Nat → Bool} (h : ∀ i, i < n → f i = g i) :
    e_csum n f = e_csum n g := by
  induction n with
  | zero => rfl
  | succ n ih =>
    simp only [e_csum]
    rw [ih (fun i hi => h i (by omega)), h n (by omega)]

theorem e_csum_zero {n : Nat} {f : Nat → Bool} (h : ∀ i, i < n → f i = false) :
    e_csum n f = false := by
  induction n with
  | zero => rfl
  | succ n ih =>
    simp only [e_csum]
    rw [ih (fun i hi => h i (by omega)), h n (by omega)]; rfl

theorem e_csum_xor (n : Nat) (f g : Nat → Bool) :
    e_csum n (fun i => xor (f i) (g i)) = xor (e_csum n f) (e_csum n g) := by
  induction n with
  | zero => rfl
  | succ n ih =>
    simp only [e_csum, ih]
    cases e_csum n f <;> cases e_csum n g <;> cases f n <;> cases g n <;> rfl

theorem e_csum_and_right (n : Nat) (f : Nat → Bool) (b : Bool) :
    e_csum n (fun i => f i && b) = (e_csum n f && b) := by
  induction n with
  | zero => simp [e_csum]
  | succ n ih =>
    simp only [e_csum, ih]
    cases e_csum n f <;> cases b <;> cases f n <;> rfl

/-- a sum with at most one non-zero term -/
theorem e_csum_single {n : Nat} {f : Nat → Bool} (k : Nat) (hk : k < n)
    (h : ∀ i, i < n → i ≠ k → f i = false) : e_csum n f = f k := by
  induction n with
  | zero => omega
  | succ n ih =>
    simp only [e_csum]
    by_cases hkn : k = n
    · subst hkn
      rw [e_csum_zero (fun i hi => h i (by omega) (by omega))]; simp
    · rw [ih (by omega) (fun i hi hne => h i (by omega) hne), h n (by omega) (fun e => hkn e.symm)]
      simp

/-! ### row operations on function matrices -/

abbrev e_F := Nat → Nat → Bool

def e_addF (f : e_F) (k : Nat) (e : Nat → Bool) : e_F := fun r c => xor (f r c) (e r && f k c)

def e_swapF (f : e_F) (s k : Nat) : e_F :=
  fun r c => if r = k then f s c else if r = s then f k c else f r c

theorem e_addF_addF (f : e_F) (k : Nat) (e : Nat → Bool) (he : e k = false) :
    e_addF (e_addF f k e) k e = f := by
  funext r c
  simp only [e_addF, he, Bool.false_and, Bool.xor_false]
  cases f r c <;> cases e r <;> cases f k c <;> rfl

theorem e_swapF_eq (f : e_F) (s k : Nat) (hsk : s ≠ k) :
    e_swapF f s k =
      e_addF (e_addF (e_addF f k (fun t => t == s)) s (fun t => t == k)) k (fun t => t == s) := by
  funext r c
  simp only [e_swapF, e_addF]
  have hks : (k == s) = false := by simp; exact fun e => hsk e.symm
  have hsk' : (s == k) = false := by simp [hsk]
  by_cases h1 : r = k
  · subst h1
    simp only [if_true, hks, beq_self_eq_true, Bool.true_and, Bool.false_and, Bool.xor_false]
    cases f s c <;> cases f r c <;> rfl
  · by_cases h2 : r = s
    · subst h2
      simp only [if_true, h1, if_false, hks, hsk', beq_self_eq_true, Bool.true_and, Bool.false_and,
        Bool.xor_false]
      cases f r c <;> cases f k c <;> rfl
    · have e1 : (r == k) = false := by simp [h1]
      have e2 : (r == s) = false := by simp [h2]
      simp only [h1, h2, if_false, e1, e2, Bool.false_and, Bool.xor_false]

/-- `g` is obtained from `f` by a sequence of elementary row additions (on rows `< n`) -/
inductive e_RowEq (n : Nat) : e_F → e_F → Prop
  | refl (f : e_F) : e_RowEq n f f
  | add (f g : e_F) (k : Nat) (e : Nat → Bool) (hk : k < n) (he : e k = false) :
      e_RowEq n (e_addF f k e) g → e_RowEq n f g

theorem e_RowEq.swap {n : Nat} {f g : e_F} (s k : Nat) (hs : s < n) (hk : k < n) (hsk : s ≠ k)
    (h : e_RowEq n (e_swapF f s k) g) : e_RowEq n f g := by
  rw [e_swapF_eq f s k hsk] at h
  have hks : ((fun t => t == s) k) = false := by simp; exact fun e => hsk e.symm
  have hsk' : ((fun t => t == k) s) = false := by simp [hsk]
  exact e_RowEq.add _ _ k _ hk hks (e_RowEq.add _ _ s _ hs hsk' (e_RowEq.add _ _ k _ hk hks h))

/-- the kernel only grows along row operations, for any selection `q` of `w` columns -/
theorem e_RowEq.ker {n : Nat} {f g : e_F} (h : e_RowEq n f g) (q : Nat → Nat) (w : Nat)
    (x : Nat → Bool) (hx : ∀ i, i < n → e_csum w (fun c => f i (q c) && x c) = false) :
    ∀ i, i < n → e_csum w (fun c => g i (q c) && x c) = false := by
  induction h with
  | refl f => exact hx
  | add f g k e hk he _ ih =>
    apply ih
    intro i hi
    have : (fun c => e_addF f k e i (q c) && x c) =
        (fun c => xor (f i (q c) && x c) ((f k (q c) && x c) && e i)) := by
      funext c
      simp only [e_addF]
      cases f i (q c) <;> cases e i <;> cases f k (q c) <;> cases x c <;> rfl
    rw [this, e_csum_xor, e_csum_and_right, hx i hi, hx k hk]; rfl

/-- rows `0..n` restricted to columns `0..m` are linearly independent -/
def e_IndepF (n m : Nat) (f : e_F) : Prop :=
  ∀ y : Nat → Bool, (∀ c, c < m → e_csum n (fun i => y i && f i c) = false) → ∀ i, i < n → y i = false

theorem e_IndepF_addF {n m : Nat} {f : e_F} (k : Nat) (e : Nat → Bool) (hk : k < n)
    (he : e k = false) (hf : e_IndepF n m f) : e_IndepF n m (e_addF f k e) := by
  intro y' hy'
  let E := e_csum n (fun i => y' i && e i)
  let y : Nat → Bool := fun i => xor (y' i) (if i = k then E else false)
  have hy : ∀ c, c < m → e_csum n (fun i => y i && f i c) = false := by
    intro c hc
    have h1 := hy' c hc
    have e1 : (fun i => y' i && e_addF f k e i c) =
        (fun i => xor (y' i && f i c) ((y' i && e i) && f k c)) := by
      funext i
      simp only [e_addF]
      cases y' i <;> cases f i c <;> cases e i <;> cases f k c <;> rfl
    rw [e1, e_csum_xor, e_csum_and_right] at h1
    have e2 : (fun i => y i && f i c) =
        (fun i => xor (y' i && f i c) ((if i = k then E else false) && f i c)) := by
      funext i
      simp only [y]
      cases y' i <;> cases f i c <;> cases (if i = k then E else false) <;> rfl
    rw [e2, e_csum_xor]
    have e3 : e_csum n (fun i => (if i = k then E else false) && f i c) = (E && f k c) := by
      rw [e_csum_single k hk]
      · simp
      · intro i _ hne; simp [hne]
    rw [e3]
    exact h1
  have hz := hf y hy
  have hne : ∀ i, i < n → i ≠ k → y' i = false := by
    intro i hi hne
    have := hz i hi
    simpa [y, hne] using this
  have hE : E = false := by
    apply e_csum_zero
    intro i hi
    by_cases hik : i = k
    · subst hik; simp [he]
    · simp [hne i hi hik]
  intro i hi
  by_cases hik : i = k
  · have := hz k hk
    simp only [y, hE] at this
    subst hik
    simpa using this
  · exact hne i hi hik

theorem e_RowEq.indep {n m : Nat} {f g : e_F} (h : e_RowEq n f g) :
    e_IndepF n m f ↔ e_IndepF n m g := by
  induction h with
  | refl f => exact Iff.rfl
  | add f g k e hk he _ ih =>
    refine Iff.trans ⟨e_IndepF_addF k e hk he, fun h2 => ?_⟩ ih
    have := e_IndepF_addF k e hk he h2
    rwa [e_addF_addF f k e he] at this

/-! ### echelon structure -/

/-- `k` pivots `p 0 < p 1 < … < p (k-1) < j`: leading ones with zeros below; rows `≥ k` vanish left of `j` -/
structure e_Ech (f : e_F) (j k : Nat) (p : Nat → Nat) : Prop where
  zleft : ∀ r c, k ≤ r → c < j → f r c = false
  plt : ∀ i, i < k → p i < j
  pone : ∀ i, i < k → f i (p i) = true
  pzero : ∀ i c, i < k → c < p i → f i c = false
  pbelow : ∀ i i', i < k → i < i' → f i' (p i) = false
  pmono : ∀ i i', i < i' → i' < k → p i < p i'

theorem e_Ech.mono_le {f : e_F} {j k : Nat} {p : Nat → Nat} (h : e_Ech f j k p) (i i' : Nat)
    (hi : i ≤ i') (hk : i' < k) : p i + (i' - i) ≤ p i' := by
  induction i' with
  | zero => have : i = 0 := by omega
            subst this; simp
  | succ t ih =>
    by_cases hit : i = t + 1
    · subst hit; simp
    · have h1 := ih (by omega) (by omega)
      have h2 := h.pmono t (t + 1) (by omega) hk
      omega

/-- in an echelon form with `n` pivots inside `m` columns, `p i + (n - i) ≤ m` -/
theorem e_Ech.room {f : e_F} {j m n : Nat} {p : Nat → Nat} (h : e_Ech f j n p) (hj : j ≤ m) (i : Nat)
    (hi : i < n) : p i + (n - i) ≤ m := by
  have h1 := h.mono_le i (n - 1) (by omega) (by omega)
  have h2 := h.plt (n - 1) (by omega)
  omega

/-- rows of an echelon form with `n` pivots are independent -/
theorem e_Ech.indep {f : e_F} {j m n : Nat} {p : Nat → Nat} (h : e_Ech f j n p) (hj : j ≤ m) :
    e_IndepF n m f := by
  intro y hy
  intro i
  induction i using Nat.strongRecOn with
  | _ i ih =>
    intro hi
    have h1 := hy (p i) (Nat.lt_of_lt_of_le (h.plt i hi) hj)
    rw [e_csum_single i hi] at h1
    · simpa [h.pone i hi] using h1
    · intro i' hi' hne
      by_cases hlt : i' < i
      · simp [ih i' hlt hi']
      · simp [h.pbelow i i' hi (by omega)]

/-- a zero row makes the rows dependent -/
theorem e_not_indep_of_zero_row {f : e_F} {n m r : Nat} (hr : r < n)
    (hz : ∀ c, c < m → f r c = false) : ¬ e_IndepF n m f := by
  intro hind
  have := hind (fun i => i == r) (by
    intro c hc
    rw [e_csum_single r hr]
    · simp [hz c hc]
    · intro i _ hne; simp [hne]) r hr
  simp at this

/-- the pivot columns of an echelon form with `n` pivots form a nonsingular (unit triangular) matrix -/
theorem e_Ech.tri {f : e_F} {j n : Nat} {p : Nat → Nat} (h : e_Ech f j n p) (x : Nat → Bool)
    (hx : ∀ i, i < n → e_csum n (fun c => f i (p c) && x c) = false) : ∀ c, c < n → x c = false := by
  -- back substitution: by induction on `d`, `x c = false` for `n - d ≤ c < n`
  have key : ∀ d, ∀ c, c < n → n - d ≤ c → x c = false := by
    intro d
    induction d with
    | zero => intro c hc hd; omega
    | succ d ih =>
      intro c hc hd
      by_cases hlt : n - d ≤ c
      · exact ih c hc hlt
      · have h1 := hx c hc
        rw [e_csum_single c hc] at h1
        · simpa [h.pone c hc] using h1
        · intro c' hc' hne
          by_cases hlt' : c' < c
          · simp [h.pbelow c' c hc' hlt']
          · simp [ih c' hc' (by omega)]
  intro c hc
  exact key n c hc (by omega)

end LdpcV.Lin
