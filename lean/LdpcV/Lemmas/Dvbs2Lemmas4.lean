/- Helper lemmas for C06 (part 4): short cycles of a Tanner graph, and the girth of the rate-1/2 code. -/
import LdpcV.Lemmas.Dvbs2Lemmas3
namespace LdpcV.Dvbs2
open LdpcV LdpcV.Graph

/-- the Tanner graph is bipartite, so a cycle shorter than 6 has length 4 and consists of two rows sharing two columns -/
theorem short_cycle (H : SM) (c : List Node) (hc : IsCycle H c) (hl : c.length < 6) :
    ∃ r1 r2 c1 c2, r1 ≠ r2 ∧ c1 ≠ c2 ∧ H.mem r1 c1 = true ∧ H.mem r1 c2 = true ∧
      H.mem r2 c1 = true ∧ H.mem r2 c2 = true := by
  obtain ⟨h3, hnd, hadj⟩ := hc
  rcases c with _ | ⟨x0, _ | ⟨x1, _ | ⟨x2, _ | ⟨x3, _ | ⟨x4, _ | ⟨x5, t⟩⟩⟩⟩⟩⟩
  · simp at h3
  · simp at h3
  · simp at h3
  · have a0 := hadj 0 (by simp)
    have a1 := hadj 1 (by simp)
    have a2 := hadj 2 (by simp)
    simp at a0 a1 a2
    cases x0 <;> cases x1 <;> cases x2 <;> simp [Adj] at a0 a1 a2
  · have a0 := hadj 0 (by simp)
    have a1 := hadj 1 (by simp)
    have a2 := hadj 2 (by simp)
    have a3 := hadj 3 (by simp)
    simp at a0 a1 a2 a3
    simp at hnd
    cases x0 <;> cases x1 <;> cases x2 <;> cases x3 <;> simp [Adj] at a0 a1 a2 a3
    · rename_i r1 c1 r2 c2
      exact ⟨r1, r2, c1, c2, by simpa using hnd.1.2.1, by simpa using hnd.2.1.2, a0, a3, a1, a2⟩
    · rename_i c1 r1 c2 r2
      exact ⟨r1, r2, c1, c2, by simpa using hnd.2.1.2, by simpa using hnd.1.2.1, a0, a1, a3, a2⟩
  · have a0 := hadj 0 (by simp)
    have a1 := hadj 1 (by simp)
    have a2 := hadj 2 (by simp)
    have a3 := hadj 3 (by simp)
    have a4 := hadj 4 (by simp)
    simp at a0 a1 a2 a3 a4
    cases x0 <;> cases x1 <;> cases x2 <;> cases x3 <;> cases x4 <;> simp [Adj] at a0 a1 a2 a3 a4
  · simp at hl; omega

theorem six_cycle (H : SM) (a c e : Nat) (rb rd rf : Nat)
    (hnd : [Node.col a, .row rb, .col c, .row rd, .col e, .row rf].Nodup)
    (h1 : H.mem rb a = true) (h2 : H.mem rb c = true) (h3 : H.mem rd c = true)
    (h4 : H.mem rd e = true) (h5 : H.mem rf e = true) (h6 : H.mem rf a = true) :
    IsCycle H [.col a, .row rb, .col c, .row rd, .col e, .row rf] := by
  refine ⟨by simp, hnd, ?_⟩
  intro i hi
  simp only [List.length_cons, List.length_nil] at hi
  have : i = 0 ∨ i = 1 ∨ i = 2 ∨ i = 3 ∨ i = 4 ∨ i = 5 := by omega
  rcases this with rfl | rfl | rfl | rfl | rfl | rfl <;> simp [Adj, *]


/-- a passing 4-cycle test on the one-pass rows excludes every cycle shorter than 6 -/
theorem no_short_cycle {n m q : Nat} {addr : List (List Nat)} (w : WF n m q addr)
    (hc : noFourCycles n (rowsFastModel n m q addr) = true) :
    ∀ c, IsCycle (h n m q addr) c → 6 ≤ c.length := by
  intro c hcyc
  refine Nat.le_of_not_lt (fun hl => ?_)
  obtain ⟨r1, r2, c1, c2, hr, hcc, m11, m12, m21, m22⟩ := short_cycle _ c hcyc hl
  rw [rowsFastModel_eq] at hc
  have hinv := h_inv w
  rw [SM.mem_iff] at m11 m12 m21 m22
  have hlen : (rows n m q addr).length = m := by simp [rows]
  have b1 : r1 < m := by have := (hinv.1 _ _ m11).1; rwa [(h_dims ..).1] at this
  have b2 : r2 < m := by have := (hinv.1 _ _ m21).1; rwa [(h_dims ..).1] at this
  exact noFourCycles_sound' n (rows n m q addr) hc r1 r2 c1 c2 (by omega) (by omega) hr hcc ⟨m11, m12, m21, m22⟩

theorem h_mem_info {n m q : Nat} {addr : List (List Nat)} (w : WF n m q addr) (r c : Nat) (hc : c < n - m)
    (hr : r ∈ infoCol m q addr c) : (h n m q addr).mem r c = true := by
  rw [SM.mem_iff]
  refine ((h_inv w).2.1 r c ?_).2.2
  rw [h_col, if_pos (by omega), if_pos hc]; exact hr

theorem wf_R1_2 : WF 64800 32400 90 Dvbs2Tables.addr_R1_2 := wf_of (by decide +kernel)

/-- the explicit 6-cycle column 1800 – row 59 – column 32459 – row 60 – column 2160 – row 21449 -/
theorem six_cycle_R1_2 : IsCycle (h 64800 32400 90 Dvbs2Tables.addr_R1_2)
    [.col 1800, .row 59, .col 32459, .row 60, .col 2160, .row 21449] := by
  refine six_cycle _ _ _ _ _ _ _ (by decide) ?_ ?_ ?_ ?_ ?_ ?_
  · exact h_mem_info wf_R1_2 _ _ (by decide) (by decide +kernel)
  · exact (h_mem_parity 64800 32400 90 _ 59 59 (by decide)).2 (Or.inl rfl)
  · exact (h_mem_parity 64800 32400 90 _ 59 60 (by decide)).2 (Or.inr rfl)
  · exact h_mem_info wf_R1_2 _ _ (by decide) (by decide +kernel)
  · exact h_mem_info wf_R1_2 _ _ (by decide) (by decide +kernel)
  · exact h_mem_info wf_R1_2 _ _ (by decide) (by decide +kernel)

theorem girth_six_R1_2 (hc : noFourCycles 64800 (rowsFastModel 64800 32400 90 Dvbs2Tables.addr_R1_2) = true) :
    IsGirth (h 64800 32400 90 Dvbs2Tables.addr_R1_2) 6 :=
  ⟨⟨_, six_cycle_R1_2, rfl⟩, no_short_cycle wf_R1_2 hc⟩

theorem R1_2_mem_codes : ("R1_2", 64800, 32400, 90, Dvbs2Tables.addr_R1_2) ∈ Dvbs2Tables.codes :=
  List.mem_of_getElem? (i := 3) rfl

end LdpcV.Dvbs2
