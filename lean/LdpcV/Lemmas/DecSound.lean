/- Helper lemmas (DecSound) for the decoder properties C01 / C03 / C10. -/
import LdpcV.Spec.DecoderSpec
import LdpcV.Model.ArithI8
import LdpcV.Model.ArithTest
namespace LdpcV

/-! ### generic list / `foldlM` facts -/

theorem set_eq_self_of_getElem? {α : Type} (l : List α) (i : Nat) (a : α) (h : l[i]? = some a) :
    l.set i a = l := by
  apply List.ext_getElem?
  intro j
  by_cases hij : i = j
  · subst hij
    have hlt : i < l.length := by
      rcases Nat.lt_or_ge i l.length with hlt | hge
      · exact hlt
      · rw [List.getElem?_eq_none hge] at h; cases h
    rw [List.getElem?_set, if_pos rfl, if_pos hlt, h]
  · rw [List.getElem?_set, if_neg hij]

/-- an invariant preserved by every successful step is preserved by a successful `foldlM` -/
theorem foldlM_option_inv {α β : Type} (P : β → Prop) (f : β → α → Option β)
    (hf : ∀ b a b', P b → f b a = some b' → P b') :
    ∀ (l : List α) (b b' : β), P b → l.foldlM f b = some b' → P b' := by
  intro l
  induction l with
  | nil =>
    intro b b' hb h
    simp only [List.foldlM_nil, Option.pure_def, Option.some.injEq] at h
    subst h; exact hb
  | cons a l ih =>
    intro b b' hb h
    rw [List.foldlM_cons] at h
    cases hfa : f b a with
    | none => simp [hfa] at h
    | some b1 =>
      simp only [hfa, Option.bind_eq_bind, Option.bind_some] at h
      exact ih b1 b' (hf b a b1 hb hfa) h

/-- a measure that every successful step increases by one grows by the length of the list -/
theorem foldlM_option_count {α β : Type} (m : β → Nat) (f : β → α → Option β)
    (hf : ∀ b a b', f b a = some b' → m b' = m b + 1) :
    ∀ (l : List α) (b b' : β), l.foldlM f b = some b' → m b' = m b + l.length := by
  intro l
  induction l with
  | nil =>
    intro b b' h
    simp only [List.foldlM_nil, Option.pure_def, Option.some.injEq] at h
    subst h; simp
  | cons a l ih =>
    intro b b' h
    rw [List.foldlM_cons] at h
    cases hfa : f b a with
    | none => simp [hfa] at h
    | some b1 =>
      simp only [hfa, Option.bind_eq_bind, Option.bind_some] at h
      rw [ih b1 b' h, hf b a b1 hfa, List.length_cons]; omega

/-! ### message stores: `send` never changes the keys -/

/-- the adjacency structure (peer indices) of a store -/
abbrev Store.keys {β : Type} (s : Store β) : List (List Nat) := s.map (fun l => l.map Prod.fst)

theorem Store.hasShape_iff {β : Type} (s : Store β) (adj : List (List Nat)) :
    s.HasShape adj ↔ s.keys = adj := Iff.rfl

theorem Store.HasShape.length {β : Type} {s : Store β} {adj : List (List Nat)} (h : s.HasShape adj) :
    s.length = adj.length := by
  unfold Store.HasShape at h
  rw [← h, List.length_map]

theorem sendTo_keys {β : Type} (s s' : Store β) (src dst : Nat) (v : β)
    (h : sendTo s src dst v = some s') : s'.keys = s.keys := by
  unfold sendTo at h
  split at h
  · cases h
  · rename_i slot hslot
    split at h
    · cases h
    · rename_i i hi
      injection h with h; subst h
      rw [List.findIdx?_eq_some_iff_getElem] at hi
      obtain ⟨hlt, hp, _⟩ := hi
      have hsrc : slot[i].1 = src := by simpa using hp
      show List.map _ (s.set dst (slot.set i (src, v))) = List.map _ s
      rw [List.map_set, List.map_set]
      have h1 : (slot.map Prod.fst).set i src = slot.map Prod.fst := by
        apply set_eq_self_of_getElem?
        simp [hlt, hsrc]
      rw [h1]
      apply set_eq_self_of_getElem?
      simp [hslot]

theorem sendAll_keys {β : Type} (s s' : Store β) (src : Nat) (msgs : List (Nat × β))
    (h : sendAll s src msgs = some s') : s'.keys = s.keys := by
  unfold sendAll at h
  exact foldlM_option_inv (fun t => t.keys = s.keys) _
    (fun b a b' hb hfa => (sendTo_keys b b' src a.1 a.2 hfa).trans hb) msgs s s' rfl h

theorem Store.blank_hasShape {β : Type} (d : β) (adj : List (List Nat)) :
    (Store.blank d adj).HasShape adj := by
  unfold Store.HasShape Store.blank
  simp [List.map_map, Function.comp_def]

/-! ### parity evaluation -/

theorem syndromeOK_iff_rows (h : SM) (w : List Bool) :
    syndromeOK h w = true ↔
      ∀ r, r < h.nrows → ((h.row r).filter (fun c => w.getD c false)).length % 2 = 0 := by
  unfold syndromeOK
  rw [List.all_eq_true]
  constructor
  · intro hall r hr
    have hr' : r < h.rows.length := hr
    have hmem : h.rows[r] ∈ h.rows := List.getElem_mem hr'
    have := hall _ hmem
    have hrow : h.row r = h.rows[r] := by
      simp [SM.row, List.getD_eq_getElem?_getD, hr']
    rw [hrow]
    simpa [parityOK] using this
  · intro hall x hx
    obtain ⟨i, hi, rfl⟩ := List.mem_iff_getElem.mp hx
    have := hall i hi
    have hrow : h.row i = h.rows[i] := by
      simp [SM.row, List.getD_eq_getElem?_getD, hi]
    rw [hrow] at this
    simpa [parityOK] using this

/-! ### flooding schedule -/

namespace Flood
variable {A : Arith}

theorem fresh_shape (h : SM) : Flood.Shape h (Flood.fresh A h) :=
  { input := by simp [Flood.fresh, SM.ncols]
    output := by simp [Flood.fresh, SM.ncols]
    checkMsgs := Store.blank_hasShape _ _
    varMsgs := Store.blank_hasShape _ _ }

theorem initSt_shape (h : SM) (st st0 : FloodSt A) (llrs : List UInt64)
    (hs : Flood.Shape h st) (hlen : llrs.length = h.ncols)
    (hi : Flood.initSt h st llrs = some st0) : Flood.Shape h st0 := by
  simp only [Flood.initSt, Option.bind_eq_bind, Option.bind_eq_some_iff, Option.pure_def,
    Option.some.injEq] at hi
  obtain ⟨vm, hvm, rfl⟩ := hi
  have hk : vm.keys = st.varMsgs.keys :=
    foldlM_option_inv (fun t => t.keys = st.varMsgs.keys) _
      (fun b a b' hb hfa => (sendAll_keys b b' a _ hfa).trans hb) _ _ _ rfl hvm
  exact
    { input := by simp [hlen]
      output := by simp [hlen]
      checkMsgs := hs.checkMsgs
      varMsgs := by
        have := hs.varMsgs
        unfold Store.HasShape at this ⊢
        exact hk.trans this }

theorem checkPass_shape (h : SM) (st st1 : FloodSt A) (hs : Flood.Shape h st)
    (hc : Flood.checkPass st = some st1) : Flood.Shape h st1 := by
  simp only [Flood.checkPass, Option.bind_eq_bind, Option.bind_eq_some_iff, Option.pure_def,
    Option.some.injEq] at hc
  obtain ⟨cm, hcm, rfl⟩ := hc
  have hk : cm.keys = st.checkMsgs.keys := by
    refine foldlM_option_inv (fun t => t.keys = st.checkMsgs.keys) _ ?_ _ _ _ rfl hcm
    intro b a b' hb hfa
    simp only [Option.bind_eq_some_iff] at hfa
    obtain ⟨out, _, hsend⟩ := hfa
    exact (sendAll_keys b b' a _ hsend).trans hb
  exact
    { input := hs.input
      output := hs.output
      checkMsgs := by
        have := hs.checkMsgs
        unfold Store.HasShape at this ⊢
        exact hk.trans this
      varMsgs := hs.varMsgs }

theorem varPass_shape (h : SM) (st st2 : FloodSt A) (hs : Flood.Shape h st)
    (hv : Flood.varPass st = some st2) : Flood.Shape h st2 := by
  simp only [Flood.varPass, Option.bind_eq_bind, Option.bind_eq_some_iff, Option.pure_def,
    Option.some.injEq] at hv
  obtain ⟨⟨vm, outRev⟩, hfold, rfl⟩ := hv
  have hstep : ∀ (b : Store A.VarMsg × List A.Llr) (a : Nat) (b' : Store A.VarMsg × List A.Llr),
      (do
        let (llr, msgs) ← A.varRule (st.input.getD a A.dLlr) (st.checkMsgs.getD a [])
        let vm ← sendAll b.1 a msgs
        pure (vm, llr :: b.2) : Option _) = some b' →
      b'.1.keys = b.1.keys ∧ b'.2.length = b.2.length + 1 := by
    intro b a b' hfa
    simp only [Option.bind_eq_bind, Option.bind_eq_some_iff, Option.pure_def,
      Option.some.injEq] at hfa
    obtain ⟨⟨llr, msgs⟩, _, vm', hsend, rfl⟩ := hfa
    exact ⟨sendAll_keys _ _ _ _ hsend, by simp⟩
  have hk : vm.keys = st.varMsgs.keys := by
    have := foldlM_option_inv (fun t : Store A.VarMsg × List A.Llr => t.1.keys = st.varMsgs.keys) _
      (fun b a b' hb hfa => ((hstep b a b' hfa).1).trans hb) _ _ _ rfl hfold
    exact this
  have hl : outRev.length = st.checkMsgs.length := by
    have := foldlM_option_count (fun t : Store A.VarMsg × List A.Llr => t.2.length) _
      (fun b a b' hfa => (hstep b a b' hfa).2) _ _ _ hfold
    simpa using this
  exact
    { input := hs.input
      output := by
        show outRev.reverse.length = h.ncols
        rw [List.length_reverse, hl, hs.checkMsgs.length]; rfl
      checkMsgs := hs.checkMsgs
      varMsgs := by
        have := hs.varMsgs
        unfold Store.HasShape at this ⊢
        exact hk.trans this }

theorem hardAll_length (h : SM) (st : FloodSt A) (hs : Flood.Shape h st) :
    (Flood.hardAll st).length = h.ncols := by
  simp [Flood.hardAll, hs.output]

/-- the loop keeps the shape and reports the hard decisions of the state it returns -/
theorem loop_shape {h : SM} {n : Nat} : ∀ (rem : Nat) (st : FloodSt A) v st',
    Flood.Shape h st → Flood.loop h n rem st = some (v, st') →
    Flood.Shape h st' ∧ v.word = Flood.hardAll st' := by
  intro rem
  induction rem with
  | zero =>
    intro st v st' hs hl
    simp only [Flood.loop, Option.some.injEq, Prod.mk.injEq] at hl
    obtain ⟨rfl, rfl⟩ := hl
    exact ⟨hs, rfl⟩
  | succ rem ih =>
    intro st v st' hs hl
    unfold Flood.loop at hl
    split at hl
    · cases hl
    · rename_i st1 hc
      have hs1 := checkPass_shape h st st1 hs hc
      split at hl
      · cases hl
      · rename_i st2 hv
        have hs2 := varPass_shape h st1 st2 hs1 hv
        split at hl
        · simp only [Option.some.injEq, Prod.mk.injEq] at hl
          obtain ⟨rfl, rfl⟩ := hl
          exact ⟨hs2, rfl⟩
        · exact ih _ _ _ hs2 hl

theorem loop_success {h : SM} {n : Nat} : ∀ (rem : Nat) (st : FloodSt A) w it st',
    rem ≤ n → Flood.loop h n rem st = some (.success w it, st') →
    syndromeOK h w = true ∧ 1 ≤ it ∧ it ≤ n := by
  intro rem
  induction rem with
  | zero => intro st w it st' _ hl; simp [Flood.loop] at hl
  | succ rem ih =>
    intro st w it st' hle hl
    unfold Flood.loop at hl
    split at hl
    · cases hl
    · split at hl
      · cases hl
      · split at hl
        · rename_i hs
          simp only [Option.some.injEq, Prod.mk.injEq, Verdict.success.injEq] at hl
          obtain ⟨⟨rfl, rfl⟩, rfl⟩ := hl
          exact ⟨hs, by omega, by omega⟩
        · exact ih _ _ _ _ (by omega) hl

theorem loop_failure {h : SM} {n : Nat} : ∀ (rem : Nat) (st : FloodSt A) w it st',
    Flood.loop h n rem st = some (.failure w it, st') →
    it = n ∧ (1 ≤ rem → syndromeOK h w = false) := by
  intro rem
  induction rem with
  | zero =>
    intro st w it st' hl
    simp only [Flood.loop, Option.some.injEq, Prod.mk.injEq, Verdict.failure.injEq] at hl
    obtain ⟨⟨_, rfl⟩, _⟩ := hl
    exact ⟨rfl, by omega⟩
  | succ rem ih =>
    intro st w it st' hl
    unfold Flood.loop at hl
    split at hl
    · cases hl
    · split at hl
      · cases hl
      · split at hl
        · simp at hl
        · rename_i hs
          obtain ⟨a, c⟩ := ih _ _ _ _ hl
          refine ⟨a, fun _ => ?_⟩
          cases rem with
          | zero =>
            simp only [Flood.loop, Option.some.injEq, Prod.mk.injEq, Verdict.failure.injEq] at hl
            obtain ⟨⟨rfl, _⟩, rfl⟩ := hl
            simpa using hs
          | succ r => exact c (by omega)

theorem decode_success (h : SM) (st st' : FloodSt A) (llrs : List UInt64) (n it : Nat) (w : List Bool)
    (hs : Flood.Shape h st) (hd : Flood.decode h st llrs n = some (.success w it, st')) :
    w.length = h.ncols ∧ syndromeOK h w = true ∧ it ≤ n ∧
    (it = 0 ↔ syndromeOK h (llrs.map f64LeZero) = true) ∧ (it = 0 → w = llrs.map f64LeZero) := by
  unfold Flood.decode at hd
  by_cases hlen : llrs.length ≠ st.input.length
  · simp [hlen] at hd
  · have hlen' : llrs.length = h.ncols := by
      have : llrs.length = st.input.length := Classical.not_not.mp hlen
      rw [this, hs.input]
    by_cases hsyn : syndromeOK h (llrs.map f64LeZero) = true
    · simp only [hlen, hsyn, if_true, if_false, Option.some.injEq, Prod.mk.injEq,
        Verdict.success.injEq] at hd
      obtain ⟨⟨rfl, rfl⟩, _⟩ := hd
      exact ⟨by simp [hlen'], hsyn, by omega, by simp [hsyn], fun _ => rfl⟩
    · simp only [hlen, hsyn, if_false] at hd
      cases hi : Flood.initSt h st llrs with
      | none => simp [hi] at hd
      | some st0 =>
        simp only [hi] at hd
        have hs0 := initSt_shape h st st0 llrs hs hlen' hi
        obtain ⟨a, b, c⟩ := loop_success n _ _ _ _ (Nat.le_refl n) hd
        obtain ⟨hs', hw⟩ := loop_shape n _ _ _ hs0 hd
        have hw' : w = Flood.hardAll st' := hw
        refine ⟨by rw [hw', hardAll_length h st' hs'], a, c,
          ⟨fun h0 => by omega, fun h1 => absurd h1 hsyn⟩, fun h0 => by omega⟩

theorem decode_failure (h : SM) (st st' : FloodSt A) (llrs : List UInt64) (n it : Nat) (w : List Bool)
    (hs : Flood.Shape h st) (hd : Flood.decode h st llrs n = some (.failure w it, st')) :
    w.length = h.ncols ∧ it = n ∧ (1 ≤ n → syndromeOK h w = false) := by
  unfold Flood.decode at hd
  by_cases hlen : llrs.length ≠ st.input.length
  · simp [hlen] at hd
  · have hlen' : llrs.length = h.ncols := by
      have : llrs.length = st.input.length := Classical.not_not.mp hlen
      rw [this, hs.input]
    by_cases hsyn : syndromeOK h (llrs.map f64LeZero) = true
    · simp [hlen, hsyn] at hd
    · simp only [hlen, hsyn, if_false] at hd
      cases hi : Flood.initSt h st llrs with
      | none => simp [hi] at hd
      | some st0 =>
        simp only [hi] at hd
        have hs0 := initSt_shape h st st0 llrs hs hlen' hi
        obtain ⟨a, c⟩ := loop_failure n _ _ _ _ hd
        obtain ⟨hs', hw⟩ := loop_shape n _ _ _ hs0 hd
        have hw' : w = Flood.hardAll st' := hw
        exact ⟨by rw [hw', hardAll_length h st' hs'], a, c⟩

theorem decode_shape (h : SM) (st st' : FloodSt A) (llrs : List UInt64) (n : Nat) (v : Verdict)
    (hs : Flood.Shape h st) (hd : Flood.decode h st llrs n = some (v, st')) : Flood.Shape h st' := by
  unfold Flood.decode at hd
  by_cases hlen : llrs.length ≠ st.input.length
  · simp [hlen] at hd
  · have hlen' : llrs.length = h.ncols := by
      have : llrs.length = st.input.length := Classical.not_not.mp hlen
      rw [this, hs.input]
    by_cases hsyn : syndromeOK h (llrs.map f64LeZero) = true
    · simp only [hlen, hsyn, if_true, if_false, Option.some.injEq, Prod.mk.injEq] at hd
      obtain ⟨_, rfl⟩ := hd
      exact hs
    · simp only [hlen, hsyn, if_false] at hd
      cases hi : Flood.initSt h st llrs with
      | none => simp [hi] at hd
      | some st0 =>
        simp only [hi] at hd
        have hs0 := initSt_shape h st st0 llrs hs hlen' hi
        exact (loop_shape n _ _ _ hs0 hd).1

end Flood

/-! ### horizontal layered schedule -/

namespace Hl
variable {A : Arith}

theorem fresh_shape (h : SM) : Hl.Shape h (Hl.fresh A h) :=
  { llrs := by simp [Hl.fresh, SM.ncols]
    checkMsgs := Store.blank_hasShape _ _ }

theorem initSt_llrs_length (st : HlSt A) (llrs : List UInt64) :
    (Hl.initSt st llrs).llrs.length = llrs.length := by
  simp [Hl.initSt]

theorem initSt_keys (st : HlSt A) (llrs : List UInt64) :
    (Hl.initSt st llrs).checkMsgs.keys = st.checkMsgs.keys := by
  simp [Hl.initSt, Store.keys, List.map_map, Function.comp_def]

theorem go_length
    (hwb : ∀ msgs vars msgs' vars', A.layerRule msgs vars = some (msgs', vars') → vars'.length = vars.length) :
    ∀ (cm : List (List (Nat × A.CheckMsg))) (vars : List A.VarLlr) cm' vars',
      Hl.checkPass.go cm vars = some (cm', vars') → vars'.length = vars.length := by
  intro cm
  induction cm with
  | nil =>
    intro vars cm' vars' hg
    simp only [Hl.checkPass.go, Option.some.injEq, Prod.mk.injEq] at hg
    rw [← hg.2]
  | cons msgs rest ih =>
    intro vars cm' vars' hg
    unfold Hl.checkPass.go at hg
    split at hg
    · cases hg
    · rename_i m1 v1 hr
      split at hg
      · cases hg
      · rename_i r2 v2 hrest
        simp only [Option.some.injEq, Prod.mk.injEq] at hg
        obtain ⟨_, rfl⟩ := hg
        rw [ih _ _ _ hrest, hwb _ _ _ _ hr]

theorem go_keys
    (hwb : ∀ msgs vars msgs' vars', A.layerRule msgs vars = some (msgs', vars') →
      msgs'.map Prod.fst = msgs.map Prod.fst) :
    ∀ (cm : List (List (Nat × A.CheckMsg))) (vars : List A.VarLlr) cm' vars',
      Hl.checkPass.go cm vars = some (cm', vars') → Store.keys cm' = Store.keys cm := by
  intro cm
  induction cm with
  | nil =>
    intro vars cm' vars' hg
    simp only [Hl.checkPass.go, Option.some.injEq, Prod.mk.injEq] at hg
    rw [← hg.1]
  | cons msgs rest ih =>
    intro vars cm' vars' hg
    unfold Hl.checkPass.go at hg
    split at hg
    · cases hg
    · rename_i m1 v1 hr
      split at hg
      · cases hg
      · rename_i r2 v2 hrest
        simp only [Option.some.injEq, Prod.mk.injEq] at hg
        obtain ⟨rfl, _⟩ := hg
        show List.map _ (m1 :: r2) = List.map _ (msgs :: rest)
        rw [List.map_cons, List.map_cons, hwb _ _ _ _ hr]
        congr 1
        exact ih _ _ _ hrest

theorem checkPass_length
    (hwb : ∀ msgs vars msgs' vars', A.layerRule msgs vars = some (msgs', vars') → vars'.length = vars.length)
    (st st1 : HlSt A) (hc : Hl.checkPass st = some st1) : st1.llrs.length = st.llrs.length := by
  unfold Hl.checkPass at hc
  split at hc
  · cases hc
  · rename_i cm vars hg
    injection hc with hc; subst hc
    exact go_length hwb _ _ _ _ hg

theorem checkPass_keys
    (hwb : ∀ msgs vars msgs' vars', A.layerRule msgs vars = some (msgs', vars') →
      msgs'.map Prod.fst = msgs.map Prod.fst)
    (st st1 : HlSt A) (hc : Hl.checkPass st = some st1) : st1.checkMsgs.keys = st.checkMsgs.keys := by
  unfold Hl.checkPass at hc
  split at hc
  · cases hc
  · rename_i cm vars hg
    injection hc with hc; subst hc
    exact go_keys hwb _ _ _ _ hg

/-- the loop reports the hard decisions of the state it returns and keeps the number of variables -/
theorem loop_length {h : SM} {n : Nat}
    (hwb : ∀ msgs vars msgs' vars', A.layerRule msgs vars = some (msgs', vars') → vars'.length = vars.length) :
    ∀ (rem : Nat) (st : HlSt A) v st', Hl.loop h n rem st = some (v, st') →
      st'.llrs.length = st.llrs.length ∧ v.word = Hl.hardAll st' := by
  intro rem
  induction rem with
  | zero =>
    intro st v st' hl
    simp only [Hl.loop, Option.some.injEq, Prod.mk.injEq] at hl
    obtain ⟨rfl, rfl⟩ := hl
    exact ⟨rfl, rfl⟩
  | succ rem ih =>
    intro st v st' hl
    unfold Hl.loop at hl
    split at hl
    · cases hl
    · rename_i st1 hc
      have h1 := checkPass_length hwb st st1 hc
      split at hl
      · simp only [Option.some.injEq, Prod.mk.injEq] at hl
        obtain ⟨rfl, rfl⟩ := hl
        exact ⟨h1, rfl⟩
      · obtain ⟨a, b⟩ := ih _ _ _ hl
        exact ⟨a.trans h1, b⟩

theorem loop_keys {h : SM} {n : Nat}
    (hwb : ∀ msgs vars msgs' vars', A.layerRule msgs vars = some (msgs', vars') →
      msgs'.map Prod.fst = msgs.map Prod.fst) :
    ∀ (rem : Nat) (st : HlSt A) v st', Hl.loop h n rem st = some (v, st') →
      st'.checkMsgs.keys = st.checkMsgs.keys := by
  intro rem
  induction rem with
  | zero =>
    intro st v st' hl
    simp only [Hl.loop, Option.some.injEq, Prod.mk.injEq] at hl
    obtain ⟨_, rfl⟩ := hl
    rfl
  | succ rem ih =>
    intro st v st' hl
    unfold Hl.loop at hl
    split at hl
    · cases hl
    · rename_i st1 hc
      have h1 := checkPass_keys hwb st st1 hc
      split at hl
      · simp only [Option.some.injEq, Prod.mk.injEq] at hl
        obtain ⟨_, rfl⟩ := hl
        exact h1
      · exact (ih _ _ _ hl).trans h1

theorem loop_success {h : SM} {n : Nat} : ∀ (rem : Nat) (st : HlSt A) w it st',
    rem ≤ n → Hl.loop h n rem st = some (.success w it, st') →
    syndromeOK h w = true ∧ 1 ≤ it ∧ it ≤ n := by
  intro rem
  induction rem with
  | zero => intro st w it st' _ hl; simp [Hl.loop] at hl
  | succ rem ih =>
    intro st w it st' hle hl
    unfold Hl.loop at hl
    split at hl
    · cases hl
    · split at hl
      · rename_i hs
        simp only [Option.some.injEq, Prod.mk.injEq, Verdict.success.injEq] at hl
        obtain ⟨⟨rfl, rfl⟩, rfl⟩ := hl
        exact ⟨hs, by omega, by omega⟩
      · exact ih _ _ _ _ (by omega) hl

theorem loop_failure {h : SM} {n : Nat} : ∀ (rem : Nat) (st : HlSt A) w it st',
    Hl.loop h n rem st = some (.failure w it, st') →
    it = n ∧ (1 ≤ rem → syndromeOK h w = false) := by
  intro rem
  induction rem with
  | zero =>
    intro st w it st' hl
    simp only [Hl.loop, Option.some.injEq, Prod.mk.injEq, Verdict.failure.injEq] at hl
    obtain ⟨⟨_, rfl⟩, _⟩ := hl
    exact ⟨rfl, by omega⟩
  | succ rem ih =>
    intro st w it st' hl
    unfold Hl.loop at hl
    split at hl
    · cases hl
    · split at hl
      · simp at hl
      · rename_i hs
        obtain ⟨a, c⟩ := ih _ _ _ _ hl
        refine ⟨a, fun _ => ?_⟩
        cases rem with
        | zero =>
          simp only [Hl.loop, Option.some.injEq, Prod.mk.injEq, Verdict.failure.injEq] at hl
          obtain ⟨⟨rfl, _⟩, rfl⟩ := hl
          simpa using hs
        | succ r => exact c (by omega)

theorem hardAll_length (st : HlSt A) : (Hl.hardAll st).length = st.llrs.length := by
  simp [Hl.hardAll]

theorem decode_success (h : SM) (st st' : HlSt A) (llrs : List UInt64) (n it : Nat) (w : List Bool)
    (hs : Hl.Shape h st)
    (hwb : ∀ msgs vars msgs' vars', A.layerRule msgs vars = some (msgs', vars') → vars'.length = vars.length)
    (hd : Hl.decode h st llrs n = some (.success w it, st')) :
    w.length = h.ncols ∧ syndromeOK h w = true ∧ it ≤ n ∧
    (it = 0 ↔ syndromeOK h (llrs.map f64LeZero) = true) ∧ (it = 0 → w = llrs.map f64LeZero) := by
  unfold Hl.decode at hd
  by_cases hlen : llrs.length ≠ st.llrs.length
  · simp [hlen] at hd
  · have hlen' : llrs.length = h.ncols := by
      have : llrs.length = st.llrs.length := Classical.not_not.mp hlen
      rw [this, hs.llrs]
    by_cases hsyn : syndromeOK h (llrs.map f64LeZero) = true
    · simp only [hlen, hsyn, if_true, if_false, Option.some.injEq, Prod.mk.injEq,
        Verdict.success.injEq] at hd
      obtain ⟨⟨rfl, rfl⟩, _⟩ := hd
      exact ⟨by simp [hlen'], hsyn, by omega, by simp [hsyn], fun _ => rfl⟩
    · simp only [hlen, hsyn, if_false] at hd
      obtain ⟨a, b, c⟩ := loop_success n _ _ _ _ (Nat.le_refl n) hd
      obtain ⟨hl', hw⟩ := loop_length hwb n _ _ _ hd
      have hw' : w = Hl.hardAll st' := hw
      refine ⟨by rw [hw', hardAll_length, hl', initSt_llrs_length, hlen'], a, c,
        ⟨fun h0 => by omega, fun h1 => absurd h1 hsyn⟩, fun h0 => by omega⟩

theorem decode_failure (h : SM) (st st' : HlSt A) (llrs : List UInt64) (n it : Nat) (w : List Bool)
    (hs : Hl.Shape h st)
    (hwb : ∀ msgs vars msgs' vars', A.layerRule msgs vars = some (msgs', vars') → vars'.length = vars.length)
    (hd : Hl.decode h st llrs n = some (.failure w it, st')) :
    w.length = h.ncols ∧ it = n ∧ (1 ≤ n → syndromeOK h w = false) := by
  unfold Hl.decode at hd
  by_cases hlen : llrs.length ≠ st.llrs.length
  · simp [hlen] at hd
  · have hlen' : llrs.length = h.ncols := by
      have : llrs.length = st.llrs.length := Classical.not_not.mp hlen
      rw [this, hs.llrs]
    by_cases hsyn : syndromeOK h (llrs.map f64LeZero) = true
    · simp [hlen, hsyn] at hd
    · simp only [hlen, hsyn, if_false] at hd
      obtain ⟨a, c⟩ := loop_failure n _ _ _ _ hd
      obtain ⟨hl', hw⟩ := loop_length hwb n _ _ _ hd
      have hw' : w = Hl.hardAll st' := hw
      exact ⟨by rw [hw', hardAll_length, hl', initSt_llrs_length, hlen'], a, c⟩

theorem decode_shape (h : SM) (st st' : HlSt A) (llrs : List UInt64) (n : Nat) (v : Verdict)
    (hs : Hl.Shape h st)
    (hwb : ∀ msgs vars msgs' vars', A.layerRule msgs vars = some (msgs', vars') →
      vars'.length = vars.length ∧ msgs'.map Prod.fst = msgs.map Prod.fst)
    (hd : Hl.decode h st llrs n = some (v, st')) : Hl.Shape h st' := by
  unfold Hl.decode at hd
  by_cases hlen : llrs.length ≠ st.llrs.length
  · simp [hlen] at hd
  · have hlen' : llrs.length = h.ncols := by
      have : llrs.length = st.llrs.length := Classical.not_not.mp hlen
      rw [this, hs.llrs]
    by_cases hsyn : syndromeOK h (llrs.map f64LeZero) = true
    · simp only [hlen, hsyn, if_true, if_false, Option.some.injEq, Prod.mk.injEq] at hd
      obtain ⟨_, rfl⟩ := hd
      exact hs
    · simp only [hlen, hsyn, if_false] at hd
      have hl' := (loop_length (fun m v m' v' hr => (hwb m v m' v' hr).1) n _ _ _ hd).1
      have hk := loop_keys (fun m v m' v' hr => (hwb m v m' v' hr).2) n _ _ _ hd
      exact
        { llrs := by rw [hl', initSt_llrs_length, hlen']
          checkMsgs := by
            have := hs.checkMsgs
            unfold Store.HasShape at this ⊢
            exact (hk.trans (initSt_keys st llrs)).trans this }

end Hl

end LdpcV
