/-
GaussLemmas4 — assembly: what `fromH` returns (staircase / dense / error), what `encode` computes,
and the consequences (validity, linearity, non-singularity).  Core only.
-/
import LdpcV.Lemmas.GaussLemmas3
namespace LdpcV.Lin

attribute [-simp] List.getD_eq_getElem?_getD

/-! ### unfolding `fromH` -/

/-- what the staircase branch guarantees about the stored `H0` -/
def g_StairSpec (h g : SM) : Prop :=
  (∀ i j, i < h.nrows → j < h.nrows →
    (h.mem i (h.ncols - h.nrows + j) = true ↔ (j = i ∨ j + 1 = i))) ∧
  g.Inv ∧ g.nrows = h.nrows ∧ g.ncols = h.ncols - h.nrows ∧
  ∀ r c, g.mem r c = (h.mem r c && decide (c < h.ncols - h.nrows))

/-- what the dense branch guarantees about the reduced matrix `[I | G]` -/
def g_DenseSpec (h : SM) (a' : Mat) : Prop :=
  g_Shape a' h.nrows h.ncols ∧
  (∀ i c, i < h.nrows → c < h.nrows → a'.get i c = decide (i = c)) ∧
  ∀ x, g_Ker a'.get h.nrows h.ncols x ↔
    g_Ker (ofSM h (g_colmap h.nrows h.ncols)).get h.nrows h.ncols x

theorem g_fromH_stair (h : SM) (hs : isStaircase h = some true) :
    fromH h =
      match (h.iterAll.filter (fun p => p.2 < h.ncols - h.nrows)).foldlM
        (fun g p => g.insert p.1 p.2) (SM.new h.nrows (h.ncols - h.nrows)) with
      | some g => .ok (.staircase g)
      | none => .panic := by
  unfold fromH
  simp only [hs]
  rfl

theorem g_fromH_dense (h : SM) (hs : isStaircase h = some false) (hn : h.nrows ≤ h.ncols) :
    fromH h =
      match gaussReduction (ofSM h (g_colmap h.nrows h.ncols)) h.nrows h.ncols with
      | none => .panic
      | some none => .err
      | some (some a') => .ok (.dense (a'.map (fun row => row.drop h.nrows))) := by
  unfold fromH
  have : ¬ h.nrows > h.ncols := by omega
  simp only [hs, this, if_false]
  rfl

theorem g_H0_total (h : SM) (hinv : h.Inv) :
    ∃ g, (h.iterAll.filter (fun p => p.2 < h.ncols - h.nrows)).foldlM
      (fun g p => g.insert p.1 p.2) (SM.new h.nrows (h.ncols - h.nrows)) = some g := by
  apply g_foldl_insert_total
  rintro ⟨r, c⟩ hp
  rw [List.mem_filter, SM.mem_iterAll] at hp
  have := hinv.1 r c hp.1
  simp only [decide_eq_true_eq] at hp
  simp [SM.new, SM.nrows, SM.ncols]
  exact ⟨this.1, hp.2⟩

theorem g_H0_spec (h : SM) (g : SM)
    (hg : (h.iterAll.filter (fun p => p.2 < h.ncols - h.nrows)).foldlM
      (fun g p => g.insert p.1 p.2) (SM.new h.nrows (h.ncols - h.nrows)) = some g) :
    g.Inv ∧ g.nrows = h.nrows ∧ g.ncols = h.ncols - h.nrows ∧
      ∀ r c, g.mem r c = (h.mem r c && decide (c < h.ncols - h.nrows)) := by
  obtain ⟨i1, r1, c1, m1⟩ := g_foldl_insert _ _ g (SM.new_inv _ _) hg
  refine ⟨i1, by simpa [SM.new, SM.nrows] using r1, by simpa [SM.new, SM.ncols] using c1, ?_⟩
  intro r c
  rw [m1, SM.new_mem]
  simp only [PosSet.empty, Bool.false_or, List.mem_filter, SM.mem_iterAll, decide_eq_true_eq]
  rw [Bool.eq_iff_iff]
  simp [SM.mem_iff]

theorem g_fromH_no_panic (h : SM) (hinv : h.Inv) (hr : 1 ≤ h.nrows) (hn : h.nrows ≤ h.ncols) :
    fromH h ≠ .panic := by
  have hst := g_isStaircase_eq h hr hn
  cases hb : ((g_tail h).all (g_stairTest h) && decide ((g_tail h).length = 2 * h.nrows - 1)) with
  | true =>
    rw [hb] at hst
    obtain ⟨g, hg⟩ := g_H0_total h hinv
    rw [g_fromH_stair h hst, hg]
    simp
  | false =>
    rw [hb] at hst
    rw [g_fromH_dense h hst hn]
    have := g_gaussReduction_ne_none (a := ofSM h (g_colmap h.nrows h.ncols)) hn
    split
    · next e => exact absurd e this
    · simp
    · simp

theorem g_fromH_ok_inv (h : SM) (hinv : h.Inv) (hr : 1 ≤ h.nrows) (hn : h.nrows ≤ h.ncols)
    (e : Encoder) (he : fromH h = .ok e) :
    (∃ g, e = .staircase g ∧ g_StairSpec h g) ∨
    (∃ a', e = .dense (a'.map (fun row => row.drop h.nrows)) ∧ g_DenseSpec h a') := by
  have hst := g_isStaircase_eq h hr hn
  cases hb : ((g_tail h).all (g_stairTest h) && decide ((g_tail h).length = 2 * h.nrows - 1)) with
  | true =>
    rw [hb] at hst
    left
    rw [g_fromH_stair h hst] at he
    split at he
    · next g hg =>
      simp only [Res.ok.injEq] at he
      exact ⟨g, he.symm, (g_staircase_iff h hinv hr hn).mp hb, g_H0_spec h g hg⟩
    · cases he
  | false =>
    rw [hb] at hst
    right
    rw [g_fromH_dense h hst hn] at he
    split at he
    · cases he
    · cases he
    · next a' hg =>
      simp only [Res.ok.injEq] at he
      exact ⟨a', he.symm, g_gaussReduction_ok (g_shape_ofSM h _) hg⟩

/-- the error branch: a non-zero vector supported on the first `n` coordinates in the kernel of `[H1 H0]` -/
theorem g_fromH_err_inv (h : SM) (hr : 1 ≤ h.nrows) (hn : h.nrows ≤ h.ncols)
    (he : fromH h = .err) :
    ∃ x : Nat → Bool, (∃ k, k < h.nrows ∧ x k = true) ∧ (∀ i, h.nrows ≤ i → x i = false) ∧
      g_Ker (ofSM h (g_colmap h.nrows h.ncols)).get h.nrows h.ncols x := by
  have hst := g_isStaircase_eq h hr hn
  cases hb : ((g_tail h).all (g_stairTest h) && decide ((g_tail h).length = 2 * h.nrows - 1)) with
  | true =>
    rw [hb] at hst
    rw [g_fromH_stair h hst] at he
    split at he <;> cases he
  | false =>
    rw [hb] at hst
    rw [g_fromH_dense h hst hn] at he
    split at he
    · cases he
    · next hg => exact g_gaussReduction_err (g_shape_ofSM h _) hg
    · cases he

/-! ### unfolding `encode` -/

theorem g_encode_staircase (g : SM) (hinv : g.Inv) (msg : List Bool) (hm : msg.length = g.ncols) :
    encode (.staircase g) msg = some (msg ++ g_prefixXor false
      (g.rows.map (fun row => xorAll (row.map (fun k => msg.getD k false))))) := by
  have hc : g.rows.all (fun row => row.all (· < msg.length)) = true := by
    rw [List.all_eq_true]
    intro row hrow
    obtain ⟨i, hi, rfl⟩ := List.getElem_of_mem hrow
    rw [List.all_eq_true]
    intro k hk
    rw [g_row_mem_rows g i hi] at hk
    simpa [hm] using (hinv.1 i k hk).2.1
  unfold encode
  simp only [hc, if_true, Option.some.injEq]
  rw [g_running_sums]
  simp

theorem g_encode_dense (g : Mat) (msg : List Bool) (hl : ∀ row ∈ g, row.length = msg.length) :
    encode (.dense g) msg = some (msg ++ g.map (fun row => dot row msg)) := by
  have hc : g.all (fun row => row.length = msg.length) = true := by
    rw [List.all_eq_true]
    intro row hrow
    simpa using hl row hrow
  unfold encode
  simp only [hc, if_true]
  rfl

theorem g_dense_rows (a' : Mat) (n m : Nat) (hs : g_Shape a' n m) :
    ∀ row ∈ a'.map (fun row => row.drop n), row.length = m - n := by
  intro row hrow
  simp only [List.mem_map] at hrow
  obtain ⟨r, hr, rfl⟩ := hrow
  simp [hs.2 r hr]

/-! ### validity -/

theorem g_rows_getElem? (g : SM) (i : Nat) (hi : i < g.nrows) : g.rows[i]? = some (g.row i) := by
  unfold SM.row
  rw [g_getD_lt _ _ _ hi]
  exact List.getElem?_eq_getElem hi

theorem g_stair_raw (h g : SM) (hs : g_StairSpec h g) (msg : List Bool) (i : Nat) (hi : i < h.nrows) :
    (g.rows.map (fun row => xorAll (row.map (fun k => msg.getD k false)))).getD i false =
      g_xsum (h.ncols - h.nrows) (fun c => h.mem i c && msg.getD c false) := by
  obtain ⟨_, ginv, gr, gc, gm⟩ := hs
  have hi' : i < g.nrows := by omega
  rw [List.getD_eq_getElem?_getD, List.getElem?_map, g_rows_getElem? g i hi']
  simp only [Option.map_some, Option.getD_some]
  rw [g_xorAll_sparse _ g.ncols _ (ginv.2.2.1 i) (fun c hc => (ginv.1 i c hc).2.1), gc]
  apply g_xsum_congr
  intro c hc
  have := gm i c
  simp only [SM.mem] at this
  rw [this]
  simp [hc, SM.mem]

theorem g_stair_valid (h : SM) (hinv : h.Inv) (hn : h.nrows ≤ h.ncols)
    (g : SM) (hs : g_StairSpec h g) (msg : List Bool) (hm : msg.length = h.ncols - h.nrows) :
    syndromeOK h (msg ++ g_prefixXor false
      (g.rows.map (fun row => xorAll (row.map (fun k => msg.getD k false))))) = true := by
  rw [g_syndromeOK_iff h hinv]
  intro i hi
  generalize hraw : g.rows.map (fun row => xorAll (row.map (fun k => msg.getD k false))) = raw
  have hrl : raw.length = h.nrows := by rw [← hraw]; simpa [SM.nrows] using hs.2.2.1
  have hs_i := fun i hi => hraw ▸ g_stair_raw h g hs msg i hi
  have e2 : h.ncols = (h.ncols - h.nrows) + h.nrows := by omega
  have hst := hs.1
  generalize hd : h.ncols - h.nrows = d at *
  conv => lhs; rw [e2]
  rw [g_xsum_add]
  have p1 : g_xsum d (fun c => h.mem i c && (msg ++ g_prefixXor false raw).getD c false) =
      raw.getD i false := by
    rw [hs_i i hi]
    apply g_xsum_congr
    intro c hc
    rw [g_getD_append]
    simp [hm, hc]
  have p2 : g_xsum h.nrows (fun c => h.mem i (d + c) && (msg ++ g_prefixXor false raw).getD (d + c) false) =
      g_xsum h.nrows (fun c => decide (c = i ∨ c + 1 = i) && (g_prefixXor false raw).getD c false) := by
    apply g_xsum_congr
    intro c hc
    rw [g_getD_append]
    have : ¬ d + c < d := by omega
    simp only [hm, this, if_false, Nat.add_sub_cancel_left]
    congr 1
    rw [Bool.eq_iff_iff, hst i c hi hc]
    simp
  rw [p1, p2, g_xsum_stair _ _ hi]
  cases i with
  | zero =>
    rw [g_getD_prefixXor_zero raw false (by omega)]
    simp
  | succ i =>
    rw [g_getD_prefixXor_succ raw false i (by omega)]
    simp only [Nat.add_one_ne_zero, if_false, Nat.add_sub_cancel]
    cases raw.getD (i + 1) false <;> cases (g_prefixXor false raw).getD i false <;> rfl

theorem g_dense_parity (a' : Mat) (n m : Nat) (hs : g_Shape a' n m) (msg : List Bool)
    (hm : msg.length = m - n) (i : Nat) (hi : i < n) :
    ((a'.map (fun row => row.drop n)).map (fun row => dot row msg)).getD i false =
      g_xsum (m - n) (fun c => a'.get i (n + c) && msg.getD c false) := by
  have hi' : i < a'.length := by rw [hs.1]; exact hi
  rw [g_getD_lt _ _ _ (by simpa using hi')]
  simp only [List.getElem_map]
  rw [g_dot_eq _ msg (m - n) (by rw [hm]; exact Nat.min_le_right _ _)]
  apply g_xsum_congr
  intro c _
  rw [g_getD_drop]
  unfold Mat.get
  rw [g_getD_lt a' _ _ hi']

theorem g_dense_valid (h : SM) (hinv : h.Inv) (hn : h.nrows ≤ h.ncols)
    (a' : Mat) (hs : g_DenseSpec h a') (msg : List Bool) (hm : msg.length = h.ncols - h.nrows) :
    syndromeOK h (msg ++ (a'.map (fun row => row.drop h.nrows)).map (fun row => dot row msg)) = true := by
  obtain ⟨hsh, hid, hker⟩ := hs
  rw [g_syndromeOK_iff h hinv]
  generalize hp : (a'.map (fun row => row.drop h.nrows)).map (fun row => dot row msg) = p
  have hpar := fun i hi => hp ▸ g_dense_parity a' h.nrows h.ncols hsh msg hm i hi
  have hpl : p.length = h.nrows := by rw [← hp]; simp [hsh.1]
  let wf : Nat → Bool := fun c => (msg ++ p).getD c false
  let x : Nat → Bool := fun c => if c < h.nrows then wf (h.ncols - h.nrows + c) else wf (c - h.nrows)
  have hx1 : ∀ c, c < h.nrows → x c = p.getD c false := by
    intro c hc
    simp only [x, wf, hc, if_true, g_getD_append, hm]
    have : ¬ h.ncols - h.nrows + c < h.ncols - h.nrows := by omega
    simp only [this, if_false, Nat.add_sub_cancel_left]
  have hx2 : ∀ c, c < h.ncols - h.nrows → x (h.nrows + c) = msg.getD c false := by
    intro c hc
    have : ¬ h.nrows + c < h.nrows := by omega
    simp only [x, wf, this, if_false, g_getD_append, Nat.add_sub_cancel_left, hm, hc, if_true]
  have hk : g_Ker a'.get h.nrows h.ncols x := by
    intro i hi
    have e1 : h.ncols = h.nrows + (h.ncols - h.nrows) := by omega
    conv => lhs; rw [e1]
    rw [g_xsum_add]
    have q1 : g_xsum h.nrows (fun c => a'.get i c && x c) = p.getD i false := by
      rw [g_xsum_single hi (k := i)]
      · rw [hid i i hi hi, hx1 i hi]; simp
      · intro c hc hne
        have : ¬ i = c := fun e => hne e.symm
        rw [hid i c hi hc]; simp [this]
    have q2 : g_xsum (h.ncols - h.nrows) (fun c => a'.get i (h.nrows + c) && x (h.nrows + c)) =
        p.getD i false := by
      rw [hpar i hi]
      apply g_xsum_congr
      intro c hc
      rw [hx2 c hc]
    rw [q1, q2]; simp
  have hk' := (hker x).mp hk
  intro i hi
  have := g_rowsum_ofSM h hinv hn wf i hi
  rw [← this]
  exact hk' i hi

/-! ### linearity -/

theorem g_stair_linear (g : SM) (m1 m2 : List Bool) (hl : m1.length = m2.length) :
    vxor m1 m2 ++ g_prefixXor false
        (g.rows.map (fun row => xorAll (row.map (fun k => (vxor m1 m2).getD k false)))) =
      vxor
        (m1 ++ g_prefixXor false (g.rows.map (fun row => xorAll (row.map (fun k => m1.getD k false)))))
        (m2 ++ g_prefixXor false (g.rows.map (fun row => xorAll (row.map (fun k => m2.getD k false))))) := by
  rw [g_vxor_append _ _ _ _ hl]
  congr 1
  have : g.rows.map (fun row => xorAll (row.map (fun k => (vxor m1 m2).getD k false))) =
      vxor (g.rows.map (fun row => xorAll (row.map (fun k => m1.getD k false))))
        (g.rows.map (fun row => xorAll (row.map (fun k => m2.getD k false)))) := by
    rw [g_vxor_map]
    apply List.map_congr_left
    intro row _
    rw [← g_xorAll_map_xor]
    congr 1
    apply List.map_congr_left
    intro k _
    exact g_getD_vxor m1 m2 hl k
  rw [this, ← g_prefixXor_vxor]
  rfl

theorem g_dense_linear (g : Mat) (m1 m2 : List Bool) (hl : m1.length = m2.length) :
    vxor m1 m2 ++ g.map (fun row => dot row (vxor m1 m2)) =
      vxor (m1 ++ g.map (fun row => dot row m1)) (m2 ++ g.map (fun row => dot row m2)) := by
  rw [g_vxor_append _ _ _ _ hl, g_vxor_map]
  congr 1
  apply List.map_congr_left
  intro row _
  exact g_dot_vxor row m1 m2 hl

/-! ### non-singularity of the tail -/

theorem g_length_tailMat (h : SM) : (tailMat h).length = h.nrows := by simp [tailMat]

theorem g_tailMat_zero_iff (h : SM) (x : List Bool) :
    isZero ((tailMat h).mulVec x) ↔ ∀ i, i < h.nrows →
      g_xsum h.nrows (fun c => h.mem i (h.ncols - h.nrows + c) && x.getD c false) = false := by
  rw [g_isZero_iff]
  have hl : ((tailMat h).mulVec x).length = h.nrows := by simp [Mat.mulVec, tailMat]
  rw [hl]
  have key : ∀ i, i < h.nrows → ((tailMat h).mulVec x).getD i false =
      g_xsum h.nrows (fun c => h.mem i (h.ncols - h.nrows + c) && x.getD c false) := by
    intro i hi
    rw [g_getD_mulVec _ _ _ (by rw [g_length_tailMat]; exact hi)]
    have hrow : (tailMat h).getD i [] =
        (List.range h.nrows).map (fun j => h.mem i (h.ncols - h.nrows + j)) := by
      unfold tailMat
      rw [g_getD_lt _ _ _ (by simpa using hi)]
      simp
    rw [hrow, g_dot_eq _ x h.nrows (by simp; omega)]
    apply g_xsum_congr
    intro c hc
    rw [g_getD_map_range _ _ _ hc]
  constructor
  · intro hz i hi; rw [← key i hi]; exact hz i hi
  · intro hz i hi; rw [key i hi]; exact hz i hi

theorem g_stair_nonsingular (h g : SM) (hs : g_StairSpec h g) : Nonsingular (tailMat h) := by
  intro x hx hz
  rw [g_length_tailMat] at hx
  rw [g_tailMat_zero_iff] at hz
  have hrec : ∀ i, i < h.nrows →
      xor (x.getD i false) (if i = 0 then false else x.getD (i - 1) false) = false := by
    intro i hi
    have e : g_xsum h.nrows (fun c => h.mem i (h.ncols - h.nrows + c) && x.getD c false) =
        g_xsum h.nrows (fun c => decide (c = i ∨ c + 1 = i) && x.getD c false) := by
      apply g_xsum_congr
      intro c hc
      congr 1
      rw [Bool.eq_iff_iff, hs.1 i c hi hc]
      simp
    rw [← g_xsum_stair h.nrows i hi (fun c => x.getD c false), ← e]
    exact hz i hi
  have hall : ∀ i, i < h.nrows → x.getD i false = false := by
    intro i
    induction i with
    | zero => intro hi; simpa using hrec 0 hi
    | succ i ih =>
      intro hi
      have := hrec (i + 1) hi
      simp only [Nat.add_one_ne_zero, if_false, Nat.add_sub_cancel] at this
      rw [ih (by omega)] at this
      simpa using this
  rw [g_isZero_iff]
  intro i hi
  exact hall i (by omega)

/-- kernel of `[H1 H0]` on vectors supported on the first `n` coordinates = kernel of `H1` -/
theorem g_ker_left (h : SM) (hinv : h.Inv) (hn : h.nrows ≤ h.ncols) (x : Nat → Bool)
    (hx : ∀ i, h.nrows ≤ i → x i = false) :
    g_Ker (ofSM h (g_colmap h.nrows h.ncols)).get h.nrows h.ncols x ↔
      ∀ i, i < h.nrows → g_xsum h.nrows (fun c => h.mem i (h.ncols - h.nrows + c) && x c) = false := by
  have key : ∀ i, i < h.nrows →
      g_xsum h.ncols (fun c => (ofSM h (g_colmap h.nrows h.ncols)).get i c && x c) =
        g_xsum h.nrows (fun c => h.mem i (h.ncols - h.nrows + c) && x c) := by
    intro i hi
    rw [g_xsum_extend hn (fun c h1 _ => by rw [hx c h1]; simp)]
    apply g_xsum_congr
    intro c hc
    rw [g_get_ofSM_left h hinv hn i c hi hc]
  constructor
  · intro hk i hi; rw [← key i hi]; exact hk i hi
  · intro hk i hi; rw [key i hi]; exact hk i hi

theorem g_dense_nonsingular (h : SM) (hinv : h.Inv) (hn : h.nrows ≤ h.ncols)
    (a' : Mat) (hs : g_DenseSpec h a') : Nonsingular (tailMat h) := by
  obtain ⟨hsh, hid, hker⟩ := hs
  intro x hx hz
  rw [g_length_tailMat] at hx
  rw [g_tailMat_zero_iff] at hz
  have hsup : ∀ i, h.nrows ≤ i → x.getD i false = false :=
    fun i hi => g_getD_of_le _ _ _ (by omega)
  have hk := (hker _).mpr ((g_ker_left h hinv hn (fun c => x.getD c false) hsup).mpr hz)
  rw [g_isZero_iff]
  intro i hi
  have hi' : i < h.nrows := by omega
  have := hk i hi'
  rw [g_xsum_extend hn (fun c h1 _ => by simp only [hsup c h1, Bool.and_false]),
    g_xsum_single hi' (k := i)] at this
  · rw [hid i i hi' hi'] at this; simpa using this
  · intro c hc hne
    have : ¬ i = c := fun e => hne e.symm
    rw [hid i c hi' hc]; simp [this]

theorem g_err_singular (h : SM) (hinv : h.Inv) (hr : 1 ≤ h.nrows) (hn : h.nrows ≤ h.ncols)
    (he : fromH h = .err) : ¬ Nonsingular (tailMat h) := by
  obtain ⟨xf, ⟨k, hk, hxk⟩, hsup, hker⟩ := g_fromH_err_inv h hr hn he
  intro hns
  have hz := (g_ker_left h hinv hn xf hsup).mp hker
  have hx : ∀ c, c < h.nrows → ((List.range h.nrows).map xf).getD c false = xf c :=
    fun c hc => g_getD_map_range _ _ _ hc
  have h0 := hns ((List.range h.nrows).map xf) (by simp [g_length_tailMat])
    ((g_tailMat_zero_iff h _).mpr (fun i hi => by
      have e : g_xsum h.nrows (fun c => h.mem i (h.ncols - h.nrows + c) &&
            ((List.range h.nrows).map xf).getD c false) =
          g_xsum h.nrows (fun c => h.mem i (h.ncols - h.nrows + c) && xf c) := by
        apply g_xsum_congr
        intro c hc
        rw [hx c hc]
      rw [e]; exact hz i hi))
  rw [g_isZero_iff] at h0
  have := h0 k (by simpa using hk)
  rw [hx k hk, hxk] at this
  cases this

end LdpcV.Lin
