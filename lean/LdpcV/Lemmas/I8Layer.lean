/- Helper lemmas for the layered 8-bit envelope (C05HL). -/
import LdpcV.Props.C05
import LdpcV.Props.C10
namespace LdpcV.I8

/-! ### the value stored for a destination -/

/-- value stored for destination `v` in one check's message list (0 if `v` is not a destination) -/
def val (l : List (Nat × Int)) (v : Nat) : Int := ((l.find? (fun p => p.1 == v)).map (·.2)).getD 0

theorem val_cons_self (m : Nat × Int) (l : List (Nat × Int)) : val (m :: l) m.1 = m.2 := by
  simp [val]

theorem val_cons_ne (m : Nat × Int) (l : List (Nat × Int)) (v : Nat) (h : m.1 ≠ v) :
    val (m :: l) v = val l v := by
  simp [val, h]

theorem val_of_not_mem (l : List (Nat × Int)) (v : Nat) (h : v ∉ l.map Prod.fst) : val l v = 0 := by
  induction l with
  | nil => rfl
  | cons m l ih =>
    simp only [List.map_cons, List.mem_cons, not_or] at h
    rw [val_cons_ne _ _ _ (fun e => h.1 e.symm)]
    exact ih h.2

theorem val_bound (l : List (Nat × Int)) (v : Nat) (hb : Bounded l) : -127 ≤ val l v ∧ val l v ≤ 127 := by
  induction l with
  | nil => simp [val]
  | cons m l ih =>
    by_cases e : m.1 = v
    · subst e; rw [val_cons_self]; exact hb m List.mem_cons_self
    · rw [val_cons_ne _ _ _ e]; exact ih (fun x hx => hb x (List.mem_cons_of_mem _ hx))

theorem val_blank (row : List Nat) (v : Nat) : val (row.map (fun j => (j, (0 : Int)))) v = 0 := by
  induction row with
  | nil => rfl
  | cons j row ih =>
    by_cases e : j = v
    · subst e; exact val_cons_self (j, 0) _
    · rw [List.map_cons, val_cons_ne _ _ _ (by exact e)]; exact ih

/-! ### the write-back fold, pointwise -/

theorem wbFold_length (ms news : List (Nat × Int)) (vars : List Int) :
    (wbFold ms news vars).length = vars.length := by
  unfold wbFold
  generalize ms.zip news = z
  induction z generalizing vars with
  | nil => rfl
  | cons p z ih => rw [List.foldl_cons, ih, List.length_set]

theorem getD_set_self (vars : List Int) (i : Nat) (x : Int) (h : i < vars.length) :
    (vars.set i x).getD i 0 = x := by
  simp [List.getD_eq_getElem?_getD, List.getElem?_set_self h]

theorem wbFold_getD (ms news : List (Nat × Int)) (vars : List Int)
    (hfst : news.map Prod.fst = ms.map Prod.fst) (hn : (ms.map Prod.fst).Nodup)
    (hr : ∀ m ∈ ms, m.1 < vars.length) (v : Nat) :
    (wbFold ms news vars).getD v 0 = vars.getD v 0 - val ms v + val news v := by
  induction ms generalizing news vars with
  | nil =>
    cases news with
    | nil => simp [wbFold, val]
    | cons a t => simp at hfst
  | cons m ms ih =>
    cases news with
    | nil => simp at hfst
    | cons m' ms' =>
      simp only [List.map_cons, List.cons.injEq] at hfst
      obtain ⟨h1, h2⟩ := hfst
      simp only [List.map_cons, List.nodup_cons] at hn
      have hstep : wbFold (m :: ms) (m' :: ms') vars
          = wbFold ms ms' (vars.set m.1 (vars.getD m.1 0 - m.2 + m'.2)) := rfl
      rw [hstep, ih ms' _ h2 hn.2 (fun x hx => by rw [List.length_set]; exact hr x (List.mem_cons_of_mem _ hx))]
      by_cases e : m.1 = v
      · subst e
        rw [getD_set_self _ _ _ (hr m List.mem_cons_self), val_cons_self,
          show val (m' :: ms') m.1 = m'.2 from h1 ▸ val_cons_self m' ms',
          val_of_not_mem ms _ hn.1, val_of_not_mem ms' _ (h2 ▸ hn.1)]
        omega
      · rw [getD_set_ne _ _ _ _ e, val_cons_ne _ _ _ e, val_cons_ne _ _ _ (h1 ▸ e)]

/-! ### one layered update, both rules -/

theorem layer_step (amin : Bool) (cfg : Cfg) (msgs : List (Nat × Int)) (vars : List Int) (hb : Bounded msgs)
    (hd : 2 ≤ msgs.length) (hn : (msgs.map Prod.fst).Nodup) (hr : ∀ m ∈ msgs, m.1 < vars.length)
    (henv : ∀ m ∈ msgs, (vars.getD m.1 0).natAbs ≤ 127 * 255) :
    ∃ msgs', (if amin then layerAmin cfg else layerApprox cfg) msgs vars = some (msgs', wbFold msgs msgs' vars) ∧
      msgs'.map Prod.fst = msgs.map Prod.fst ∧ Bounded msgs' := by
  have hext := extrinsics_eq msgs vars hb hr henv
  cases amin
  · obtain ⟨ext, emitted, h1, h2, h3⟩ := layer_approx_all C05.checkFacts cfg msgs vars hb hd hn hr henv
    rw [hext] at h1
    cases Option.some.inj h1
    rw [extMsgs_zip] at h2
    obtain ⟨out, ho, hf, hbo⟩ := C05.checkFacts.approx cfg (extMsgs msgs vars) (extMsgs_bounded _ _)
      (by simpa [extMsgs] using hd) (by rw [extMsgs_fst]; exact hn)
    rw [h2] at ho
    cases Option.some.inj ho
    exact ⟨emitted, h3, by rw [hf, extMsgs_fst], hbo⟩
  · obtain ⟨ext, emitted, msgs', h1, h2, h3, h4⟩ := layer_amin_all C05.checkFacts cfg msgs vars hb hd hn hr henv
    rw [hext] at h1
    cases Option.some.inj h1
    rw [extMsgs_zip] at h2
    obtain ⟨out, ho, _, hbo⟩ := C05.checkFacts.amin cfg (extMsgs msgs vars) (extMsgs_bounded _ _)
      (by simpa [extMsgs] using hd) (by rw [extMsgs_fst]; exact hn)
    rw [h2] at ho
    cases Option.some.inj ho
    refine ⟨msgs', h4, by rw [h3]; exact map_fst_map msgs _, ?_⟩
    intro m hm
    rw [h3] at hm
    obtain ⟨m0, _, rfl⟩ := List.mem_map.1 hm
    exact val_bound emitted m0.1 hbo

/-! ### sums over a column -/

theorem sum_map_update (l : List Nat) (hn : l.Nodup) (f g : Nat → Int) (c : Nat)
    (hfg : ∀ r, r ≠ c → g r = f r) :
    (l.map g).sum = (l.map f).sum + (if c ∈ l then g c - f c else 0) := by
  induction l with
  | nil => simp
  | cons a l ih =>
    simp only [List.nodup_cons] at hn
    simp only [List.map_cons, List.sum_cons, ih hn.2, List.mem_cons]
    by_cases e : a = c
    · subst e
      simp only [true_or, if_true, hn.1, if_false]
      omega
    · have e' : ¬ c = a := fun h => e h.symm
      simp only [e', false_or, hfg a e]
      omega

theorem sum_map_zero (l : List Nat) (f : Nat → Int) (h : ∀ r ∈ l, f r = 0) : (l.map f).sum = 0 := by
  induction l with
  | nil => rfl
  | cons a l ih =>
    simp only [List.map_cons, List.sum_cons, h a List.mem_cons_self,
      ih (fun r hr => h r (List.mem_cons_of_mem _ hr))]
    rfl

theorem getD_set_store (rcv : List (List (Nat × Int))) (c r : Nat) (x : List (Nat × Int)) (hne : r ≠ c) :
    (rcv.set c x).getD r [] = rcv.getD r [] := by
  simp [List.getD_eq_getElem?_getD, List.getElem?_set_ne (Ne.symm hne)]

theorem getD_set_store_self (rcv : List (List (Nat × Int))) (c : Nat) (x : List (Nat × Int)) (h : c < rcv.length) :
    (rcv.set c x).getD c [] = x := by
  simp [List.getD_eq_getElem?_getD, List.getElem?_set_self h]

theorem filterMap_congr_mem {α β : Type} (f g : α → Option β) (l : List α) (h : ∀ x ∈ l, f x = g x) :
    l.filterMap f = l.filterMap g := by
  induction l with
  | nil => rfl
  | cons a t ih =>
    simp only [List.filterMap_cons, h a List.mem_cons_self]
    rw [ih (fun x hx => h x (List.mem_cons_of_mem _ hx))]

/-! ### the layered invariant -/

/-- sum of the messages currently stored for variable `v` (over the checks of column `v`) -/
def contrib (h : SM) (rcv : List (List (Nat × Int))) (v : Nat) : Int :=
  ((h.col v).map (fun c => val (rcv.getD c []) v)).sum

/-- "var[v] = input[v] + Σ (messages currently stored for v), all inputs and messages in [-127, 127]" -/
def okSt (h : SM) (rcv : List (List (Nat × Int))) (vars : List Int) : Prop :=
  Store.HasShape rcv h.rows ∧ vars.length = h.ncols ∧ (∀ l ∈ rcv, Bounded l) ∧
  ∃ input : List Int, input.length = h.ncols ∧ (∀ x ∈ input, -127 ≤ x ∧ x ≤ 127) ∧
    ∀ v, v < h.ncols → vars.getD v 0 = input.getD v 0 + contrib h rcv v

theorem shape_length {rcv : List (List (Nat × Int))} {h : SM} (hs : Store.HasShape rcv h.rows) :
    rcv.length = h.nrows := by
  have := congrArg List.length hs
  simpa [SM.nrows] using this

theorem shape_row {rcv : List (List (Nat × Int))} {h : SM} (hs : Store.HasShape rcv h.rows) (c : Nat) :
    (rcv.getD c []).map Prod.fst = h.row c := by
  unfold Store.HasShape at hs
  unfold SM.row
  rw [← hs]
  simp only [List.getD_eq_getElem?_getD, List.getElem?_map]
  cases rcv[c]? <;> rfl

theorem getD_bounded {rcv : List (List (Nat × Int))} (hb : ∀ l ∈ rcv, Bounded l) (c : Nat) :
    Bounded (rcv.getD c []) := by
  rw [List.getD_eq_getElem?_getD]
  cases hc : rcv[c]? with
  | none => intro m hm; cases hm
  | some l => exact hb l (List.mem_of_getElem? hc)

theorem contrib_bound (h : SM) (rcv : List (List (Nat × Int))) (hb : ∀ l ∈ rcv, Bounded l) (v : Nat) :
    -(127 * ((h.col v).length : Int)) ≤ contrib h rcv v ∧ contrib h rcv v ≤ 127 * ((h.col v).length : Int) := by
  have := sum_bound ((h.col v).map (fun c => val (rcv.getD c []) v)) (by
    intro x hx
    obtain ⟨c, _, rfl⟩ := List.mem_map.1 hx
    exact val_bound _ _ (getD_bounded hb c))
  rw [List.length_map] at this
  exact this

/-- the envelope: `|var[v]| ≤ 127·(deg v + 1)` -/
theorem okSt_bound {h : SM} {rcv : List (List (Nat × Int))} {vars : List Int} (ok : okSt h rcv vars) :
    (∀ v, v < h.ncols → (vars.getD v 0).natAbs ≤ 127 * ((h.col v).length + 1)) ∧ (∀ l ∈ rcv, Bounded l) := by
  obtain ⟨_, _, hb, input, hil, hib, hsum⟩ := ok
  refine ⟨fun v hv => ?_, hb⟩
  have h1 := contrib_bound h rcv hb v
  have h2 : -127 ≤ input.getD v 0 ∧ input.getD v 0 ≤ 127 := by
    rw [List.getD_eq_getElem?_getD, List.getElem?_eq_getElem (by omega)]
    exact hib _ (List.getElem_mem _)
  rw [hsum v hv]
  omega

theorem okSt_init (h : SM) (llrs : List UInt64) (hlen : llrs.length = h.ncols) :
    okSt h (Store.blank (0 : Int) h.rows) (llrs.map quantize) := by
  refine ⟨hr_blank_shape _ _, by simpa using hlen, ?_, llrs.map quantize, by simpa using hlen, ?_, ?_⟩
  · intro l hl m hm
    simp only [Store.blank, List.mem_map] at hl
    obtain ⟨row, _, rfl⟩ := hl
    obtain ⟨j, _, rfl⟩ := List.mem_map.1 hm
    simp
  · intro x hx
    obtain ⟨b, _, rfl⟩ := List.mem_map.1 hx
    exact (quantize_spec_all b).1
  · intro v _
    have : contrib h (Store.blank (0 : Int) h.rows) v = 0 := by
      apply sum_map_zero
      intro c _
      simp only [Store.blank, List.getD_eq_getElem?_getD, List.getElem?_map]
      cases h.rows[c]? with
      | none => rfl
      | some row => exact val_blank row v
    rw [this]; omega

theorem okSt_layer (amin : Bool) (cfg : Cfg) (h : SM) (hinv : h.Inv)
    (hrow : ∀ r, r < h.nrows → 2 ≤ (h.row r).length) (hcol : ∀ c, c < h.ncols → (h.col c).length ≤ 254)
    (rcv : List (List (Nat × Int))) (vars : List Int) (c : Nat) (ok : okSt h rcv vars) (hc : c < h.nrows) :
    ∃ msgs' vars', (if amin then layerAmin cfg else layerApprox cfg) (rcv.getD c []) vars = some (msgs', vars') ∧
      msgs'.map Prod.fst = h.row c ∧ vars'.length = vars.length ∧ okSt h (rcv.set c msgs') vars' := by
  have hbnd := (okSt_bound ok).1
  obtain ⟨hs, hvl, hb, input, hil, hib, hsum⟩ := ok
  have hfst := shape_row hs c
  have hrl := shape_length hs
  have hmem : ∀ m ∈ rcv.getD c [], m.1 ∈ h.row c := fun m hm => hfst ▸ List.mem_map.2 ⟨m, hm, rfl⟩
  have hrng : ∀ m ∈ rcv.getD c [], m.1 < vars.length := fun m hm => by
    rw [hvl]; exact (hinv.1 c m.1 (hmem m hm)).2.1
  obtain ⟨msgs', hrule, hf', hb'⟩ := layer_step amin cfg (rcv.getD c []) vars (getD_bounded hb c)
    (by have := hrow c hc; rw [← hfst, List.length_map] at this; exact this)
    (hfst ▸ hinv.2.2.1 c) hrng
    (fun m hm => by
      have hv := (hinv.1 c m.1 (hmem m hm)).2.1
      have := hbnd m.1 hv; have := hcol m.1 hv
      omega)
  have hb2 : ∀ l ∈ rcv.set c msgs', Bounded l := by
    intro l hl
    rcases List.mem_or_eq_of_mem_set hl with hl | rfl
    · exact hb l hl
    · exact hb'
  refine ⟨msgs', _, hrule, hf'.trans hfst, wbFold_length _ _ _,
    hr_set_shape rcv h.rows hs c msgs' (hf'.trans hfst), (wbFold_length _ _ _).trans hvl, hb2,
    input, hil, hib, ?_⟩
  intro v hv
  rw [wbFold_getD _ _ _ hf' (hfst ▸ hinv.2.2.1 c) hrng, hsum v hv]
  have hupd : contrib h (rcv.set c msgs') v = contrib h rcv v +
      (if c ∈ h.col v then val ((rcv.set c msgs').getD c []) v - val (rcv.getD c []) v else 0) :=
    sum_map_update (h.col v) (hinv.2.2.2 v) _ _ c (fun r hne => by rw [getD_set_store _ _ _ _ hne])
  rw [hupd, getD_set_store_self _ _ _ (hrl ▸ hc)]
  by_cases hcv : c ∈ h.col v
  · simp only [hcv, if_true]; omega
  · have hnot : v ∉ h.row c := fun hm => hcv (hinv.1 c v hm).2.2
    simp only [hcv, if_false]
    rw [val_of_not_mem _ _ (hfst ▸ hnot), val_of_not_mem _ _ ((hf'.trans hfst) ▸ hnot)]
    omega

/-- the layered contract for the 8-bit arithmetics -/
def wellBehavedLayer (amin : Bool) (cfg : Cfg) (h : SM) (hinv : h.Inv)
    (hrow : ∀ r, r < h.nrows → 2 ≤ (h.row r).length) (hcol : ∀ c, c < h.ncols → (h.col c).length ≤ 254) :
    WellBehavedLayer (mkArith amin cfg) h where
  okState := okSt h
  init_ok := fun llrs hlen => okSt_init h llrs hlen
  layer_ok := fun rcv vars c ok _ _ hc => okSt_layer amin cfg h hinv hrow hcol rcv vars c ok hc

end LdpcV.I8
