/-
EchelonLemmas3 — `placeColumns` on an echelon form with `n` pivots: the assertions never fail and the
placement list is `(σ 0, 0), (σ 1, 1), …, (σ (m-1), m-1)` with `σ` a permutation of the columns that
sends the pivot column of row `i` to `m - n + i`.
-/
import LdpcV.Lemmas.EchelonLemmas2
namespace LdpcV.Lin

theorem e_scan_zero (a : Mat) (n m j s k : Nat) (acc : List (Nat × Nat)) :
    placeColumns.rows.scan a n m j 0 s k acc = none := rfl

theorem e_scan_succ (a : Mat) (n m j f s k : Nat) (acc : List (Nat × Nat)) :
    placeColumns.rows.scan a n m j (f + 1) s k acc =
      if a.get j s = false then
        (if k < m - n then placeColumns.rows.scan a n m j f (s + 1) (k + 1) ((k, s) :: acc) else none)
      else some (s + 1, k, (m - n + j, s) :: acc) := rfl

theorem e_rows_zero (a : Mat) (n m j s k : Nat) (acc : List (Nat × Nat)) :
    placeColumns.rows a n m 0 j s k acc = some (s, k, acc) := rfl

theorem e_rows_succ (a : Mat) (n m rem j s k : Nat) (acc : List (Nat × Nat)) :
    placeColumns.rows a n m (rem + 1) j s k acc =
      match placeColumns.rows.scan a n m j (m - s) s k acc with
      | none => none
      | some (j0', k', acc') => placeColumns.rows a n m rem (j + 1) j0' k' acc' := rfl

/-- state of the placement loop: `j` pivot rows done, columns `0..s` consumed, `k` free columns written -/
structure e_PInv (n m : Nat) (p : Nat → Nat) (j s k : Nat) (acc : List (Nat × Nat)) : Prop where
  src : acc.map Prod.snd = (List.range s).reverse
  cnt : k + j = s
  dst : (acc.map Prod.fst).Perm (List.range k ++ (List.range j).map (fun i => m - n + i))
  piv : ∀ i, i < j → (m - n + i, p i) ∈ acc

theorem e_scan_spec (a : Mat) (n m jj : Nat) (p : Nat → Nat) (he : e_Ech a.get jj n p) (hjj : jj ≤ m)
    (j : Nat) (hj : j < n) (d : Nat) :
    ∀ (fu s k : Nat) (acc : List (Nat × Nat)), p j - s = d → s ≤ p j → p j - s < fu →
      e_PInv n m p j s k acc →
      ∃ k' acc', placeColumns.rows.scan a n m j fu s k acc = some (p j + 1, k', acc') ∧
        e_PInv n m p (j + 1) (p j + 1) k' acc' := by
  induction d with
  | zero =>
    intro fu s k acc hd hs hfu hinv
    have hsp : s = p j := by omega
    obtain ⟨fu, rfl⟩ : ∃ f, fu = f + 1 := ⟨fu - 1, by omega⟩
    rw [e_scan_succ, hsp, he.pone j hj]
    simp only [Bool.true_eq_false, if_false]
    refine ⟨k, _, rfl, ?_, ?_, ?_, ?_⟩
    · simp only [List.map_cons, hinv.src, hsp, List.range_succ, List.reverse_append,
        List.reverse_cons, List.reverse_nil, List.nil_append, List.cons_append]
    · have := hinv.cnt; omega
    · simp only [List.map_cons, List.range_succ, List.map_append, List.map_nil]
      rw [← List.append_assoc]
      exact (List.Perm.cons _ hinv.dst).trans (List.perm_append_singleton _ _).symm
    · intro i hi
      by_cases hij : i = j
      · subst hij; exact List.mem_cons_self ..
      · exact List.mem_cons_of_mem _ (hinv.piv i (by omega))
  | succ d ih =>
    intro fu s k acc hd hs hfu hinv
    obtain ⟨fu, rfl⟩ : ∃ f, fu = f + 1 := ⟨fu - 1, by omega⟩
    have hz : a.get j s = false := he.pzero j s hj (by omega)
    have hroom := he.room hjj j hj
    have hcnt := hinv.cnt
    have hk : k < m - n := by omega
    rw [e_scan_succ, hz]
    simp only [if_true, hk]
    apply ih fu (s + 1) (k + 1) ((k, s) :: acc) (by omega) (by omega) (by omega)
    refine ⟨?_, by omega, ?_, ?_⟩
    · simp only [List.map_cons, hinv.src, List.range_succ, List.reverse_append,
        List.reverse_cons, List.reverse_nil, List.nil_append, List.cons_append]
    · simp only [List.map_cons, List.range_succ, List.append_assoc, List.cons_append, List.nil_append]
      exact (List.Perm.cons _ hinv.dst).trans List.perm_middle.symm
    · intro i hi
      exact List.mem_cons_of_mem _ (hinv.piv i hi)

theorem e_rows_spec (a : Mat) (n m jj : Nat) (p : Nat → Nat) (he : e_Ech a.get jj n p) (hjj : jj ≤ m)
    (rem : Nat) :
    ∀ (j s k : Nat) (acc : List (Nat × Nat)), j + rem = n → s ≤ m → (j < n → s ≤ p j) →
      e_PInv n m p j s k acc →
      ∃ s' k' acc', placeColumns.rows a n m rem j s k acc = some (s', k', acc') ∧ s' ≤ m ∧
        e_PInv n m p n s' k' acc' := by
  induction rem with
  | zero =>
    intro j s k acc hjn hsm _ hinv
    have : j = n := by omega
    subst this
    exact ⟨s, k, acc, rfl, hsm, hinv⟩
  | succ rem ih =>
    intro j s k acc hjn hsm hsp hinv
    have hj : j < n := by omega
    have hpm : p j < m := Nat.lt_of_lt_of_le (he.plt j hj) hjj
    obtain ⟨k', acc', h1, h2⟩ :=
      e_scan_spec a n m jj p he hjj j hj (p j - s) (m - s) s k acc rfl (hsp hj) (by have := hsp hj; omega) hinv
    rw [e_rows_succ, h1]
    simp only []
    apply ih (j + 1) (p j + 1) k' acc' (by omega) (by omega) ?_ h2
    intro hj1
    have := he.pmono j (j + 1) (by omega) hj1
    omega

theorem e_rest_eq (k s m : Nat) :
    ((List.range (m - s)).map (· + s)).zipIdx.map (fun q => (k + q.2, q.1)) =
      (List.range (m - s)).map (fun t => (k + t, t + s)) := by
  apply List.ext_getElem?
  intro i
  simp only [List.getElem?_map, List.getElem?_zipIdx]
  by_cases hi : i < m - s <;> simp [hi]

/-- `placeColumns` on an echelon form with `n` pivots -/
theorem e_placeColumns_spec (a : Mat) (n m jj : Nat) (p : Nat → Nat) (he : e_Ech a.get jj n p)
    (hjj : jj ≤ m) (hnm : n ≤ m) :
    ∃ pl, placeColumns a n m = some pl ∧ pl.map Prod.snd = List.range m ∧
      (pl.map Prod.fst).Perm (List.range m) ∧ ∀ i, i < n → (m - n + i, p i) ∈ pl := by
  have hinv0 : e_PInv n m p 0 0 0 [] := ⟨rfl, rfl, by simp, fun i hi => by omega⟩
  obtain ⟨s, k, acc, h1, h2, h3⟩ :=
    e_rows_spec a n m jj p he hjj n 0 0 0 [] (by omega) (by omega) (fun _ => by omega) hinv0
  have hcnt := h3.cnt
  unfold placeColumns
  rw [h1]
  simp only [List.length_map, List.length_range]
  rw [if_pos (by omega), e_rest_eq]
  refine ⟨_, rfl, ?_, ?_, ?_⟩
  · rw [List.map_append, List.map_reverse, h3.src, List.reverse_reverse, List.map_map]
    have : m = s + (m - s) := by omega
    conv => rhs; rw [this, List.range_add]
    congr 1
    apply List.map_congr_left
    intro t _; simp; omega
  · rw [List.map_append, List.map_reverse, List.map_map]
    have e1 : m = (m - n) + n := by omega
    have e2 : m - n = k + (m - s) := by omega
    have hr : List.range m = (List.range k ++ (List.range (m - s)).map (fun x => k + x)) ++
        (List.range n).map (fun x => m - n + x) := by
      conv => lhs; rw [e1, List.range_add]
      conv => lhs; lhs; rw [e2, List.range_add]
    rw [hr]
    have hp1 := (List.reverse_perm (acc.map Prod.fst)).trans h3.dst
    refine (List.Perm.append_right _ hp1).trans ?_
    rw [List.append_assoc, List.append_assoc]
    refine List.Perm.append_left _ ?_
    have : (Prod.fst ∘ fun t => (k + t, t + s)) = fun x => k + x := by funext t; rfl
    rw [this]
    exact List.perm_append_comm
  · intro i hi
    exact List.mem_append_left _ (List.mem_reverse.mpr (h3.piv i hi))

end LdpcV.Lin
