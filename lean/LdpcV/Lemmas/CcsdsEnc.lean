/-
Helper lemmas (CcsdsEnc) for LdpcV/Props/C07Enc.lean.

Layout:
* CcsdsEnc1 — square matrices: independent rows ⇒ trivial right kernel (from the row echelon form of C09);
              bits of `bitsOfRow` / of a selected xor; the bridge `IndepBits` ⇒ `Nonsingular (tailMat h)`
* CcsdsEnc2 — `colsOfRows` is the transposed adjacency; `smOf n rows` satisfies `SM.Inv`
* this file — the AR4JA matrix objects: well-formedness, dimensions, and "full tail rank ⇒ the encoder accepts"
-/
import LdpcV.Lemmas.CcsdsEnc1
import LdpcV.Lemmas.CcsdsEnc2
namespace LdpcV.CcsdsEnc
open LdpcV LdpcV.Ccsds LdpcV.Lin

theorem ar4ja_smOf_inv (t : Tables) (rate mlog : Nat) (hm : 2 ≤ mlog) (hr : rate ≤ 2) :
    (C07Girth.smOf (ar4jaNcols rate mlog) (ar4jaRows t rate mlog)).Inv := by
  have hd := (C07.ar4ja_dims t rate mlog hm hr).2
  exact smOf_inv _ _ (fun row h => (hd row h).1) (fun row h => (hd row h).2)

theorem ar4ja_smOf_nrows (t : Tables) (rate mlog : Nat) (hm : 2 ≤ mlog) (hr : rate ≤ 2) :
    (C07Girth.smOf (ar4jaNcols rate mlog) (ar4jaRows t rate mlog)).nrows = 3 * 2 ^ mlog := by
  rw [smOf_nrows]; exact (C07.ar4ja_dims t rate mlog hm hr).1

theorem three_le_ncols (rate mlog : Nat) : 3 * 2 ^ mlog ≤ ar4jaNcols rate mlog := by
  unfold ar4jaNcols
  rw [Nat.mul_comm 3]
  exact Nat.mul_le_mul_left _ (by omega)

/-- a full-rank tail (in the bitset form of the native rank facts) makes `Encoder::from_h` succeed -/
theorem ar4ja_accepts_of_rank (t : Tables) (rate mlog : Nat) (hm : 2 ≤ mlog) (hr : rate ≤ 2)
    (hrank : rankBits ((ar4jaRows t rate mlog).map (fun r =>
      bitsOfRow r (ar4jaNcols rate mlog - 3 * 2 ^ mlog) (ar4jaNcols rate mlog))) = 3 * 2 ^ mlog) :
    ∃ e, fromH (C07Girth.smOf (ar4jaNcols rate mlog) (ar4jaRows t rate mlog)) = .ok e := by
  have hinv := ar4ja_smOf_inv t rate mlog hm hr
  have hnr := ar4ja_smOf_nrows t rate mlog hm hr
  have hnc := smOf_ncols (ar4jaNcols rate mlog) (ar4jaRows t rate mlog)
  have hone : 1 ≤ 3 * 2 ^ mlog := by have := Nat.two_pow_pos mlog; omega
  have hle := three_le_ncols rate mlog
  have hlen := (C07.ar4ja_dims t rate mlog hm hr).1
  have hns : Nonsingular (tailMat (C07Girth.smOf (ar4jaNcols rate mlog) (ar4jaRows t rate mlog))) := by
    apply tail_nonsingular_of_indepBits' _ (by rw [hnr, hnc]; exact hle)
    rw [hnr, hnc]
    apply C07.rankBits_full_indep
    rw [List.length_map]
    exact hrank.trans hlen.symm
  cases hf : fromH (C07Girth.smOf (ar4jaNcols rate mlog) (ar4jaRows t rate mlog)) with
  | ok e => exact ⟨e, rfl⟩
  | err => exact absurd hns (C02.fromH_err_singular _ hinv (by rw [hnr]; exact hone) (by rw [hnr, hnc]; exact hle) hf)
  | panic => exact absurd hf (C02.fromH_no_panic _ hinv (by rw [hnr]; exact hone) (by rw [hnr, hnc]; exact hle))

end LdpcV.CcsdsEnc
