/-
Helper lemmas for C09 `code_unchanged`: a column permutation of a sparse matrix (with the mirror
invariant) maps the code to the coordinate-permuted code.

* `syndromeOK_iff`          : `rows.all (parityOK w)` as `∀ r < nrows, parityOK w (row r)`
* `row_count_eq_col_count`  : the number of set bits on a row list = the number of columns `c < ncols`
                              whose column list contains the row and whose bit is set
* `count_perm_reindex`      : counting over `range n` = counting over `σ` re-indexed, `σ` a permutation
* `syndromeOK_colperm`      : the statement used by `LdpcV/Props/C09.lean`
-/
import LdpcV.Lemmas.SparseLemmas
import LdpcV.Model.Decoder
namespace LdpcV
open SM

theorem syndromeOK_iff (h : SM) (w : List Bool) :
    syndromeOK h w = true ↔ ∀ r, r < h.nrows → parityOK w (h.row r) = true := by
  simp only [syndromeOK, List.all_eq_true, SM.nrows, SM.row]
  constructor
  · intro H r hr
    have : h.rows.getD r [] = h.rows[r] := by simp [List.getD_eq_getElem?_getD, hr]
    rw [this]; exact H _ (List.getElem_mem hr)
  · intro H x hx
    obtain ⟨i, hi, rfl⟩ := List.getElem_of_mem hx
    have := H i hi
    simpa [List.getD_eq_getElem?_getD, hi] using this

theorem row_count_eq_col_count (h : SM) (hinv : h.Inv) (w : List Bool) (r : Nat) :
    ((h.row r).filter (fun c => w.getD c false)).length =
      ((List.range h.ncols).filter (fun c => (h.col c).contains r && w.getD c false)).length := by
  apply List.Perm.length_eq
  rw [List.perm_ext_iff_of_nodup (nodup_filter _ (hinv.2.2.1 r)) (nodup_filter _ List.nodup_range)]
  intro a
  simp only [List.mem_filter, List.mem_range, Bool.and_eq_true, List.contains_iff_mem]
  constructor
  · rintro ⟨ha, hw⟩; exact ⟨(hinv.1 r a ha).2.1, (hinv.1 r a ha).2.2, hw⟩
  · rintro ⟨_, ha, hw⟩; exact ⟨(hinv.2.1 r a ha).2.2, hw⟩

/-- a permutation of `range n`, as the list of its values, is `range n` mapped through its own lookup -/
theorem perm_range_eq_map (σ : List Nat) (n : Nat) (hσ : σ.Perm (List.range n)) :
    σ = (List.range n).map (fun c => σ.getD c 0) := by
  have hl : σ.length = n := by simpa using hσ.length_eq
  apply List.ext_getElem
  · simp [hl]
  · intro i h1 h2
    simp [List.getD_eq_getElem?_getD, h1]

theorem count_perm_reindex (σ : List Nat) (n : Nat) (hσ : σ.Perm (List.range n)) (q : Nat → Bool) :
    ((List.range n).filter q).length =
      ((List.range n).filter (fun c => q (σ.getD c 0))).length := by
  have h1 : ((List.range n).filter q).length = (σ.filter q).length :=
    (hσ.filter q).length_eq.symm
  rw [h1]
  conv => lhs; rw [perm_range_eq_map σ n hσ]
  rw [List.filter_map, List.length_map]
  rfl

/-- the permuted word read at `σ c` is the original word read at `c` -/
theorem permWord_getD (σ : List Nat) (n : Nat) (hσ : σ.Perm (List.range n)) (w : List Bool)
    (c : Nat) (hc : c < n) :
    ((List.range n).map (fun j => w.getD (σ.idxOf j) false)).getD (σ.getD c 0) false = w.getD c false := by
  have hl : σ.length = n := by simpa using hσ.length_eq
  have hcl : c < σ.length := by omega
  have hnd : σ.Nodup := hσ.nodup_iff.mpr List.nodup_range
  have hget : σ.getD c 0 = σ[c] := by simp [List.getD_eq_getElem?_getD, hcl]
  have hlt : σ[c] < n := by
    have : σ[c] ∈ List.range n := hσ.mem_iff.mp (List.getElem_mem hcl)
    simpa using this
  rw [hget]
  simp only [List.getD_eq_getElem?_getD, List.getElem?_map, List.getElem?_range hlt, Option.map_some,
    Option.getD_some]
  rw [hnd.idxOf_getElem]

/-- column permutation ⇒ coordinate-permuted code -/
theorem syndromeOK_colperm (h g : SM) (hinv : h.Inv) (ginv : g.Inv)
    (hnr : g.nrows = h.nrows) (hnc : g.ncols = h.ncols)
    (σ : List Nat) (hσ : σ.Perm (List.range h.ncols))
    (hcol : ∀ c, c < h.ncols → g.col (σ.getD c 0) = h.col c) (w : List Bool) :
    syndromeOK g ((List.range h.ncols).map (fun j => w.getD (σ.idxOf j) false)) = syndromeOK h w := by
  rw [Bool.eq_iff_iff, syndromeOK_iff, syndromeOK_iff, hnr]
  have key : ∀ r, parityOK ((List.range h.ncols).map (fun j => w.getD (σ.idxOf j) false)) (g.row r)
      = parityOK w (h.row r) := by
    intro r
    unfold parityOK
    rw [row_count_eq_col_count g ginv, row_count_eq_col_count h hinv, hnc,
      count_perm_reindex σ h.ncols hσ]
    congr 3
    apply List.filter_congr
    intro c hc
    have hc' : c < h.ncols := by simpa using hc
    rw [hcol c hc', permWord_getD σ h.ncols hσ w c hc']
  constructor
  · intro H r hr; rw [← key]; exact H r hr
  · intro H r hr; rw [key]; exact H r hr

end LdpcV
