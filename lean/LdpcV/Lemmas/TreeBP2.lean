/-
Helper development for C03Tree, part 2: the algebra — the flooding messages are the log-ratios of the partition
functions of the computation tree (on ANY matrix with checks of weight ≥ 2; no forest hypothesis here).
-/
import LdpcV.Lemmas.TreeBP0
import LdpcV.Lemmas.BoxPlusLemmas
namespace LdpcV.TreeBP
open LdpcV

/-! ### lists without one entry -/

theorem mem_oth {l : List Nat} {x y : Nat} : y ∈ oth l x ↔ y ∈ l ∧ y ≠ x := by
  simp [oth]

theorem oth_nodup {l : List Nat} (hl : l.Nodup) (x : Nat) : (oth l x).Nodup :=
  List.Pairwise.sublist List.filter_sublist hl

theorem not_mem_oth (l : List Nat) (x : Nat) : x ∉ oth l x := by
  simp [oth]

theorem oth_eq_erase {l : List Nat} (hl : l.Nodup) (x : Nat) : oth l x = l.erase x :=
  (List.Nodup.erase_eq_filter hl x).symm

theorem oth_eq_self {l : List Nat} {x : Nat} (hx : x ∉ l) : oth l x = l := by
  unfold oth
  apply List.filter_eq_self.2
  intro a ha
  have : a ≠ x := fun e => hx (e ▸ ha)
  simpa using this

theorem oth_ne_nil {l : List Nat} (hn : l.Nodup) (h2 : 2 ≤ l.length) (x : Nat) : oth l x ≠ [] := by
  match l, hn, h2 with
  | a :: b :: rest, hn, _ =>
    have hab : a ≠ b := by
      intro e; subst e; simp at hn
    intro he
    have h1 : a ∉ oth (a :: b :: rest) x := by rw [he]; simp
    have h2 : b ∉ oth (a :: b :: rest) x := by rw [he]; simp
    simp only [mem_oth, List.mem_cons, true_or, or_true, true_and, not_not] at h1 h2
    exact hab (h1.trans h2.symm)

theorem sum_map_oth {l : List Nat} (hl : l.Nodup) {x : Nat} (hx : x ∈ l) (f : Nat → ℝ) :
    (l.map f).sum = f x + ((oth l x).map f).sum := by
  rw [oth_eq_erase hl, List.sum_map_erase f hx]

theorem perm_cons_oth {l : List Nat} (hl : l.Nodup) {x : Nat} (hx : x ∈ l) : l.Perm (x :: oth l x) := by
  rw [oth_eq_erase hl]
  exact List.perm_cons_erase hx

/-- the matrix facts used everywhere: a check in a column has that variable in its row, and ≥ 2 entries -/
theorem row_of_col {h : SM} (hinv : h.Inv) {c v : Nat} (hc : c ∈ h.col v) : v ∈ h.row c :=
  (hinv.2.1 c v hc).2.2

theorem col_of_row {h : SM} (hinv : h.Inv) {c v : Nat} (hv : v ∈ h.row c) : c ∈ h.col v :=
  (hinv.1 c v hv).2.2

theorem row_len {h : SM} (hinv : h.Inv) (hdeg : ∀ r ∈ h.rows, 2 ≤ r.length) {c v : Nat} (hc : c ∈ h.col v) :
    2 ≤ (h.row c).length := by
  have hlt : c < h.nrows := (hinv.2.1 c v hc).1
  apply hdeg
  unfold SM.row
  rw [List.getD_eq_getElem?_getD, List.getElem?_eq_getElem (by simpa [SM.nrows] using hlt)]
  exact List.getElem_mem _

theorem oth_row_ne_nil {h : SM} (hinv : h.Inv) (hdeg : ∀ r ∈ h.rows, 2 ≤ r.length) {c v : Nat}
    (hc : c ∈ h.col v) (x : Nat) : oth (h.row c) x ≠ [] :=
  oth_ne_nil (hinv.2.2.1 c) (row_len hinv hdeg hc) x

theorem nrows_not_mem_col {h : SM} (hinv : h.Inv) (v : Nat) : h.nrows ∉ h.col v := by
  intro hm
  have := (hinv.2.1 _ _ hm).1
  omega

/-! ### weights and XOR-convolution -/

theorem W_pos (lam : List ℝ) (u : Nat) (b : Bool) : 0 < W lam u b := by
  unfold W
  split
  · exact Real.exp_pos _
  · exact one_pos

theorem conv_diff (g : Nat → Bool → ℝ) (K : List Nat) :
    conv g K false - conv g K true = (K.map (fun u => g u false - g u true)).prod := by
  induction K with
  | nil => simp [conv]
  | cons u K ih =>
    simp only [conv, List.map_cons, List.prod_cons, ← ih, Bool.not_false, Bool.not_true]
    ring

theorem conv_add (g : Nat → Bool → ℝ) (K : List Nat) :
    conv g K false + conv g K true = (K.map (fun u => g u false + g u true)).prod := by
  induction K with
  | nil => simp [conv]
  | cons u K ih =>
    simp only [conv, List.map_cons, List.prod_cons, ← ih, Bool.not_false, Bool.not_true]
    ring

theorem conv_nonneg (g : Nat → Bool → ℝ) (K : List Nat) (hg : ∀ u ∈ K, ∀ b, 0 < g u b) (b : Bool) :
    0 ≤ conv g K b := by
  induction K generalizing b with
  | nil => unfold conv; split <;> norm_num
  | cons u K ih =>
    have h1 := hg u (by simp)
    have ih' := fun b => ih (fun u hu => hg u (by simp [hu])) b
    simp only [conv]
    have := mul_nonneg (h1 false).le (ih' b)
    have := mul_nonneg (h1 true).le (ih' (!b))
    linarith

theorem conv_total_pos (g : Nat → Bool → ℝ) (K : List Nat) (hg : ∀ u ∈ K, ∀ b, 0 < g u b) :
    0 < conv g K false + conv g K true := by
  rw [conv_add]
  apply List.prod_pos
  intro a ha
  simp only [List.mem_map] at ha
  obtain ⟨u, hu, rfl⟩ := ha
  have := hg u hu false
  have := hg u hu true
  linarith

theorem conv_pos (g : Nat → Bool → ℝ) (K : List Nat) (hK : K ≠ []) (hg : ∀ u ∈ K, ∀ b, 0 < g u b) (b : Bool) :
    0 < conv g K b := by
  cases K with
  | nil => exact absurd rfl hK
  | cons u K =>
    have h1 := hg u (by simp)
    have hK' : ∀ u ∈ K, ∀ b, 0 < g u b := fun u hu => hg u (by simp [hu])
    have n1 := conv_nonneg g K hK' b
    have n2 := conv_nonneg g K hK' (!b)
    have tot := conv_total_pos g K hK'
    have tot' : 0 < conv g K b + conv g K (!b) := by
      cases b
      · simpa using tot
      · simpa [add_comm] using tot
    simp only [conv]
    rcases lt_or_eq_of_le n1 with hp | hz
    · have := mul_pos (h1 false) hp
      have := mul_nonneg (h1 true).le n2
      linarith
    · have hp : 0 < conv g K (!b) := by linarith
      have := mul_pos (h1 true) hp
      have := mul_nonneg (h1 false).le n1
      linarith

/-! ### the tanh rule on log-ratios -/

theorem tanh_half_log {z0 z1 : ℝ} (h0 : 0 < z0) (h1 : 0 < z1) :
    Real.tanh (1 / 2 * Real.log (z0 / z1)) = (z0 - z1) / (z0 + z1) := by
  rw [show 1 / 2 * Real.log (z0 / z1) = Real.log (z0 / z1) / 2 by ring, BoxL.tanh_half,
    Real.exp_log (div_pos h0 h1)]
  field_simp

theorem prod_map_div' (K : List Nat) (p q : Nat → ℝ) :
    (K.map (fun u => p u / q u)).prod = (K.map p).prod / (K.map q).prod := by
  induction K with
  | nil => simp
  | cons u K ih => simp only [List.map_cons, List.prod_cons, ih]; ring

/-- the check rule applied to log-ratios of positive weights gives the log-ratio of their XOR-convolution -/
theorem chk_log_ratio (g : Nat → Bool → ℝ) (K : List Nat) (hK : K ≠ []) (hg : ∀ u ∈ K, ∀ b, 0 < g u b)
    (x : Nat → ℝ) (hx : ∀ u ∈ K, x u = Real.log (g u false / g u true)) :
    2 * (1 / 2 * Real.log ((1 + (K.map (fun u => Real.tanh (1 / 2 * x u))).prod) /
      (1 - (K.map (fun u => Real.tanh (1 / 2 * x u))).prod))) =
    Real.log (conv g K false / conv g K true) := by
  have hp : (K.map (fun u => Real.tanh (1 / 2 * x u))).prod =
      (conv g K false - conv g K true) / (conv g K false + conv g K true) := by
    rw [conv_diff, conv_add, ← prod_map_div']
    congr 1
    apply List.map_congr_left
    intro u hu
    rw [hx u hu, tanh_half_log (hg u hu false) (hg u hu true)]
  have c0 := conv_pos g K hK hg false
  have c1 := conv_pos g K hK hg true
  rw [hp]
  have e : (1 + (conv g K false - conv g K true) / (conv g K false + conv g K true)) /
      (1 - (conv g K false - conv g K true) / (conv g K false + conv g K true)) =
      conv g K false / conv g K true := by
    have : conv g K false + conv g K true ≠ 0 := by positivity
    have c1' : conv g K true ≠ 0 := c1.ne'
    generalize conv g K false = a at *
    generalize conv g K true = b at *
    have e1 : 1 + (a - b) / (a + b) = 2 * a / (a + b) := by field_simp; ring
    have e2 : 1 - (a - b) / (a + b) = 2 * b / (a + b) := by field_simp; ring
    rw [e1, e2, div_div_div_cancel_right₀ this, mul_div_mul_left _ _ (two_ne_zero)]
  rw [e]
  ring

theorem sum_log_ratio (K : List Nat) (p q : Nat → ℝ) (hp : ∀ u ∈ K, 0 < p u) (hq : ∀ u ∈ K, 0 < q u) :
    (K.map (fun u => Real.log (p u / q u))).sum = Real.log ((K.map p).prod / (K.map q).prod) := by
  induction K with
  | nil => simp
  | cons u K ih =>
    have hp' : ∀ u ∈ K, 0 < p u := fun u hu => hp u (by simp [hu])
    have hq' : ∀ u ∈ K, 0 < q u := fun u hu => hq u (by simp [hu])
    have P : 0 < (K.map p).prod := List.prod_pos (by simpa using hp')
    have Q : 0 < (K.map q).prod := List.prod_pos (by simpa using hq')
    have pu := hp u (by simp)
    have qu := hq u (by simp)
    simp only [List.map_cons, List.sum_cons, List.prod_cons, ih hp' hq']
    rw [← Real.log_mul (by positivity) (by positivity)]
    congr 1
    field_simp

/-! ### the partition functions are positive and the flooding messages are their log-ratios -/

section
variable {h : SM} (hinv : h.Inv) (hdeg : ∀ r ∈ h.rows, 2 ≤ r.length) (lam : List ℝ)
include hinv hdeg

theorem Zv_pos (t v c : Nat) (b : Bool) : 0 < Zv h lam t v c b := by
  induction t generalizing v c b with
  | zero => exact W_pos lam v b
  | succ t ih =>
    simp only [Zv]
    apply mul_pos (W_pos lam v b)
    apply List.prod_pos
    intro a ha
    simp only [List.mem_map] at ha
    obtain ⟨c', hc', rfl⟩ := ha
    exact conv_pos _ _ (oth_row_ne_nil hinv hdeg (mem_oth.1 hc').1 v) (fun u _ b => ih u c' b) b

theorem Zc_pos (t c v : Nat) (hc : c ∈ h.col v) (b : Bool) : 0 < Zc h lam t c v b :=
  conv_pos _ _ (oth_row_ne_nil hinv hdeg hc v) (fun u _ b => Zv_pos hinv hdeg lam t u c b) b

theorem Ztot_pos (t v : Nat) (b : Bool) : 0 < Ztot h lam t v b := Zv_pos hinv hdeg lam t v _ b

omit hinv hdeg in
theorem lam_eq_log_W (v : Nat) : lamAt lam v = Real.log (W lam v false / W lam v true) := by
  simp only [W, Bool.false_eq_true, if_false, if_true]
  rw [one_div, ← Real.exp_neg, neg_neg, Real.log_exp]

/-- the check message computed from exact variable messages is exact -/
theorem chkMsg_exact (t : Nat) (x : Nat → Nat → ℝ) (c v : Nat) (hc : c ∈ h.col v)
    (hx : ∀ u ∈ h.row c, u ≠ v → x u c = Real.log (Zv h lam t u c false / Zv h lam t u c true)) :
    chkMsg h x c v = Real.log (Zc h lam t c v false / Zc h lam t c v true) := by
  unfold chkMsg Zc
  exact chk_log_ratio (fun u => Zv h lam t u c) _ (oth_row_ne_nil hinv hdeg hc v)
    (fun u _ b => Zv_pos hinv hdeg lam t u c b) (fun u => x u c)
    (fun u hu => hx u (mem_oth.1 hu).1 (mem_oth.1 hu).2)

/-- `λ_v + Σ` of exact check messages over a sublist of the column is the log-ratio of the product -/
theorem var_combine (t v : Nat) (K : List Nat) (hK : ∀ c ∈ K, c ∈ h.col v) :
    lamAt lam v + (K.map (fun c => Real.log (Zc h lam t c v false / Zc h lam t c v true))).sum =
      Real.log ((W lam v false * (K.map (fun c => Zc h lam t c v false)).prod) /
        (W lam v true * (K.map (fun c => Zc h lam t c v true)).prod)) := by
  rw [sum_log_ratio K (fun c => Zc h lam t c v false) (fun c => Zc h lam t c v true)
    (fun c hc => Zc_pos hinv hdeg lam t c v (hK c hc) false) (fun c hc => Zc_pos hinv hdeg lam t c v (hK c hc) true),
    lam_eq_log_W lam v]
  have P : 0 < (K.map (fun c => Zc h lam t c v false)).prod :=
    List.prod_pos (by
      intro a ha
      simp only [List.mem_map] at ha
      obtain ⟨c, hc, rfl⟩ := ha
      exact Zc_pos hinv hdeg lam t c v (hK c hc) false)
  have Q : 0 < (K.map (fun c => Zc h lam t c v true)).prod :=
    List.prod_pos (by
      intro a ha
      simp only [List.mem_map] at ha
      obtain ⟨c, hc, rfl⟩ := ha
      exact Zc_pos hinv hdeg lam t c v (hK c hc) true)
  have w0 := W_pos lam v false
  have w1 := W_pos lam v true
  rw [← Real.log_mul (by positivity) (by positivity)]
  congr 1
  field_simp

omit hinv hdeg in
theorem Zv_succ (t v c : Nat) (b : Bool) :
    Zv h lam (t + 1) v c b = W lam v b * ((oth (h.col v) c).map (fun c' => Zc h lam t c' v b)).prod := rfl

/-- extrinsic form of the variable rule, in terms of any exact check-message table -/
theorem ext_exact (t : Nat) (m : Nat → Nat → ℝ) (v c : Nat)
    (hm : ∀ c' ∈ h.col v, c' ≠ c → m c' v = Real.log (Zc h lam t c' v false / Zc h lam t c' v true)) :
    lamAt lam v + ((oth (h.col v) c).map (fun c' => m c' v)).sum =
      Real.log (Zv h lam (t + 1) v c false / Zv h lam (t + 1) v c true) := by
  rw [Zv_succ, Zv_succ, ← var_combine hinv hdeg lam t v (oth (h.col v) c) (fun c' hc' => (mem_oth.1 hc').1)]
  congr 2
  apply List.map_congr_left
  intro c' hc'
  exact hm c' (mem_oth.1 hc').1 (mem_oth.1 hc').2

theorem X_exact (t v c : Nat) (hc : c ∈ h.col v) :
    X h lam t v c = Real.log (Zv h lam t v c false / Zv h lam t v c true) := by
  induction t generalizing v c with
  | zero => exact lam_eq_log_W lam v
  | succ t ih =>
    have hm : ∀ c' ∈ h.col v, chkMsg h (X h lam t) c' v =
        Real.log (Zc h lam t c' v false / Zc h lam t c' v true) := fun c' hc' =>
      chkMsg_exact hinv hdeg lam t _ c' v hc' (fun u hu _ => ih u c' (col_of_row hinv hu))
    rw [← ext_exact hinv hdeg lam t (chkMsg h (X h lam t)) v c (fun c' hc' _ => hm c' hc')]
    simp only [X, totLlr]
    rw [sum_map_oth (hinv.2.2.2 v) hc (fun c' => chkMsg h (X h lam t) c' v)]
    ring

theorem M_exact (t c v : Nat) (hc : c ∈ h.col v) :
    M h lam (t + 1) c v = Real.log (Zc h lam t c v false / Zc h lam t c v true) :=
  chkMsg_exact hinv hdeg lam t _ c v hc (fun u hu _ => X_exact hinv hdeg lam t u c (col_of_row hinv hu))

theorem L_exact (t v : Nat) : L h lam t v = Real.log (Ztot h lam t v false / Ztot h lam t v true) := by
  cases t with
  | zero => exact lam_eq_log_W lam v
  | succ t =>
    unfold Ztot
    rw [← ext_exact hinv hdeg lam t (chkMsg h (X h lam t)) v h.nrows
      (fun c' hc' _ => M_exact hinv hdeg lam t c' v hc')]
    simp only [L, totLlr]
    rw [oth_eq_self (nrows_not_mem_col hinv v)]

end

end LdpcV.TreeBP
