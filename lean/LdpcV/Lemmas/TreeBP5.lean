/-
Helper development for C03Tree, part 5: graph-theoretic facts about computation trees in a forest.

* `NB`            — non-backtracking chains of the Tanner graph
* `NB.nodup`      — in a forest every non-backtracking chain is `Nodup`
* `NB.unique`     — in a forest two non-backtracking chains with the same end points are equal
* `nodup_tree`    — in a forest no variable occurs twice in a computation tree
* `lv_of_dist`    — a distance bound gives a height bound of the computation tree
-/
import LdpcV.Lemmas.GraphLemmas
import LdpcV.Lemmas.TreeBP0
namespace LdpcV.TreeBP
open LdpcV LdpcV.Graph

/-! ### non-backtracking chains -/

/-- consecutive nodes are adjacent and no step is immediately reversed -/
def NB (h : SM) : List Node → Prop
  | [] => True
  | a :: t => (∀ b, t.head? = some b → Adj h a b) ∧ (∀ c, t.tail.head? = some c → a ≠ c) ∧ NB h t

theorem NB.tail {h : SM} {a : Node} {t : List Node} (hn : NB h (a :: t)) : NB h t := hn.2.2

theorem NB.single (h : SM) (a : Node) : NB h [a] := by simp [NB]

theorem NB.cons2 {h : SM} {a b : Node} {t : List Node} :
    NB h (a :: b :: t) ↔ Adj h a b ∧ (∀ c, t.head? = some c → a ≠ c) ∧ NB h (b :: t) := by
  simp [NB]

theorem NB.chain {h : SM} : ∀ l : List Node, NB h l → Chain h l
  | [], _ => trivial
  | _ :: t, hn => ⟨hn.1, NB.chain t hn.2.2⟩

theorem NB.pre {h : SM} : ∀ p q : List Node, NB h (p ++ q) → NB h p
  | [], _, _ => trivial
  | [a], _, _ => NB.single h a
  | a :: b :: p, q, hn => by
    have ih := NB.pre (b :: p) q hn.2.2
    rw [List.cons_append, List.cons_append, NB.cons2] at hn
    rw [NB.cons2]
    refine ⟨hn.1, ?_, ih⟩
    intro c hc
    apply hn.2.1
    cases p <;> simp_all

theorem NB.joint {h : SM} : ∀ (p : List Node) (z : Node) (q : List Node), NB h (p ++ z :: q) →
    ∀ y, p.getLast? = some y → Adj h y z
  | [], _, _, _, _, hy => by simp at hy
  | [a], z, q, hn, y, hy => by
    simp only [List.getLast?_singleton, Option.some.injEq] at hy
    subst hy
    exact hn.1 z rfl
  | a :: b :: p, z, q, hn, y, hy => by
    rw [List.getLast?_cons_cons] at hy
    exact NB.joint (b :: p) z q hn.2.2 y hy

theorem NB.glue {h : SM} : ∀ (p : List Node) (z : Node) (q : List Node), NB h (p ++ [z]) → NB h (z :: q) →
    (∀ x y, p.getLast? = some x → q.head? = some y → x ≠ y) → NB h (p ++ z :: q)
  | [], _, _, _, h2, _ => h2
  | [a], z, q, h1, h2, hj => by
    simp only [List.cons_append, List.nil_append] at h1 ⊢
    rw [NB.cons2] at h1 ⊢
    exact ⟨h1.1, fun c hc => hj a c rfl hc, h2⟩
  | a :: b :: p, z, q, h1, h2, hj => by
    have ih := NB.glue (b :: p) z q h1.2.2 h2 (fun x y hx hy => hj x y (by rw [List.getLast?_cons_cons]; exact hx) hy)
    rw [List.cons_append, List.cons_append, NB.cons2] at h1 ⊢
    refine ⟨h1.1, ?_, ih⟩
    intro c hc
    apply h1.2.1
    cases p <;> simp_all

theorem NB.reverse {h : SM} : ∀ l : List Node, NB h l → NB h l.reverse
  | [], _ => trivial
  | [a], _ => NB.single h a
  | a :: b :: t, hn => by
    have ih := NB.reverse (b :: t) hn.2.2
    rw [NB.cons2] at hn
    have e : (a :: b :: t).reverse = t.reverse ++ b :: [a] := by simp
    rw [e]
    refine NB.glue t.reverse b [a] (by simpa using ih) ?_ ?_
    · rw [NB.cons2]; exact ⟨hn.1.symm, by simp, NB.single h a⟩
    · intro x y hx hy
      simp only [List.getLast?_reverse] at hx
      simp only [List.head?_cons, Option.some.injEq] at hy
      subst hy
      exact fun e => hn.2.1 x hx e.symm

/-- a list with at least two entries that starts and ends with the same entry has a repetition -/
theorem not_nodup_of_loop {α : Type} : ∀ (l : List α) (b : α), l.head? = some b → l.getLast? = some b →
    2 ≤ l.length → ¬ l.Nodup
  | [], _, _, _, hl, _ => by simp at hl
  | [_], _, _, _, hl, _ => by simp at hl
  | a :: c :: t, b, hh, hg, _, hnd => by
    simp only [List.head?_cons, Option.some.injEq] at hh
    subst hh
    rw [List.getLast?_cons_cons] at hg
    exact (List.nodup_cons.1 hnd).1 (List.mem_of_getLast? hg)

/-- KEY LEMMA: in a forest every non-backtracking chain has distinct nodes -/
theorem NB.nodup {h : SM} (hf : IsForest h) : ∀ l : List Node, NB h l → l.Nodup
  | [], _ => List.nodup_nil
  | x :: r, hn => by
    have ih : r.Nodup := NB.nodup hf r hn.2.2
    refine List.nodup_cons.2 ⟨?_, ih⟩
    intro hx
    obtain ⟨r1, r2, rfl⟩ := List.append_of_mem hx
    have hx1 : x ∉ r1 := by
      intro hm
      have := (List.nodup_append.1 ih).2.2 x hm x (by simp)
      exact this rfl
    have hnb : NB h ((x :: r1) ++ x :: r2) := by simpa using hn
    have hpre : NB h (x :: r1) := NB.pre _ _ hnb
    have hnd : (x :: r1).Nodup := List.nodup_cons.2 ⟨hx1, (List.nodup_append.1 ih).1⟩
    have hlen : 3 ≤ (x :: r1).length := by
      match r1, hnb with
      | [], hnb => exact absurd rfl (hnb.1 x rfl).ne
      | [y], hnb => exact absurd rfl (hnb.2.1 x rfl)
      | _ :: _ :: _, _ => simp
    refine hf (x :: r1) (isCycle_of_chain _ hlen hnd (NB.chain _ hpre) ?_)
    intro a b ha hb
    simp only [List.head?_cons, Option.some.injEq] at hb
    subst hb
    exact NB.joint _ _ _ hnb a ha

/-- UNIQUENESS: in a forest a non-backtracking chain is determined by its end points -/
theorem NB.unique {h : SM} (hf : IsForest h) : ∀ l1 l2 : List Node, NB h l1 → NB h l2 →
    l1.head? = l2.head? → l1.getLast? = l2.getLast? → l1 = l2
  | [], l2, _, _, hh, _ => by
    cases l2 with
    | nil => rfl
    | cons _ _ => simp at hh
  | a :: t1, [], _, _, hh, _ => by simp at hh
  | a :: t1, a' :: t2, h1, h2, hh, hl => by
    simp only [List.head?_cons, Option.some.injEq] at hh
    subst hh
    match t1, t2, h1, h2, hl with
    | [], [], _, _, _ => rfl
    | [], y :: t2, _, h2, hl =>
      exfalso
      exact not_nodup_of_loop (a :: y :: t2) a rfl (by rw [← hl]; rfl) (by simp) (NB.nodup hf _ h2)
    | x :: t1, [], h1, _, hl =>
      exfalso
      exact not_nodup_of_loop (a :: x :: t1) a rfl (by rw [hl]; rfl) (by simp) (NB.nodup hf _ h1)
    | x :: t1, y :: t2, h1, h2, hl =>
      by_cases hxy : x = y
      · subst hxy
        rw [List.getLast?_cons_cons, List.getLast?_cons_cons] at hl
        rw [NB.unique hf (x :: t1) (x :: t2) h1.2.2 h2.2.2 rfl hl]
      · exfalso
        have hr := NB.reverse _ h1
        have e : (a :: x :: t1).reverse = (x :: t1).reverse ++ [a] := by simp
        rw [e] at hr
        have hw : NB h ((x :: t1).reverse ++ a :: y :: t2) := by
          refine NB.glue _ _ _ hr h2 ?_
          intro p q hp hq
          simp only [List.getLast?_reverse, List.head?_cons, Option.some.injEq] at hp hq
          subst hp; subst hq; exact hxy
        obtain ⟨b, hb⟩ : ∃ b, (a :: x :: t1).getLast? = some b := by
          cases hg : (a :: x :: t1).getLast? with
          | none => simp at hg
          | some b => exact ⟨b, rfl⟩
        refine not_nodup_of_loop _ b ?_ ?_ ?_ (NB.nodup hf _ hw)
        · rw [List.getLast?_cons_cons] at hb
          rw [List.head?_append_of_ne_nil _ (by simp), List.head?_reverse]
          exact hb
        · rw [List.getLast?_append_of_ne_nil _ (by simp), ← hl]
          exact hb
        · simp only [List.length_append, List.length_reverse, List.length_cons]; omega

/-! ### chains to the variables of a computation tree -/

theorem adj_col_row {h : SM} (hinv : h.Inv) {u c : Nat} (hc : c ∈ h.col u) : Adj h (.col u) (.row c) := by
  simp only [Adj, SM.mem_iff]
  exact (hinv.2.1 c u hc).2.2

theorem adj_row_col {h : SM} {u c : Nat} (hu : u ∈ h.row c) : Adj h (.row c) (.col u) := by
  simpa only [Adj, SM.mem_iff] using hu

theorem mem_oth5 {l : List Nat} {x y : Nat} : y ∈ oth l x ↔ y ∈ l ∧ y ≠ x := by
  simp [oth]

theorem nodup_oth5 {l : List Nat} (hl : l.Nodup) (x : Nat) : (oth l x).Nodup := hl.filter _

/-- one level down: variable `u`, check `c'`, variable `u'`, then a chain that does not return to `c'` -/
theorem NB.step {h : SM} (hinv : h.Inv) {u c' u' : Nat} {t : List Node} (hc : c' ∈ h.col u)
    (hu : u' ∈ h.row c') (hne : u' ≠ u) (hn : NB h (.col u' :: t))
    (h2 : ∀ y, t.head? = some y → y ≠ .row c') : NB h (.col u :: .row c' :: .col u' :: t) := by
  rw [NB.cons2, NB.cons2]
  refine ⟨adj_col_row hinv hc, ?_, adj_row_col hu, ?_, hn⟩
  · intro c hcc
    simp only [List.head?_cons, Option.some.injEq] at hcc
    subst hcc
    simpa using hne.symm
  · intro y hy e
    exact h2 y hy e.symm

/-- every variable of the computation tree of `u` (parent `c`) is reached from `u` by a non-backtracking
chain that does not start through `c` -/
theorem chain_of_mem {h : SM} (hinv : h.Inv) : ∀ (s u c w : Nat), w ∈ u :: Dv h s u c →
    ∃ t : List Node, NB h (.col u :: t) ∧ (∀ y, t.head? = some y → y ≠ .row c) ∧
      (Node.col u :: t).getLast? = some (.col w)
  | 0, u, c, w, hw => by
    simp only [Dv, List.mem_singleton] at hw
    subst hw
    exact ⟨[], NB.single h _, by simp, rfl⟩
  | s + 1, u, c, w, hw => by
    rcases List.mem_cons.1 hw with rfl | hw
    · exact ⟨[], NB.single h _, by simp, rfl⟩
    · simp only [Dv, List.mem_flatMap] at hw
      obtain ⟨c', hc', u', hu', hw'⟩ := hw
      obtain ⟨hc1, hc2⟩ := mem_oth5.1 hc'
      obtain ⟨hu1, hu2⟩ := mem_oth5.1 hu'
      obtain ⟨t, hn, h2, hl⟩ := chain_of_mem hinv s u' c' w hw'
      refine ⟨.row c' :: .col u' :: t, NB.step hinv hc1 hu1 hu2 hn h2, ?_, ?_⟩
      · intro y hy
        simp only [List.head?_cons, Option.some.injEq] at hy
        subst hy
        simpa using hc2
      · rw [List.getLast?_cons_cons, List.getLast?_cons_cons]; exact hl

/-- in a forest no variable occurs twice in a computation tree -/
theorem nodup_tree (h : SM) (hinv : h.Inv) (hf : IsForest h) (s u c : Nat) : (u :: Dv h s u c).Nodup := by
  induction s generalizing u c with
  | zero => simp [Dv]
  | succ s ih =>
    refine List.nodup_cons.2 ⟨?_, ?_⟩
    · -- the root does not reappear
      intro hm
      simp only [Dv, List.mem_flatMap] at hm
      obtain ⟨c', hc', u', hu', hw'⟩ := hm
      obtain ⟨hc1, _⟩ := mem_oth5.1 hc'
      obtain ⟨hu1, hu2⟩ := mem_oth5.1 hu'
      obtain ⟨t, hn, h2, hl⟩ := chain_of_mem hinv s u' c' u hw'
      have hnb := NB.step hinv hc1 hu1 hu2 hn h2
      refine not_nodup_of_loop _ (.col u) rfl ?_ (by simp) (NB.nodup hf _ hnb)
      rw [List.getLast?_cons_cons, List.getLast?_cons_cons]; exact hl
    · simp only [Dv]
      rw [List.nodup_flatMap]
      refine ⟨?_, ?_⟩
      · intro c' hc'
        obtain ⟨hc1, _⟩ := mem_oth5.1 hc'
        rw [List.nodup_flatMap]
        refine ⟨fun u' _ => ih u' c', ?_⟩
        refine List.Pairwise.imp_of_mem ?_ (nodup_oth5 (hinv.2.2.1 c') u)
        intro u1 u2 hu1 hu2 hne
        simp only [Function.onFun]
        rw [List.disjoint_left]
        intro w hw1 hw2
        obtain ⟨hu11, hu12⟩ := mem_oth5.1 hu1
        obtain ⟨hu21, hu22⟩ := mem_oth5.1 hu2
        obtain ⟨t1, hn1, h21, hl1⟩ := chain_of_mem hinv s u1 c' w hw1
        obtain ⟨t2, hn2, h22, hl2⟩ := chain_of_mem hinv s u2 c' w hw2
        have e := NB.unique hf _ _ (NB.step hinv hc1 hu11 hu12 hn1 h21).tail
          (NB.step hinv hc1 hu21 hu22 hn2 h22).tail rfl
          (by rw [List.getLast?_cons_cons, List.getLast?_cons_cons, hl1, hl2])
        simp only [List.cons.injEq, Node.col.injEq, true_and] at e
        exact hne e.1
      · refine List.Pairwise.imp_of_mem ?_ (nodup_oth5 (hinv.2.2.2 u) c)
        intro c1 c2 hc1 hc2 hne
        simp only [Function.onFun]
        rw [List.disjoint_left]
        intro w hw1 hw2
        obtain ⟨hc11, _⟩ := mem_oth5.1 hc1
        obtain ⟨hc21, _⟩ := mem_oth5.1 hc2
        obtain ⟨u1, hu1, hw1⟩ := List.mem_flatMap.1 hw1
        obtain ⟨u2, hu2, hw2⟩ := List.mem_flatMap.1 hw2
        obtain ⟨hu11, hu12⟩ := mem_oth5.1 hu1
        obtain ⟨hu21, hu22⟩ := mem_oth5.1 hu2
        obtain ⟨t1, hn1, h21, hl1⟩ := chain_of_mem hinv s u1 c1 w hw1
        obtain ⟨t2, hn2, h22, hl2⟩ := chain_of_mem hinv s u2 c2 w hw2
        have e := NB.unique hf _ _ (NB.step hinv hc11 hu11 hu12 hn1 h21)
          (NB.step hinv hc21 hu21 hu22 hn2 h22) rfl
          (by rw [List.getLast?_cons_cons, List.getLast?_cons_cons, List.getLast?_cons_cons,
            List.getLast?_cons_cons, hl1, hl2])
        simp only [List.cons.injEq, Node.row.injEq, true_and] at e
        exact hne e.1

/-! ### non-backtracking chains are shortest walks -/

theorem walk_of_nb {h : SM} (hinv : h.Inv) : ∀ (t : List Node) (a : Node), NB h (a :: t) → inRange h a = true →
    ∀ b, (a :: t).getLast? = some b → Walk h a b t.length
  | [], a, _, hr, b, hb => by
    simp only [List.getLast?_singleton, Option.some.injEq] at hb
    subst hb
    exact .nil a hr
  | x :: t, a, hn, _, b, hb => by
    have hax : Adj h a x := hn.1 x rfl
    rw [List.getLast?_cons_cons] at hb
    exact .cons hax (walk_of_nb hinv t x hn.2.2 (hax.inRange_right hinv) b hb)

/-- cancelling immediate reversals turns a walk into a non-backtracking chain that is not longer -/
theorem nb_of_walk {h : SM} {a b : Node} {n : Nat} (w : Walk h a b n) :
    ∃ t : List Node, NB h (a :: t) ∧ (a :: t).getLast? = some b ∧ t.length ≤ n := by
  induction w with
  | nil a _ => exact ⟨[], NB.single h a, rfl, Nat.le_refl _⟩
  | @cons a b' c n hab _ ih =>
    obtain ⟨t', hn, hl, hlen⟩ := ih
    by_cases ht : t'.head? = some a
    · cases t' with
      | nil => simp at ht
      | cons x t'' =>
        simp only [List.head?_cons, Option.some.injEq] at ht
        subst ht
        rw [List.getLast?_cons_cons] at hl
        refine ⟨t'', hn.2.2, hl, ?_⟩
        simp only [List.length_cons] at hlen
        omega
    · refine ⟨b' :: t', NB.cons2.2 ⟨hab, ?_, hn⟩, ?_, ?_⟩
      · intro x hx e
        exact ht (e ▸ hx)
      · rw [List.getLast?_cons_cons]; exact hl
      · simpa using hlen

theorem isDist_of_nb {h : SM} (hinv : h.Inv) (hf : IsForest h) {a b : Node} {t : List Node}
    (hn : NB h (a :: t)) (hr : inRange h a = true) (hl : (a :: t).getLast? = some b) :
    IsDist h a b t.length := by
  refine ⟨walk_of_nb hinv t a hn hr b hl, ?_⟩
  intro d' w
  obtain ⟨t', hn', hl', hlen⟩ := nb_of_walk w
  have e := NB.unique hf _ _ hn hn' rfl (hl.trans hl'.symm)
  simp only [List.cons.injEq, true_and] at e
  subst e
  exact hlen

/-! ### height of the computation tree -/

theorem exists_other {l : List Nat} (hl : l.Nodup) (h2 : 2 ≤ l.length) (u : Nat) : ∃ x ∈ l, x ≠ u := by
  match l, hl, h2 with
  | a :: b :: _, hl, _ =>
    have hab : a ≠ b := fun e => (List.nodup_cons.1 hl).1 (by simp [e])
    by_cases ha : a = u
    · exact ⟨b, by simp, fun e => hab (ha.trans e.symm)⟩
    · exact ⟨a, by simp, ha⟩

theorem row_mem_rows (h : SM) {c : Nat} (hc : c < h.nrows) : h.row c ∈ h.rows := by
  unfold SM.row
  unfold SM.nrows at hc
  rw [List.getD_eq_getElem?_getD, List.getElem?_eq_getElem hc]
  exact List.getElem_mem hc

/-- extending a chain that ends in variable `u` (entered through check `c`) by a check `c' ≠ c` and a variable -/
theorem NB.ext {h : SM} (hinv : h.Inv) {p : List Node} {u c c' u' : Nat} (hn : NB h (p ++ [.col u]))
    (hp : ∀ y, p.getLast? = some y → y = .row c) (hc : c' ∈ h.col u) (hcc : c' ≠ c)
    (hu : u' ∈ h.row c') (hne : u' ≠ u) : NB h (p ++ .col u :: [.row c', .col u']) := by
  refine NB.glue _ _ _ hn (NB.step hinv hc hu hne (NB.single h _) (by simp)) ?_
  intro x y hx hy
  simp only [List.head?_cons, Option.some.injEq] at hy
  subst hy
  rw [hp x hx]
  simpa using hcc.symm

/-- a computation tree that is too high contains a long non-backtracking chain -/
theorem descend {h : SM} (hinv : h.Inv) (hdeg : ∀ r ∈ h.rows, 2 ≤ r.length) : ∀ (s u c : Nat) (p : List Node),
    NB h (p ++ [.col u]) → (∀ y, p.getLast? = some y → y = .row c) → ¬ Lv h s u c →
    ∃ (q : List Node) (w : Nat), NB h (p ++ .col u :: q) ∧ q.length = 2 * s + 2 ∧
      (Node.col u :: q).getLast? = some (.col w)
  | 0, u, c, p, hn, hp, hL => by
    simp only [Lv] at hL
    push Not at hL
    obtain ⟨c', hc, hcc⟩ := hL
    obtain ⟨u', hu, hne⟩ := exists_other (hinv.2.2.1 c') (hdeg _ (row_mem_rows h (hinv.2.1 c' u hc).1)) u
    exact ⟨[.row c', .col u'], u', NB.ext hinv hn hp hc hcc hu hne, rfl, rfl⟩
  | s + 1, u, c, p, hn, hp, hL => by
    simp only [Lv] at hL
    push Not at hL
    obtain ⟨c', hc, hcc, u', hu, hne, hL'⟩ := hL
    have hn' := NB.ext hinv hn hp hc hcc hu hne
    have e1 : p ++ .col u :: [.row c', .col u'] = (p ++ [.col u, .row c']) ++ [.col u'] := by simp
    rw [e1] at hn'
    obtain ⟨q, w, hq, hlen, hl⟩ := descend hinv hdeg s u' c' (p ++ [.col u, .row c']) hn'
      (by intro y hy; simpa using hy.symm) hL'
    refine ⟨.row c' :: .col u' :: q, w, ?_, ?_, ?_⟩
    · simpa using hq
    · simp only [List.length_cons, hlen]; omega
    · rw [List.getLast?_cons_cons, List.getLast?_cons_cons]; exact hl

/-- if every variable of the tree of `v` is within distance `2t` of `v`, the computation tree of `v` has height ≤ t -/
theorem lv_of_dist (h : SM) (hinv : h.Inv) (hf : IsForest h) (hdeg : ∀ r ∈ h.rows, 2 ≤ r.length)
    (v : Nat) (hv : v < h.ncols) (t : Nat)
    (ht : ∀ u d, IsDist h (.col v) (.col u) d → d ≤ 2 * t) : Lv h t v h.nrows := by
  by_contra hL
  obtain ⟨q, w, hq, hlen, hl⟩ := descend hinv hdeg t v h.nrows [] (NB.single h _) (by simp) hL
  have hd := isDist_of_nb hinv hf (a := .col v) hq (by simp [inRange, hv]) hl
  have := ht w _ hd
  omega

end LdpcV.TreeBP
