/- Helper lemmas for C16, part 1: exact effect of `insertCol` / `clearColRaw` / `clearCols` on the
adjacency lists, the step relation of MacKay–Neal and its base invariant (`MnInv`). -/
import LdpcV.Model.Constructions
import LdpcV.Props.C11
import LdpcV.Lemmas.SparseLemmas
namespace LdpcV.Constr
open LdpcV LdpcV.SM LdpcV.Graph

/-! ### the empty matrix -/

theorem new_row (nr nc r : Nat) : (SM.new nr nc).row r = [] := by
  simp [new, row, List.getD_eq_getElem?_getD, List.getElem?_replicate]; split <;> rfl

theorem new_col (nr nc c : Nat) : (SM.new nr nc).col c = [] := by
  simp [new, col, List.getD_eq_getElem?_getD, List.getElem?_replicate]; split <;> rfl

@[simp] theorem new_nrows (nr nc : Nat) : (SM.new nr nc).nrows = nr := by simp [new, nrows]
@[simp] theorem new_ncols (nr nc : Nat) : (SM.new nr nc).ncols = nc := by simp [new, ncols]

/-! ### `insert`, `insertCol`: exact adjacency lists -/

theorem insert_eq {h h' : SM} {r c : Nat} (hs : h.insert r c = some h') :
    r < h.nrows ∧ c < h.ncols ∧ h' = h.insertRaw r c := by
  unfold SM.insert at hs
  split at hs
  · next hr =>
    rw [inRange_iff] at hr
    cases hs
    exact ⟨hr.1, hr.2, rfl⟩
  · cases hs

theorem insertCol_exact (rs : List Nat) (h h' : SM) (c : Nat)
    (hnd : rs.Nodup) (hdis : ∀ r ∈ rs, r ∉ h.col c) (hs : h.insertCol c rs = some h') :
    h'.nrows = h.nrows ∧ h'.ncols = h.ncols ∧ (∀ r ∈ rs, r < h.nrows) ∧
    (∀ j, h'.col j = if j = c then h.col j ++ rs else h.col j) ∧
    (∀ j, h'.row j = if j ∈ rs then h.row j ++ [c] else h.row j) := by
  induction rs generalizing h with
  | nil =>
    cases hs
    simp
  | cons r rs ih =>
    simp only [insertCol, List.foldlM_cons] at hs
    cases h1e : h.insert r c with
    | none => simp [h1e] at hs
    | some h1 =>
      rw [h1e] at hs
      obtain ⟨hr, hc, rfl⟩ := insert_eq h1e
      have hn : h.has r c = false := by
        have := hdis r (List.mem_cons_self ..)
        rw [← has_iff] at this
        simpa using this
      rw [List.nodup_cons] at hnd
      have hcol := col_insertRaw h r c c hn hc
      simp only [if_true] at hcol
      have hdis' : ∀ r' ∈ rs, r' ∉ (h.insertRaw r c).col c := by
        intro r' hr' hm
        rw [hcol, List.mem_append] at hm
        rcases hm with hm | hm
        · exact hdis r' (List.mem_cons_of_mem _ hr') hm
        · simp only [List.mem_singleton] at hm
          subst hm
          exact hnd.1 hr'
      obtain ⟨a1, a2, a3, a4, a5⟩ := ih (h.insertRaw r c) hnd.2 hdis' hs
      refine ⟨by simpa using a1, by simpa using a2, ?_, ?_, ?_⟩
      · intro r' hr'
        rcases List.mem_cons.1 hr' with rfl | hr'
        · exact hr
        · simpa using a3 r' hr'
      · intro j
        rw [a4 j, col_insertRaw h r c j hn hc]
        split <;> simp
      · intro j
        rw [a5 j, row_insertRaw h r c j hn hr]
        by_cases hj : j = r
        · subst hj
          simp [hnd.1]
        · simp [hj]

theorem insertCol_inv (rs : List Nat) (h h' : SM) (c : Nat) (hinv : h.Inv)
    (hs : h.insertCol c rs = some h') : h'.Inv := (insertCol_spec rs h h' c hinv hs).1

/-! ### clearing columns -/

theorem row_clearColRaw_inv (h : SM) (hinv : h.Inv) (c j : Nat) :
    (h.clearColRaw c).row j = (h.row j).filter (· != c) := by
  rw [row_clearColRaw]
  split
  · rfl
  · next hn =>
    symm
    rw [List.filter_eq_self]
    intro x hx
    simp only [bne_iff_ne, ne_eq]
    rintro rfl
    exact hn (hinv.1 j x hx).2.2

/-- clearing the columns of a list, one after the other -/
def clearList (h : SM) (cs : List Nat) : SM := cs.foldl (fun h c => h.clearColRaw c) h

theorem clearList_spec (cs : List Nat) (h : SM) (hinv : h.Inv) :
    (clearList h cs).Inv ∧ (clearList h cs).nrows = h.nrows ∧ (clearList h cs).ncols = h.ncols ∧
    (∀ j, (clearList h cs).col j = if j ∈ cs then [] else h.col j) ∧
    (∀ j, (clearList h cs).row j = (h.row j).filter (fun x => !cs.contains x)) := by
  induction cs generalizing h with
  | nil =>
    refine ⟨hinv, rfl, rfl, by simp [clearList], ?_⟩
    intro j
    simp only [clearList, List.foldl_nil, List.contains_nil, Bool.not_false]
    exact (List.filter_eq_self.2 (fun _ _ => rfl)).symm
  | cons c cs ih =>
    have hinv1 := clearColRaw_inv h c hinv
    obtain ⟨a1, a2, a3, a4, a5⟩ := ih (h.clearColRaw c) hinv1
    have e : clearList h (c :: cs) = clearList (h.clearColRaw c) cs := rfl
    rw [e]
    refine ⟨a1, by simpa using a2, by simpa using a3, ?_, ?_⟩
    · intro j
      rw [a4 j, col_clearColRaw]
      by_cases h1 : j = c <;> by_cases h2 : j ∈ cs <;> simp [h1, h2]
    · intro j
      rw [a5 j, row_clearColRaw_inv h hinv, List.filter_filter]
      apply List.filter_congr
      intro x _
      by_cases h1 : x = c <;> simp [h1]

theorem clearCols_eq (h : SM) (a b : Nat) : clearCols h a b = clearList h ((List.range (b - a)).map (· + a)) := rfl

theorem mem_clearRange (a b x : Nat) : x ∈ (List.range (b - a)).map (· + a) ↔ a ≤ x ∧ x < b := by
  simp only [List.mem_map, List.mem_range]
  constructor
  · rintro ⟨y, hy, rfl⟩; omega
  · intro hx; exact ⟨x - a, by omega, by omega⟩

theorem clearCols_spec (h : SM) (hinv : h.Inv) (a b : Nat) :
    (clearCols h a b).Inv ∧ (clearCols h a b).nrows = h.nrows ∧ (clearCols h a b).ncols = h.ncols ∧
    (∀ j, (clearCols h a b).col j = if a ≤ j ∧ j < b then [] else h.col j) ∧
    (∀ j, (clearCols h a b).row j = (h.row j).filter (fun x => !(decide (a ≤ x) && decide (x < b)))) := by
  obtain ⟨a1, a2, a3, a4, a5⟩ := clearList_spec ((List.range (b - a)).map (· + a)) h hinv
  rw [clearCols_eq]
  refine ⟨a1, a2, a3, ?_, ?_⟩
  · intro j
    rw [a4 j]
    simp only [mem_clearRange]
  · intro j
    rw [a5 j]
    apply List.filter_congr
    intro x _
    congr 1
    rw [Bool.eq_iff_iff, List.contains_iff_mem, mem_clearRange]
    simp

/-! ### MacKay–Neal: selection rule -/

theorem mem_availRows (cfg : MnCfg) (h : SM) (r : Nat) :
    r ∈ availRows cfg h ↔ r < h.nrows ∧ (h.row r).length < cfg.wr := by
  simp [availRows]

theorem admissibleRows_iff (cfg : MnCfg) (h : SM) (rows : List Nat) :
    admissibleRows cfg h rows = true ↔
      rows.length = cfg.wc ∧ rows.Nodup ∧ (∀ r ∈ rows, r < h.nrows ∧ (h.row r).length < cfg.wr) ∧
      (cfg.policy = .uniform → ∀ r ∈ rows, ∀ a, a < h.nrows → (h.row a).length < cfg.wr →
        a ∈ rows ∨ (h.row r).length ≤ (h.row a).length) := by
  unfold admissibleRows
  simp only [Bool.and_eq_true, beq_iff_eq, decide_eq_true_eq, List.all_eq_true, List.contains_iff_mem,
    mem_availRows]
  cases cfg.policy with
  | random => simp [and_assoc]
  | uniform =>
    simp only [List.all_eq_true, Bool.or_eq_true, List.contains_iff_mem, decide_eq_true_eq, mem_availRows,
      forall_const]
    constructor
    · rintro ⟨⟨⟨a, b⟩, c⟩, d⟩
      exact ⟨a, b, c, fun r hr x hx1 hx2 => d r hr x ⟨hx1, hx2⟩⟩
    · rintro ⟨a, b, c, d⟩
      exact ⟨⟨⟨a, b⟩, c⟩, fun r hr x hx => d r hr x hx.1 hx.2⟩

/-! ### MacKay–Neal: the step relation -/

/-- the girth test of `mnStep` -/
def tooSmall (cfg : MnCfg) (h' : SM) (col : Nat) : Bool :=
  match cfg.minGirth with
  | some g => ((localGirth h' (.col col) (some (g - 1))).getD none).isSome
  | none => false

inductive MnStepOk (cfg : MnCfg) (st : MnSt) (rows : List Nat) : MnSt → Prop
  | backtrack : (availRows cfg st.h).length < cfg.wc → st.backtrackTrials ≠ 0 →
      MnStepOk cfg st rows { st with h := clearCols st.h (st.col - min st.col cfg.backtrackCols) st.col,
                                     col := st.col - min st.col cfg.backtrackCols,
                                     backtrackTrials := st.backtrackTrials - 1 }
  | reject (h' : SM) : admissibleRows cfg st.h rows = true → st.h.insertCol st.col rows = some h' →
      tooSmall cfg h' st.col = true → st.girthTrials ≠ 0 →
      MnStepOk cfg st rows { st with h := h'.clearColRaw st.col, girthTrials := st.girthTrials - 1 }
  | accept (h' : SM) : admissibleRows cfg st.h rows = true → st.h.insertCol st.col rows = some h' →
      tooSmall cfg h' st.col = false →
      MnStepOk cfg st rows { st with h := h', col := st.col + 1 }

theorem mnStep_ok {cfg : MnCfg} {st st' : MnSt} {rows : List Nat}
    (hs : mnStep cfg st rows = some (.ok st')) : MnStepOk cfg st rows st' := by
  unfold mnStep at hs
  split at hs
  · next hav =>
    split at hs
    · cases hs
    · next hb =>
      simp only [Option.some.injEq, Except.ok.injEq] at hs
      subst hs
      exact .backtrack hav hb
  · split at hs
    · cases hs
    · next hadm =>
      have hadm : admissibleRows cfg st.h rows = true := by simpa using hadm
      split at hs
      · cases hs
      · next h' hins =>
        change (if tooSmall cfg h' st.col = true then _ else _) = _ at hs
        split at hs
        · next hts =>
          split at hs
          · cases hs
          · next hg =>
            simp only [Option.some.injEq, Except.ok.injEq] at hs
            subst hs
            exact .reject h' hadm hins hts hg
        · next hts =>
          simp only [Option.some.injEq, Except.ok.injEq] at hs
          subst hs
          exact .accept h' hadm hins (by simpa using hts)

/-! ### MacKay–Neal: base invariant -/

structure MnInv (cfg : MnCfg) (st : MnSt) : Prop where
  inv : st.h.Inv
  nrows : st.h.nrows = cfg.nrows
  ncols : st.h.ncols = cfg.ncols
  col_le : st.col ≤ cfg.ncols
  full : ∀ c, c < st.col → (st.h.col c).length = cfg.wc
  empty : ∀ c, st.col ≤ c → st.h.col c = []
  wr : ∀ r, (st.h.row r).length ≤ cfg.wr

theorem mnInit_inv (cfg : MnCfg) : MnInv cfg (mnInit cfg) where
  inv := new_inv _ _
  nrows := by simp [mnInit]
  ncols := by simp [mnInit]
  col_le := by simp [mnInit]
  full := by simp [mnInit]
  empty := by intro c _; simp [mnInit, new_col]
  wr := by intro r; simp [mnInit, new_row]

/-- facts about a column insertion in an invariant state -/
theorem MnInv.insert_facts {cfg : MnCfg} {st : MnSt} (hI : MnInv cfg st) {rows : List Nat} {h' : SM}
    (hadm : admissibleRows cfg st.h rows = true) (hins : st.h.insertCol st.col rows = some h') :
    h'.Inv ∧ h'.nrows = cfg.nrows ∧ h'.ncols = cfg.ncols ∧
    (∀ j, h'.col j = if j = st.col then rows else st.h.col j) ∧
    (∀ j, h'.row j = if j ∈ rows then st.h.row j ++ [st.col] else st.h.row j) := by
  rw [admissibleRows_iff] at hadm
  obtain ⟨_, hnd, _, _⟩ := hadm
  have he := hI.empty st.col (Nat.le_refl _)
  obtain ⟨a1, a2, _, a4, a5⟩ := insertCol_exact rows st.h h' st.col hnd (by simp [he]) hins
  refine ⟨insertCol_inv rows st.h h' st.col hI.inv hins, a1.trans hI.nrows, a2.trans hI.ncols, ?_, a5⟩
  intro j
  rw [a4 j]
  split
  · next hj => subst hj; simp [he]
  · rfl

theorem length_filter_le' {α : Type} (p : α → Bool) (l : List α) : (l.filter p).length ≤ l.length :=
  List.length_filter_le p l

theorem MnInv.step {cfg : MnCfg} {st st' : MnSt} {rows : List Nat} (hI : MnInv cfg st)
    (hlt : st.col < cfg.ncols) (hs : MnStepOk cfg st rows st') : MnInv cfg st' := by
  cases hs with
  | backtrack hav hb =>
    obtain ⟨a1, a2, a3, a4, a5⟩ := clearCols_spec st.h hI.inv (st.col - min st.col cfg.backtrackCols) st.col
    refine ⟨a1, a2.trans hI.nrows, a3.trans hI.ncols, ?_, ?_, ?_, ?_⟩
    · have := hI.col_le; simp only; omega
    · intro c hc
      simp only at hc ⊢
      rw [a4 c, if_neg (by omega)]
      exact hI.full c (by omega)
    · intro c hc
      simp only at hc ⊢
      rw [a4 c]
      split
      · rfl
      · exact hI.empty c (by omega)
    · intro r
      simp only
      rw [a5 r]
      exact Nat.le_trans (List.length_filter_le _ _) (hI.wr r)
  | reject h' hadm hins hts hg =>
    obtain ⟨b1, b2, b3, b4, b5⟩ := hI.insert_facts hadm hins
    rw [admissibleRows_iff] at hadm
    refine ⟨clearColRaw_inv h' st.col b1, by simpa using b2, by simpa using b3, hI.col_le, ?_, ?_, ?_⟩
    · intro c hc
      simp only at hc ⊢
      rw [col_clearColRaw, if_neg (by omega), b4 c, if_neg (by omega)]
      exact hI.full c hc
    · intro c hc
      simp only at hc ⊢
      rw [col_clearColRaw]
      split
      · rfl
      · next hne => rw [b4 c, if_neg hne]; exact hI.empty c hc
    · intro r
      simp only
      rw [row_clearColRaw_inv h' b1, b5 r]
      split
      · next hr =>
        rw [List.filter_append]
        simp only [List.filter_cons, bne_self_eq_false, Bool.false_eq_true, if_false, List.filter_nil,
          List.append_nil]
        exact Nat.le_trans (List.length_filter_le _ _) (hI.wr r)
      · exact Nat.le_trans (List.length_filter_le _ _) (hI.wr r)
  | accept h' hadm hins hts =>
    obtain ⟨b1, b2, b3, b4, b5⟩ := hI.insert_facts hadm hins
    rw [admissibleRows_iff] at hadm
    refine ⟨b1, b2, b3, by simp only; omega, ?_, ?_, ?_⟩
    · intro c hc
      simp only at hc ⊢
      rw [b4 c]
      split
      · exact hadm.1
      · exact hI.full c (by omega)
    · intro c hc
      simp only at hc ⊢
      rw [b4 c, if_neg (by omega)]
      exact hI.empty c (by omega)
    · intro r
      simp only
      rw [b5 r]
      split
      · next hr =>
        have := (hadm.2.2.1 r hr).2
        simp only [List.length_append, List.length_singleton]
        omega
      · exact hI.wr r

/-- every successful run ends in an invariant state with all columns filled; generic induction principle -/
theorem mnRun_ok_induct (cfg : MnCfg) (P : MnSt → Prop)
    (hstep : ∀ st rows st', MnInv cfg st → st.col < cfg.ncols → P st → MnStepOk cfg st rows st' → P st')
    (sels : List (List Nat)) (st : MnSt) (H : SM) (hI : MnInv cfg st) (hP : P st)
    (hr : mnRun cfg st sels = some (.ok H)) :
    ∃ st', MnInv cfg st' ∧ P st' ∧ st'.col = cfg.ncols ∧ st'.h = H := by
  induction sels generalizing st with
  | nil =>
    unfold mnRun at hr
    split at hr
    · next hge =>
      simp only [List.isEmpty_nil, if_true, Option.some.injEq, Except.ok.injEq] at hr
      refine ⟨st, hI, hP, ?_, hr⟩
      have := hI.col_le; have := hI.ncols; omega
    · cases hr
  | cons rows rest ih =>
    unfold mnRun at hr
    split at hr
    · simp at hr
    · next hlt =>
      simp only at hr
      split at hr
      · cases hr
      · cases hr
      · next st' hs =>
        have hlt' : st.col < cfg.ncols := by have := hI.ncols; omega
        have hso := mnStep_ok hs
        exact ih st' (hI.step hlt' hso) (hstep st rows st' hI hlt' hP hso) hr

end LdpcV.Constr
