/- Helper lemmas for C16, part 4: the executable predicate `mnProps`. -/
import LdpcV.Lemmas.ConstrLemmas3
namespace LdpcV.Constr
open LdpcV LdpcV.SM LdpcV.Graph

theorem col_mem_cols (H : SM) (c : Nat) (hc : c < H.ncols) : H.col c ∈ H.cols := by
  have hc' : c < H.cols.length := hc
  simp only [col, List.getD_eq_getElem?_getD, List.getElem?_eq_getElem hc', Option.getD_some]
  exact List.getElem_mem hc'

theorem row_mem_rows (H : SM) (r : Nat) (hr : r < H.nrows) : H.row r ∈ H.rows := by
  have hr' : r < H.rows.length := hr
  simp only [row, List.getD_eq_getElem?_getD, List.getElem?_eq_getElem hr', Option.getD_some]
  exact List.getElem_mem hr'

theorem mnProps_sound (cfg : MnCfg) (H : SM) (hinv : H.Inv) (hp : mnProps cfg H = true) :
    H.nrows = cfg.nrows ∧ H.ncols = cfg.ncols ∧ (∀ c, c < cfg.ncols → (H.col c).length = cfg.wc) ∧
    (∀ r, r < cfg.nrows → (H.row r).length ≤ cfg.wr) ∧
    (∀ g, cfg.minGirth = some g → ∀ c, IsCycle H c → g ≤ c.length) := by
  simp only [mnProps, Bool.and_eq_true, beq_iff_eq, List.all_eq_true, decide_eq_true_eq] at hp
  obtain ⟨⟨⟨⟨⟨h1, h2⟩, h3⟩, h4⟩, h5⟩, _⟩ := hp
  refine ⟨h1, h2, ?_, ?_, ?_⟩
  · intro c hc
    exact h3 _ (col_mem_cols H c (by omega))
  · intro r hr
    exact h4 _ (row_mem_rows H r (by omega))
  · intro g hg c hc
    rw [hg] at h5
    simp only at h5
    obtain ⟨e1, e2⟩ := C11.girth_exact H hinv
    cases hgi : girth H none with
    | none => exact ((e2.1 hgi) c hc).elim
    | some g' =>
      rw [hgi] at h5
      simp only [decide_eq_true_eq] at h5
      have := ((e1 g').1 hgi).2 c hc
      omega

end LdpcV.Constr
