/- Helper lemmas (RoundLemmas): the generic formulas of Model/{Modulation,ArithF}.lean under the standard model of
floating-point arithmetic (`Sc.rounded M`) against the same formulas at ℝ (`Sc.real`). -/
import LdpcV.Lemmas.RoundScalar
import LdpcV.Lemmas.TrackLemmas
import LdpcV.Lemmas.ModulationLemmas
namespace LdpcV.Round
open LdpcV LdpcV.ArithF LdpcV.Modulation

variable (M : FpModel)

/-! ### projections of the rounded record -/

@[simp] theorem r_add (a b : ℝ) : (Sc.rounded M).add a b = M.fl (a + b) := rfl
@[simp] theorem r_sub (a b : ℝ) : (Sc.rounded M).sub a b = M.fl (a - b) := rfl
@[simp] theorem r_mul (a b : ℝ) : (Sc.rounded M).mul a b = M.fl (a * b) := rfl
@[simp] theorem r_div (a b : ℝ) : (Sc.rounded M).div a b = M.fl (a / b) := rfl
@[simp] theorem r_neg (a : ℝ) : (Sc.rounded M).neg a = -a := rfl
@[simp] theorem r_abs (a : ℝ) : (Sc.rounded M).abs a = |a| := rfl
@[simp] theorem r_max (a b : ℝ) : (Sc.rounded M).max a b = max a b := rfl
@[simp] theorem r_min (a b : ℝ) : (Sc.rounded M).min a b = min a b := rfl
@[simp] theorem r_exp (a : ℝ) : (Sc.rounded M).exp a = M.fexp a := rfl
@[simp] theorem r_log1p (a : ℝ) : (Sc.rounded M).log1p a = M.flog1p a := rfl
@[simp] theorem r_rat (n : Int) (d : Nat) : (Sc.rounded M).rat n d = M.fl ((n : ℝ) / (d : ℝ)) := rfl
@[simp] theorem r_lt (a b : ℝ) : (Sc.rounded M).lt a b = true ↔ a < b := by simp [Sc.rounded]
@[simp] theorem r_le (a b : ℝ) : (Sc.rounded M).le a b = true ↔ a ≤ b := by simp [Sc.rounded]

theorem r_zero : zero (Sc.rounded M) = 0 := by
  simp [zero, fl_zero]

theorem r_isNeg (x : ℝ) : isNeg (Sc.rounded M) x = isNeg Sc.real x := by
  unfold isNeg
  rw [r_zero, BoxL.zero_real]
  simp [Sc.rounded, Sc.real]

theorem r_signParity (xs : List ℝ) : signParity (Sc.rounded M) xs = signParity Sc.real xs := by
  unfold signParity
  have : isNeg (Sc.rounded M) = isNeg Sc.real := funext (r_isNeg M)
  rw [this]

/-! ### BPSK demodulator: four roundings -/

theorem bpsk_near (sigma r : ℝ) : Near M 4 (bpskDemod Sc.real sigma r) (bpskDemod (Sc.rounded M) sigma r) := by
  unfold bpskDemod
  simp only [r_mul, r_div, r_rat, real_mul, real_div, real_rat]
  have h1 : Near M 1 (((-2 : ℤ) : ℝ) / ((1 : ℕ) : ℝ)) (M.fl (((-2 : ℤ) : ℝ) / ((1 : ℕ) : ℝ))) := near_fl M (near_refl M _)
  have h2 : Near M 1 (sigma * sigma) (M.fl (sigma * sigma)) := near_fl M (near_refl M _)
  have h3 := near_fl M (near_div M h1 h2)
  have h4 := near_fl M (near_mul M h3 (near_refl M r))
  exact h4

/-! ### floating-point sums -/

/-- left-to-right rounded summation from `acc` -/
theorem foldl_add_err (xs : List ℝ) : ∀ acc : ℝ,
    |xs.foldl (Sc.rounded M).add acc - (acc + xs.sum)| ≤ ((b M) ^ xs.length - 1) * (|acc| + (xs.map (fun x => |x|)).sum) := by
  induction xs with
  | nil => intro acc; simp
  | cons x t ih =>
    intro acc
    simp only [List.foldl_cons, List.sum_cons, List.map_cons, List.length_cons, r_add]
    obtain ⟨δ, hδ, hfl⟩ := fl_eq M (acc + x)
    have hδ' := abs_le.mp hδ
    have IH := ih (M.fl (acc + x))
    set T := (t.map (fun x => |x|)).sum with hT
    have hTn : 0 ≤ T := List.sum_nonneg (by intro a ha; simp only [List.mem_map] at ha; obtain ⟨z, _, rfl⟩ := ha; exact abs_nonneg z)
    set P := (b M) ^ t.length with hP
    have hP1 : 1 ≤ P := one_le_pow₀ (one_le_b M)
    have hb := one_add_le_b M
    have hax : |acc + x| ≤ |acc| + |x| := abs_add_le acc x
    have h1 : |M.fl (acc + x)| ≤ (1 + M.u) * (|acc| + |x|) := by
      rw [hfl, abs_mul]
      have : |1 + δ| ≤ 1 + M.u := by rw [abs_le]; constructor <;> linarith
      calc |acc + x| * |1 + δ| ≤ (|acc| + |x|) * (1 + M.u) := mul_le_mul hax this (abs_nonneg _) (by positivity)
        _ = _ := by ring
    have h2 : |M.fl (acc + x) - (acc + x)| ≤ M.u * (|acc| + |x|) :=
      le_trans (M.fl_err _) (mul_le_mul_of_nonneg_left hax M.u_nonneg)
    have hA : 0 ≤ |acc| + |x| := by positivity
    have key : |t.foldl (Sc.rounded M).add (M.fl (acc + x)) - (acc + (x + t.sum))| ≤
        (P - 1) * ((1 + M.u) * (|acc| + |x|) + T) + M.u * (|acc| + |x|) := by
      have e : t.foldl (Sc.rounded M).add (M.fl (acc + x)) - (acc + (x + t.sum)) =
          (t.foldl (Sc.rounded M).add (M.fl (acc + x)) - (M.fl (acc + x) + t.sum)) + (M.fl (acc + x) - (acc + x)) := by ring
      rw [e]
      refine le_trans (abs_add_le _ _) (add_le_add (le_trans IH ?_) h2)
      exact mul_le_mul_of_nonneg_left (by linarith) (by linarith)
    refine le_trans key ?_
    rw [pow_succ]
    have hu := M.u_nonneg
    have e3 : (P - 1) * ((1 + M.u) * (|acc| + |x|) + T) + M.u * (|acc| + |x|)
        = (P * (1 + M.u) - 1) * (|acc| + |x|) + (P - 1) * T := by ring
    rw [e3]
    have e4 : (P * b M - 1) * (|acc| + (|x| + T)) = (P * b M - 1) * (|acc| + |x|) + (P * b M - 1) * T := by ring
    rw [e4]
    have hPb : P * (1 + M.u) ≤ P * b M := mul_le_mul_of_nonneg_left hb (by linarith)
    have hPb' : P ≤ P * b M := by nlinarith [one_le_b M]
    exact add_le_add (mul_le_mul_of_nonneg_right (by linarith) hA) (mul_le_mul_of_nonneg_right (by linarith) hTn)

theorem list_abs_sum_le (xs : List ℝ) : |xs.sum| ≤ (xs.map (fun x => |x|)).sum := by
  induction xs with
  | nil => simp
  | cons x t ih =>
    simp only [List.sum_cons, List.map_cons]
    exact le_trans (abs_add_le _ _) (by linarith)

theorem r_sum (xs : List ℝ) : sum (Sc.rounded M) xs = xs.foldl (Sc.rounded M).add 0 := by
  unfold sum; rw [r_zero]

/-- `send_var_messages_no_clip` under rounding: the total -/
theorem varRule_total_err (input : ℝ) (msgs : List (Nat × ℝ)) :
    |(varRule (Sc.rounded M) input msgs).1 - (varRule Sc.real input msgs).1| ≤
      ((b M) ^ (msgs.length + 1) - 1) * (|input| + ((msgs.map (·.2)).map (fun x => |x|)).sum) := by
  unfold varRule
  simp only [r_add, real_add, r_sum, BoxL.sum_real]
  set xs := msgs.map (·.2) with hxs
  have hlen : xs.length = msgs.length := by simp [hxs]
  have hs := foldl_add_err M xs 0
  simp only [abs_zero, zero_add] at hs
  set s := xs.foldl (Sc.rounded M).add 0 with hsdef
  set T := (xs.map (fun x => |x|)).sum with hT
  have hTn : 0 ≤ T := List.sum_nonneg (by intro a ha; simp only [List.mem_map] at ha; obtain ⟨z, _, rfl⟩ := ha; exact abs_nonneg z)
  obtain ⟨δ, hδ, hfl⟩ := fl_eq M (input + s)
  have hδ' := abs_le.mp hδ
  rw [hlen] at hs
  set P := (b M) ^ msgs.length with hP
  have hP1 : 1 ≤ P := one_le_pow₀ (one_le_b M)
  have hb := one_add_le_b M
  have hu := M.u_nonneg
  have hsum : |xs.sum| ≤ T := by
    rw [hT]; exact list_abs_sum_le xs
  rw [hfl, pow_succ]
  have e : (input + s) * (1 + δ) - (input + xs.sum) = (s - xs.sum) * (1 + δ) + (input + xs.sum) * δ := by ring
  rw [e]
  have h1 : |(s - xs.sum) * (1 + δ)| ≤ (P - 1) * T * (1 + M.u) := by
    rw [abs_mul]
    have : |1 + δ| ≤ 1 + M.u := by rw [abs_le]; constructor <;> linarith
    exact mul_le_mul hs this (abs_nonneg _) (mul_nonneg (by linarith) hTn)
  have h2 : |(input + xs.sum) * δ| ≤ (|input| + T) * M.u := by
    rw [abs_mul]
    exact mul_le_mul (le_trans (abs_add_le _ _) (by linarith)) hδ (abs_nonneg _) (by positivity)
  refine le_trans (abs_add_le _ _) (le_trans (add_le_add h1 h2) ?_)
  have hI : 0 ≤ |input| := abs_nonneg _
  have hPb : P * (1 + M.u) ≤ P * b M := mul_le_mul_of_nonneg_left hb (by linarith)
  have e5 : (P * b M - 1) * (|input| + T) - ((P - 1) * T * (1 + M.u) + (|input| + T) * M.u)
      = (P * b M - P * (1 + M.u)) * T + (P * b M - 1 - M.u) * |input| := by ring
  have h6 : 0 ≤ (P * b M - P * (1 + M.u)) * T := mul_nonneg (by linarith) hTn
  have h7 : 0 ≤ (P * b M - 1 - M.u) * |input| := by
    refine mul_nonneg ?_ hI
    nlinarith
  linarith

/-- `send_var_messages_no_clip` under rounding: the message to each check, `fl(total̃ − own)` -/
theorem varRule_msgs_err (input : ℝ) (msgs : List (Nat × ℝ)) (m : Nat × ℝ) (hm : m ∈ msgs) :
    ∃ o ∈ (varRule (Sc.rounded M) input msgs).2, o.1 = m.1 ∧
      |o.2 - ((varRule Sc.real input msgs).1 - m.2)| ≤
        ((b M) ^ (msgs.length + 2) - 1) * (|input| + ((msgs.map (·.2)).map (fun x => |x|)).sum + |m.2|) := by
  have hT := varRule_total_err M input msgs
  set L := (varRule (Sc.rounded M) input msgs).1 with hL
  set T := (varRule Sc.real input msgs).1 with hTd
  set A := |input| + ((msgs.map (·.2)).map (fun x => |x|)).sum with hA
  have hA0 : 0 ≤ A := by
    have : 0 ≤ ((msgs.map (·.2)).map (fun x => |x|)).sum :=
      List.sum_nonneg (by intro a ha; simp only [List.mem_map] at ha; obtain ⟨z, _, rfl⟩ := ha; exact abs_nonneg z)
    rw [hA]; positivity
  refine ⟨(m.1, M.fl (L - m.2)), ?_, rfl, ?_⟩
  · unfold varRule
    simp only [List.mem_map]
    exact ⟨m, hm, rfl⟩
  · simp only []
    obtain ⟨δ, hδ, hfl⟩ := fl_eq M (L - m.2)
    have hδ' := abs_le.mp hδ
    rw [hfl]
    set P := (b M) ^ (msgs.length + 1) with hP
    have hP1 : 1 ≤ P := one_le_pow₀ (one_le_b M)
    have hb := one_add_le_b M
    have hu := M.u_nonneg
    have hTabs : |T| ≤ A := by
      rw [hTd]; unfold varRule
      simp only [real_add, BoxL.sum_real]
      refine le_trans (abs_add_le _ _) ?_
      have := list_abs_sum_le (msgs.map (·.2))
      rw [hA]; linarith
    have e : (L - m.2) * (1 + δ) - (T - m.2) = (L - T) * (1 + δ) + (T - m.2) * δ := by ring
    rw [e, pow_succ]
    have h1 : |(L - T) * (1 + δ)| ≤ (P - 1) * A * (1 + M.u) := by
      rw [abs_mul]
      have : |1 + δ| ≤ 1 + M.u := by rw [abs_le]; constructor <;> linarith
      exact mul_le_mul hT this (abs_nonneg _) (mul_nonneg (by linarith) hA0)
    have h2 : |(T - m.2) * δ| ≤ (A + |m.2|) * M.u := by
      rw [abs_mul]
      refine mul_le_mul ?_ hδ (abs_nonneg _) (by positivity)
      have := abs_sub T m.2; linarith
    refine le_trans (abs_add_le _ _) (le_trans (add_le_add h1 h2) ?_)
    have hm0 : 0 ≤ |m.2| := abs_nonneg _
    have hPb : P * (1 + M.u) ≤ P * b M := mul_le_mul_of_nonneg_left hb (by linarith)
    have e5 : (P * b M - 1) * (A + |m.2|) - ((P - 1) * A * (1 + M.u) + (A + |m.2|) * M.u)
        = (P * b M - P * (1 + M.u)) * A + (P * b M - 1 - M.u) * |m.2| := by ring
    have h6 : 0 ≤ (P * b M - P * (1 + M.u)) * A := mul_nonneg (by linarith) hA0
    have h7 : 0 ≤ (P * b M - 1 - M.u) * |m.2| := by
      refine mul_nonneg ?_ hm0
      nlinarith
    linarith

/-! ### the approximate min* step -/

theorem exp_neg_diff {a c : ℝ} (_hac : a ≤ c) : Real.exp (-a) - Real.exp (-c) ≤ (c - a) * Real.exp (-a) := by
  have h : Real.exp (-c) = Real.exp (-a) * Real.exp (-(c - a)) := by rw [← Real.exp_add]; congr 1; ring
  have h2 : 1 - (c - a) ≤ Real.exp (-(c - a)) := by
    have := Real.add_one_le_exp (-(c - a)); linarith
  have hp := Real.exp_pos (-a)
  rw [h]
  nlinarith

theorem mul_exp_neg_le {t c : ℝ} (hc : 0 < c) : t * Real.exp (-(c * t)) ≤ 1 / c := by
  have h1 : c * t ≤ Real.exp (c * t) := by have := Real.add_one_le_exp (c * t); linarith
  have hp := Real.exp_pos (c * t)
  rw [Real.exp_neg, le_div_iff₀ hc]
  have : t * (Real.exp (c * t))⁻¹ * c = (c * t) * (Real.exp (c * t))⁻¹ := by ring
  rw [this, ← div_eq_mul_inv, div_le_one hp]
  exact h1

/-- |e^(-d) - e^(-d0)| ≤ u·b when d = d0·(1+δ), |δ| ≤ u, d0 ≥ 0 -/
theorem exp_pert (d0 δ : ℝ) (hd0 : 0 ≤ d0) (hδ : |δ| ≤ M.u) :
    |Real.exp (-(d0 * (1 + δ))) - Real.exp (-d0)| ≤ M.u * b M := by
  have hδ' := abs_le.mp hδ
  have hpos := one_sub_pos M
  have hub : M.u * b M = M.u / (1 - M.u) := by unfold b; ring
  have hbound : M.u * d0 * Real.exp (-((1 - M.u) * d0)) ≤ M.u / (1 - M.u) := by
    have := mul_exp_neg_le (t := d0) hpos
    have h2 : M.u * d0 * Real.exp (-((1 - M.u) * d0)) = M.u * (d0 * Real.exp (-((1 - M.u) * d0))) := by ring
    rw [h2, div_eq_mul_one_div]
    exact mul_le_mul_of_nonneg_left this M.u_nonneg
  rw [hub]
  refine le_trans ?_ hbound
  rcases le_total 0 δ with h | h
  · -- d ≥ d0
    have hle : d0 ≤ d0 * (1 + δ) := by nlinarith
    have := exp_neg_diff hle
    rw [abs_sub_comm, abs_of_nonneg (by
      have : Real.exp (-(d0 * (1 + δ))) ≤ Real.exp (-d0) := Real.exp_le_exp.2 (by linarith)
      linarith)]
    refine le_trans this ?_
    have e1 : d0 * (1 + δ) - d0 = δ * d0 := by ring
    rw [e1]
    have h3 : Real.exp (-d0) ≤ Real.exp (-((1 - M.u) * d0)) := Real.exp_le_exp.2 (by nlinarith [M.u_nonneg])
    exact mul_le_mul (mul_le_mul_of_nonneg_right hδ'.2 hd0) h3 (Real.exp_pos _).le (mul_nonneg M.u_nonneg hd0)
  · have hle : d0 * (1 + δ) ≤ d0 := by nlinarith
    have := exp_neg_diff hle
    rw [abs_of_nonneg (by
      have : Real.exp (-d0) ≤ Real.exp (-(d0 * (1 + δ))) := Real.exp_le_exp.2 (by linarith)
      linarith)]
    refine le_trans this ?_
    have e1 : d0 - d0 * (1 + δ) = (-δ) * d0 := by ring
    rw [e1]
    have h3 : Real.exp (-(d0 * (1 + δ))) ≤ Real.exp (-((1 - M.u) * d0)) := Real.exp_le_exp.2 (by nlinarith [M.u_nonneg])
    exact mul_le_mul (mul_le_mul_of_nonneg_right (by linarith) hd0) h3 (Real.exp_pos _).le (mul_nonneg M.u_nonneg hd0)

theorem log1p_lip {a c : ℝ} (ha : 0 ≤ a) (hc : 0 ≤ c) : |Real.log (1 + a) - Real.log (1 + c)| ≤ |a - c| := by
  wlog h : c ≤ a generalizing a c
  · have := this hc ha (le_of_not_ge h)
    rw [abs_sub_comm, abs_sub_comm a]; exact this
  have h1 : Real.log (1 + c) ≤ Real.log (1 + a) := Real.log_le_log (by linarith) (by linarith)
  rw [abs_of_nonneg (by linarith), abs_of_nonneg (by linarith)]
  have hq : Real.log (1 + a) - Real.log (1 + c) = Real.log ((1 + a) / (1 + c)) := by
    rw [Real.log_div (by linarith) (by linarith)]
  rw [hq]
  have hpos : 0 < (1 + a) / (1 + c) := by positivity
  have h2 := Real.log_le_sub_one_of_pos hpos
  refine le_trans h2 ?_
  rw [div_sub_one (by linarith), div_le_iff₀ (by linarith)]
  nlinarith

/-- the rounded correction term `ln_1p(exp(-|fl(x-y)|))` and its exact value -/
theorem corr_err (x y : ℝ) :
    0 ≤ M.flog1p (M.fexp (-|M.fl (x - y)|)) ∧
    |M.flog1p (M.fexp (-|M.fl (x - y)|)) - Real.log (1 + Real.exp (-|x - y|))| ≤ 3 * M.e + M.u * b M := by
  obtain ⟨δ, hδ, hfl⟩ := fl_eq M (x - y)
  have hδ' := abs_le.mp hδ
  have hu1 := M.u_lt
  have h1δ : 0 < 1 + δ := by linarith
  have hd : |M.fl (x - y)| = |x - y| * (1 + δ) := by rw [hfl, abs_mul, abs_of_pos h1δ]
  set d0 := |x - y| with hd0
  have hd0n : 0 ≤ d0 := abs_nonneg _
  rw [hd]
  set d := d0 * (1 + δ) with hdd
  have hdn : 0 ≤ d := mul_nonneg hd0n h1δ.le
  set E := M.fexp (-d) with hE
  have hexp1 : Real.exp (-d) ≤ 1 := by rw [← Real.exp_zero]; exact Real.exp_le_exp.2 (by linarith)
  have hexp0 : 0 < Real.exp (-d) := Real.exp_pos _
  have hEerr := M.exp_err (-d)
  have he := M.e_nonneg
  have he1 := M.e_le
  have hEerr' := abs_le.mp hEerr
  have hE0 : 0 ≤ E := by nlinarith
  have hE2 : E ≤ 2 := by nlinarith
  have hEd : |E - Real.exp (-d)| ≤ M.e := le_trans hEerr (by nlinarith)
  have hpert := exp_pert M d0 δ hd0n hδ
  have hEE0 : |E - Real.exp (-d0)| ≤ M.e + M.u * b M := by
    have : E - Real.exp (-d0) = (E - Real.exp (-d)) + (Real.exp (-d) - Real.exp (-d0)) := by ring
    rw [this]; exact le_trans (abs_add_le _ _) (add_le_add hEd hpert)
  have hLerr := M.log1p_err E hE0
  have hlogE : Real.log (1 + E) ≤ E := by
    have := Real.log_le_sub_one_of_pos (show 0 < 1 + E by linarith); linarith
  have hlogE0 : 0 ≤ Real.log (1 + E) := Real.log_nonneg (by linarith)
  have hLerr' := abs_le.mp hLerr
  constructor
  · nlinarith
  · have hlip := log1p_lip hE0 (Real.exp_pos (-d0)).le
    have : M.flog1p E - Real.log (1 + Real.exp (-d0)) =
        (M.flog1p E - Real.log (1 + E)) + (Real.log (1 + E) - Real.log (1 + Real.exp (-d0))) := by ring
    rw [this]
    refine le_trans (abs_add_le _ _) ?_
    have h3 : |M.flog1p E - Real.log (1 + E)| ≤ 2 * M.e := le_trans hLerr (by nlinarith)
    have h4 := le_trans hlip hEE0
    linarith

/-- per-step rounding error bound of the approximate min* step for a smaller operand of size at most `m` -/
noncomputable def eta (m : ℝ) : ℝ := (1 + M.u) * (3 * M.e + M.u * b M) + M.u * (m + 1)

theorem stepApprox_r (x y : ℝ) : stepApprox (Sc.rounded M) x y =
    max (M.fl (min x y - M.flog1p (M.fexp (-|M.fl (x - y)|)))) 0 := by
  unfold stepApprox; rw [r_zero]; rfl

theorem log_two_le_one : Real.log 2 ≤ 1 := by
  have := Real.log_le_sub_one_of_pos (show (0 : ℝ) < 2 by norm_num); linarith

theorem corr_real_le (x y : ℝ) : 0 ≤ Real.log (1 + Real.exp (-|x - y|)) ∧ Real.log (1 + Real.exp (-|x - y|)) ≤ 1 := by
  have h0 : 0 < Real.exp (-|x - y|) := Real.exp_pos _
  have h1 : Real.exp (-|x - y|) ≤ 1 := by
    rw [← Real.exp_zero]; exact Real.exp_le_exp.2 (by have := abs_nonneg (x - y); linarith)
  constructor
  · exact Real.log_nonneg (by linarith)
  · refine le_trans (Real.log_le_log (by linarith) (show 1 + Real.exp (-|x - y|) ≤ 2 by linarith)) log_two_le_one

/-- the rounded step: non-negative, at most b·min(x,y), and within `eta (min x y)` of the real step -/
theorem stepApprox_err (x y : ℝ) (hx : 0 ≤ x) (hy : 0 ≤ y) :
    0 ≤ stepApprox (Sc.rounded M) x y ∧ stepApprox (Sc.rounded M) x y ≤ b M * min x y ∧
    |stepApprox (Sc.rounded M) x y - stepApprox Sc.real x y| ≤ eta M (min x y) := by
  rw [stepApprox_r, BoxL.stepApprox_real]
  obtain ⟨hL0, hLerr⟩ := corr_err M x y
  set L := M.flog1p (M.fexp (-|M.fl (x - y)|)) with hL
  set L0 := Real.log (1 + Real.exp (-|x - y|)) with hL0def
  obtain ⟨hL00, hL01⟩ := corr_real_le x y
  set m := min x y with hm
  have hm0 : 0 ≤ m := le_min hx hy
  obtain ⟨δ, hδ, hfl⟩ := fl_eq M (m - L)
  have hδ' := abs_le.mp hδ
  have hu := M.u_nonneg
  have hu1 := M.u_lt
  have hb := one_add_le_b M
  have hbp := b_pos M
  refine ⟨le_max_right _ _, ?_, ?_⟩
  · refine max_le ?_ (mul_nonneg hbp.le hm0)
    rw [hfl]
    rcases le_total 0 (m - L) with h | h
    · calc (m - L) * (1 + δ) ≤ (m - L) * b M := mul_le_mul_of_nonneg_left (by linarith) h
        _ ≤ m * b M := mul_le_mul_of_nonneg_right (by linarith) hbp.le
        _ = b M * m := mul_comm _ _
    · have : (m - L) * (1 + δ) ≤ 0 := mul_nonpos_of_nonpos_of_nonneg h (by linarith)
      exact le_trans this (mul_nonneg hbp.le hm0)
  · refine le_trans (abs_max_sub_max_le_abs _ _ _) ?_
    have hLL := abs_le.mp hLerr
    have e : M.fl (m - L) - (m - L0) = (L0 - L) + (m - L) * δ := by rw [hfl]; ring
    rw [e]
    refine le_trans (abs_add_le _ _) ?_
    have h1 : |L0 - L| ≤ 3 * M.e + M.u * b M := by rw [abs_sub_comm]; exact hLerr
    have h2 : |(m - L) * δ| ≤ (m + 1 + (3 * M.e + M.u * b M)) * M.u := by
      rw [abs_mul]
      refine mul_le_mul ?_ hδ (abs_nonneg _) (by nlinarith [M.e_nonneg])
      rw [abs_le]; constructor <;> linarith
    unfold eta
    nlinarith

/-! ### the fold and the rule -/

theorem foldAbs_some_cons {α : Type} (S : Sc α) (step : α → α → α) (v : α) (vs : List α) (y : α) :
    foldAbs S step (v :: vs) (some y) = foldAbs S step vs (some (step (S.abs v) y)) := rfl

theorem foldAbs_none_cons {α : Type} (S : Sc α) (step : α → α → α) (v : α) (vs : List α) :
    foldAbs S step (v :: vs) none = foldAbs S step vs (some (S.abs v)) := rfl

theorem eta_mono {m m' : ℝ} (h : m ≤ m') : eta M m ≤ eta M m' := by
  unfold eta; have := M.u_nonneg; nlinarith

theorem eta_nonneg {m : ℝ} (hm : 0 ≤ m) : 0 ≤ eta M m := by
  unfold eta
  have := M.u_nonneg; have := M.e_nonneg; have := b_pos M
  positivity

/-- folding the rounded step against folding the real step, from accumulators `a` (rounded) and `a'` (real) -/
theorem fold_approx_err (B : ℝ) (xs : List ℝ) (hB : ∀ x ∈ xs, |x| ≤ B) : ∀ (a a' : ℝ), 0 ≤ a →
    ∃ z z', foldAbs (Sc.rounded M) (stepApprox (Sc.rounded M)) xs (some a) = some z ∧
      foldAbs Sc.real (stepApprox Sc.real) xs (some a') = some z' ∧ 0 ≤ z ∧
      z ≤ (b M) ^ xs.length * a ∧ (∀ x ∈ xs, z ≤ (b M) ^ xs.length * |x|) ∧
      |z - z'| ≤ |a - a'| + xs.length * eta M B := by
  induction xs with
  | nil => intro a a' ha; exact ⟨a, a', rfl, rfl, ha, by simp, by simp, by simp⟩
  | cons v t ih =>
    intro a a' ha
    rw [foldAbs_some_cons, foldAbs_some_cons, r_abs, real_abs]
    obtain ⟨h0, hle, herr⟩ := stepApprox_err M |v| a (abs_nonneg v) ha
    obtain ⟨z, z', hz, hz', hz0, hza, hzx, hzz⟩ := ih (fun x hx => hB x (by simp [hx]))
      (stepApprox (Sc.rounded M) |v| a) (stepApprox Sc.real |v| a') h0
    have hvB : |v| ≤ B := hB v (by simp)
    have hbp := b_pos M
    have hb1 := one_le_b M
    have hP : 0 ≤ (b M) ^ t.length := pow_nonneg hbp.le _
    have hP1 : (1 : ℝ) ≤ (b M) ^ t.length := one_le_pow₀ hb1
    refine ⟨z, z', hz, hz', hz0, ?_, ?_, ?_⟩
    · refine le_trans hza ?_
      rw [List.length_cons, pow_succ, mul_assoc]
      refine mul_le_mul_of_nonneg_left (le_trans hle ?_) hP
      exact mul_le_mul_of_nonneg_left (min_le_right _ _) hbp.le
    · intro x hx
      rcases List.mem_cons.mp hx with rfl | hx
      · refine le_trans hza ?_
        rw [List.length_cons, pow_succ, mul_assoc]
        refine mul_le_mul_of_nonneg_left (le_trans hle ?_) hP
        exact mul_le_mul_of_nonneg_left (min_le_left _ _) hbp.le
      · refine le_trans (hzx x hx) ?_
        rw [List.length_cons, pow_succ, mul_assoc]
        refine mul_le_mul_of_nonneg_left ?_ hP
        have := abs_nonneg x
        nlinarith
    · refine le_trans hzz ?_
      have hstep : |stepApprox (Sc.rounded M) |v| a - stepApprox Sc.real |v| a'| ≤ |a - a'| + eta M B := by
        have e : stepApprox (Sc.rounded M) |v| a - stepApprox Sc.real |v| a' =
            (stepApprox (Sc.rounded M) |v| a - stepApprox Sc.real |v| a) +
            (stepApprox Sc.real |v| a - stepApprox Sc.real |v| a') := by ring
        rw [e]
        refine le_trans (abs_add_le _ _) ?_
        have h1 := le_trans herr (eta_mono M (le_trans (min_le_left _ _) hvB))
        have h2 := TrackL.approx_lip |v| a a'
        linarith
      rw [List.length_cons]
      push_cast
      linarith

/-- what the rule computes for one neighbour, for any scalar semantics -/
def approxOneS {α : Type} (S : Sc α) (ms : List (Nat × α)) (ex : Nat × α) : Option (Nat × α) :=
  (foldAbs S (stepApprox S) ((ms.filter (fun m => m.1 != ex.1)).map (·.2)) none).map (fun mag =>
    (ex.1, if signParity S ((ms.filter (fun m => m.1 != ex.1)).map (·.2)) then S.neg mag else mag))

theorem checkApprox_eq {α : Type} (S : Sc α) (ms : List (Nat × α)) : checkApprox S ms = ms.mapM (approxOneS S ms) := rfl

/-- the relation between an emitted rounded message and the emitted real message -/
def RelR (B : ℝ) (k : ℕ) (ms : List (Nat × ℝ)) (o o' : Nat × ℝ) : Prop :=
  o.1 = o'.1 ∧ |o.2 - o'.2| ≤ k * eta M B ∧
  (∀ m ∈ ms, m.1 ≠ o.1 → |o.2| ≤ (b M) ^ k * |m.2|) ∧
  (o.2 < 0 → signParity Sc.real ((ms.filter (fun m => m.1 != o.1)).map (·.2)) = true) ∧
  (0 < o.2 → signParity Sc.real ((ms.filter (fun m => m.1 != o.1)).map (·.2)) = false)

theorem approxOne_err (B : ℝ) (ms : List (Nat × ℝ)) (hB : ∀ m ∈ ms, |m.2| ≤ B) (hn : (ms.map Prod.fst).Nodup)
    (hd : 2 ≤ ms.length) (ex : Nat × ℝ) (hex : ex ∈ ms) :
    ∃ y y', approxOneS (Sc.rounded M) ms ex = some y ∧ approxOneS Sc.real ms ex = some y' ∧
      RelR M B (ms.length - 2) ms y y' := by
  unfold approxOneS
  set others := (ms.filter (fun m => m.1 != ex.1)).map (·.2) with hoth
  have hne := BoxL.filter_ne_nil ms hn hd ex.1
  have hlen : (ms.filter (fun m => m.1 != ex.1)).length = ms.length - 1 := by
    obtain ⟨l1, l2, rfl⟩ := List.append_of_mem hex
    have hnd : ∀ m ∈ l1 ++ l2, m.1 ≠ ex.1 := by
      intro m hm
      have : (List.map Prod.fst (l1 ++ ex :: l2)).Nodup := hn
      rw [List.map_append, List.map_cons] at this
      have h1 := List.nodup_append.mp this
      rcases List.mem_append.mp hm with h | h
      · intro heq
        exact h1.2.2 m.1 (List.mem_map_of_mem h) ex.1 (by simp) heq
      · intro heq
        have h2 := (List.nodup_cons.mp h1.2.1).1
        exact h2 (heq ▸ List.mem_map_of_mem h)
    rw [List.filter_append, List.filter_cons]
    simp only [bne_self_eq_false, Bool.false_eq_true, if_false, List.length_append, List.length_cons]
    have f1 : l1.filter (fun m => m.1 != ex.1) = l1 := List.filter_eq_self.mpr (fun m hm => by
      simpa using hnd m (List.mem_append_left _ hm))
    have f2 : l2.filter (fun m => m.1 != ex.1) = l2 := List.filter_eq_self.mpr (fun m hm => by
      simpa using hnd m (List.mem_append_right _ hm))
    rw [f1, f2]; omega
  have holen : others.length = ms.length - 1 := by rw [hoth, List.length_map, hlen]
  have hBo : ∀ x ∈ others, |x| ≤ B := by
    intro x hx
    rw [hoth] at hx
    obtain ⟨m, hm, rfl⟩ := List.mem_map.mp hx
    exact hB m (List.mem_filter.mp hm).1
  have hvt : (ms.filter (fun m => m.1 != ex.1)).map (·.2) = others := hoth.symm
  cases hcase : others with
  | nil => rw [hcase] at holen; simp at holen; omega
  | cons v t =>
    rw [foldAbs_none_cons, foldAbs_none_cons, r_abs, real_abs]
    have htlen : t.length = ms.length - 2 := by rw [hcase] at holen; simp at holen; omega
    obtain ⟨z, z', hz, hz', hz0, hza, hzx, hzz⟩ := fold_approx_err M B t (fun x hx => hBo x (by rw [hcase]; simp [hx]))
      |v| |v| (abs_nonneg v)
    rw [hz, hz']
    refine ⟨_, _, rfl, rfl, rfl, ?_, ?_, ?_, ?_⟩
    · simp only [r_signParity, r_neg, real_neg]
      rw [sub_self, abs_zero, zero_add, htlen] at hzz
      split
      · rw [neg_sub_neg, abs_sub_comm]; exact hzz
      · exact hzz
    · intro m hm hne'
      have hmo : m.2 ∈ others := by
        rw [hoth]; exact List.mem_map_of_mem (List.mem_filter.mpr ⟨hm, by simpa using hne'⟩)
      have habs : |(if signParity (Sc.rounded M) (v :: t) = true then (Sc.rounded M).neg z else z)| = z := by
        split
        · rw [r_neg, abs_neg, abs_of_nonneg hz0]
        · exact abs_of_nonneg hz0
      simp only [] at habs ⊢
      rw [habs, ← htlen]
      rw [hcase] at hmo
      rcases List.mem_cons.mp hmo with h | h
      · rw [h]; exact hza
      · exact hzx _ h
    · intro hneg
      simp only [r_signParity, r_neg] at hneg ⊢
      rw [hvt, hcase]
      by_contra hc
      rw [if_neg hc] at hneg
      linarith
    · intro hpos
      simp only [r_signParity, r_neg] at hpos ⊢
      rw [hvt, hcase]
      by_contra hc
      have hc' : signParity Sc.real (v :: t) = true := by simpa using hc
      rw [if_pos hc'] at hpos
      linarith

theorem approx_rule (B : ℝ) (msgs : List (Nat × ℝ)) (hn : (msgs.map Prod.fst).Nodup)
    (hB : ∀ m ∈ msgs, |m.2| ≤ B) (hd : 2 ≤ msgs.length) :
    ∃ out outR, checkApprox (Sc.rounded M) msgs = some out ∧ checkApprox Sc.real msgs = some outR ∧
      out.map Prod.fst = msgs.map Prod.fst ∧ outR.map Prod.fst = msgs.map Prod.fst ∧
      ∀ i, i < out.length →
        |(out.getD i (0, 0)).2 - (outR.getD i (0, 0)).2| ≤ ((msgs.length - 2 : ℕ) : ℝ) * eta M B ∧
        (∀ m ∈ msgs, m.1 ≠ (out.getD i (0, 0)).1 → |(out.getD i (0, 0)).2| ≤ (b M) ^ (msgs.length - 2) * |m.2|) ∧
        ((out.getD i (0, 0)).2 < 0 →
          signParity Sc.real ((msgs.filter (fun m => m.1 != (out.getD i (0, 0)).1)).map (·.2)) = true) ∧
        (0 < (out.getD i (0, 0)).2 →
          signParity Sc.real ((msgs.filter (fun m => m.1 != (out.getD i (0, 0)).1)).map (·.2)) = false) := by
  rw [checkApprox_eq, checkApprox_eq]
  obtain ⟨out, out', ho, ho', hF⟩ := TrackL.mapM_forall₂ (approxOneS (Sc.rounded M) msgs) (approxOneS Sc.real msgs) id
    (fun y y' => RelR M B (msgs.length - 2) msgs y y' ∧ ∃ ex ∈ msgs, y.1 = ex.1) msgs (by
      intro ex hex
      obtain ⟨y, y', h1, h2, h3⟩ := approxOne_err M B msgs hB hn hd ex hex
      refine ⟨y, y', h1, h2, h3, ex, hex, ?_⟩
      unfold approxOneS at h1
      rcases hfo : foldAbs (Sc.rounded M) (stepApprox (Sc.rounded M)) ((msgs.filter (fun m => m.1 != ex.1)).map (·.2)) none with _ | mag
      · rw [hfo] at h1; simp at h1
      · rw [hfo] at h1; simp only [Option.map_some, Option.some.injEq] at h1; rw [← h1])
  rw [List.map_id] at ho'
  have hfst : ∀ (l : List (Nat × ℝ)) (o : List (Nat × ℝ)), l.mapM (approxOneS (Sc.rounded M) msgs) = some o →
      o.map Prod.fst = l.map Prod.fst := by
    intro l
    induction l with
    | nil => intro o h; simp at h; subst h; rfl
    | cons a t ih =>
      intro o h
      rw [List.mapM_cons] at h
      rcases ha : approxOneS (Sc.rounded M) msgs a with _ | ya
      · rw [ha] at h; simp at h
      · rcases ht : t.mapM (approxOneS (Sc.rounded M) msgs) with _ | yt
        · rw [ha, ht] at h; simp at h
        · rw [ha, ht] at h
          simp only [Option.pure_def, Option.bind_eq_bind, Option.bind_some, Option.some.injEq] at h
          subst h
          have h1 : ya.1 = a.1 := by
            unfold approxOneS at ha
            rcases hfo : foldAbs (Sc.rounded M) (stepApprox (Sc.rounded M)) ((msgs.filter (fun m => m.1 != a.1)).map (·.2)) none with _ | mag
            · rw [hfo] at ha; simp at ha
            · rw [hfo] at ha; simp only [Option.map_some, Option.some.injEq] at ha; rw [← ha]
          simp [h1, ih yt ht]
  have hout := hfst msgs out ho
  have hfst' : out.map Prod.fst = out'.map Prod.fst := TrackL.forall₂_map_fst hF (fun a c h => h.1.1)
  refine ⟨out, out', ho, ho', hout, by rw [← hfst', hout], ?_⟩
  intro i hi
  obtain ⟨⟨_, h2, h3, h4, h5⟩, _⟩ := TrackL.forall₂_getD hF (0, 0) (0, 0) i hi
  exact ⟨h2, h3, h4, h5⟩

end LdpcV.Round
