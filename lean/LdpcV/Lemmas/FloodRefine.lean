/- Helper lemmas (FloodRefine) for the decoder properties C01 / C03 / C10. -/
import LdpcV.Spec.DecoderSpec
import LdpcV.Model.ArithI8
import LdpcV.Model.ArithTest
import LdpcV.Lemmas.HlRefine
namespace LdpcV
open BPRef

/-! ## Generic facts about message stores

`Store.Rep s adj f`: the store `s` has the slots `adj` and slot `(d, j)` holds the value `f d j`. -/

section Rep
variable {β : Type}

def Store.Rep (s : Store β) (adj : List (List Nat)) (f : Nat → Nat → β) : Prop :=
  ∀ d, s[d]? = (adj[d]?).map (fun (l : List Nat) => l.map (fun j => (j, f d j)))

theorem fr_rep_get {s : Store β} {adj : List (List Nat)} {f : Nat → Nat → β} (hr : s.Rep adj f) (d : Nat) :
    s[d]? = (adj[d]?).map (fun (l : List Nat) => l.map (fun j => (j, f d j))) := hr d

theorem fr_rep_length {s : Store β} {adj : List (List Nat)} {f : Nat → Nat → β} (hr : s.Rep adj f) :
    s.length = adj.length := by
  have h1 := fr_rep_get hr s.length
  have h2 := fr_rep_get hr adj.length
  simp only [List.getElem?_eq_none (Nat.le_refl _), Option.map_none] at h1 h2
  have h1' : adj[s.length]? = none := by
    cases hx : adj[s.length]? with
    | none => rfl
    | some l => rw [hx] at h1; simp at h1
  rw [List.getElem?_eq_none_iff] at h1' h2
  omega

theorem fr_rep_getD {s : Store β} {adj : List (List Nat)} {f : Nat → Nat → β} (hr : s.Rep adj f) (d : Nat) :
    s.getD d [] = (adj.getD d []).map (fun j => (j, f d j)) := by
  simp only [List.getD_eq_getElem?_getD, fr_rep_get hr d]
  cases adj[d]? <;> simp

theorem fr_rep_shape {s : Store β} {adj : List (List Nat)} {f : Nat → Nat → β} (hr : s.Rep adj f) :
    s.HasShape adj := by
  unfold Store.HasShape
  apply List.ext_getElem?
  intro d
  rw [List.getElem?_map, fr_rep_get hr d]
  cases adj[d]? <;> simp [Function.comp_def]

theorem fr_rep_congr {s : Store β} {adj : List (List Nat)} {f g : Nat → Nat → β} (hr : s.Rep adj f)
    (hfg : ∀ d l, adj[d]? = some l → ∀ j ∈ l, f d j = g d j) : s.Rep adj g := by
  unfold Store.Rep
  intro d
  rw [fr_rep_get hr d]
  cases hx : adj[d]? with
  | none => rfl
  | some l =>
    simp only [Option.map_some, Option.some.injEq]
    apply List.map_congr_left
    intro j hj
    rw [hfg d l hx j hj]

theorem fr_find_nodup (sl : List (Nat × β)) (hnd : (sl.map Prod.fst).Nodup) (p : Nat × β) (hp : p ∈ sl) :
    sl.find? (fun q => q.1 == p.1) = some p := by
  induction sl with
  | nil => simp at hp
  | cons a sl ih =>
    simp only [List.map_cons, List.nodup_cons] at hnd
    rw [List.find?_cons]
    rcases List.mem_cons.mp hp with rfl | hp'
    · simp
    · have hne : a.1 ≠ p.1 := by
        intro he
        apply hnd.1
        rw [he]
        exact List.mem_map_of_mem hp'
      have hb : (a.1 == p.1) = false := beq_false_of_ne hne
      simp only [hb]
      exact ih hnd.2 hp'

/-- every shaped store over duplicate-free slot lists is represented by some value function -/
theorem fr_rep_exists (dflt : β) (s : Store β) (adj : List (List Nat)) (hs : s.HasShape adj)
    (hnd : ∀ l ∈ adj, l.Nodup) : ∃ f, s.Rep adj f := by
  refine ⟨fun d j => (((s.getD d []).find? (fun q => q.1 == j)).map (·.2)).getD dflt, ?_⟩
  unfold Store.HasShape at hs
  subst hs
  unfold Store.Rep
  intro d
  rw [List.getElem?_map]
  cases hx : s[d]? with
  | none => rfl
  | some sl =>
    simp only [Option.map_some, Option.some.injEq, List.map_map]
    have hsl : (sl.map Prod.fst).Nodup := by
      apply hnd
      rw [List.mem_map]
      exact ⟨sl, List.mem_of_getElem? hx, rfl⟩
    have hg : s.getD d [] = sl := by simp [List.getD_eq_getElem?_getD, hx]
    rw [hg]
    symm
    calc sl.map ((fun j => (j, (((sl.find? (fun q => q.1 == j)).map (·.2)).getD dflt))) ∘ Prod.fst)
        = sl.map id := by
          apply List.map_congr_left
          intro p hp
          simp [fr_find_nodup sl hsl p hp]
      _ = sl := List.map_id _

/-- overwriting the slot keyed `src` in one slot list -/
theorem fr_slot_set (l : List Nat) (hnd : l.Nodup) (src : Nat) (hm : src ∈ l) (f : Nat → β) (v : β) :
    ∃ i, (l.map (fun j => (j, f j))).findIdx? (fun p => p.1 == src) = some i ∧
      (l.map (fun j => (j, f j))).set i (src, v) = l.map (fun j => (j, if j = src then v else f j)) := by
  induction l with
  | nil => simp at hm
  | cons a l ih =>
    simp only [List.nodup_cons] at hnd
    by_cases ha : a = src
    · subst ha
      refine ⟨0, by simp [List.findIdx?_cons], ?_⟩
      simp only [List.map_cons, List.set_cons_zero, if_true, List.cons.injEq, true_and]
      apply List.map_congr_left
      intro j hj
      have : j ≠ a := fun he => hnd.1 (he ▸ hj)
      simp [this]
    · have hm' : src ∈ l := by
        rcases List.mem_cons.mp hm with h | h
        · exact absurd h.symm ha
        · exact h
      obtain ⟨i, hi, hset⟩ := ih hnd.2 hm'
      refine ⟨i+1, ?_, ?_⟩
      · simp only [List.map_cons, List.findIdx?_cons]
        simp [ha, hi]
      · simp only [List.map_cons, List.set_cons_succ, hset, ha, if_false]

theorem fr_sendTo {s : Store β} {adj : List (List Nat)} {f : Nat → Nat → β} (hr : s.Rep adj f)
    {src dst : Nat} {l : List Nat} (hl : adj[dst]? = some l) (hnd : l.Nodup) (hm : src ∈ l) (v : β) :
    ∃ s', sendTo s src dst v = some s' ∧
      s'.Rep adj (fun d j => if d = dst ∧ j = src then v else f d j) := by
  obtain ⟨i, hi, hset⟩ := fr_slot_set l hnd src hm (f dst) v
  have hsd : s[dst]? = some (l.map (fun j => (j, f dst j))) := by rw [fr_rep_get hr dst, hl]; rfl
  refine ⟨s.set dst ((l.map (fun j => (j, f dst j))).set i (src, v)), ?_, ?_⟩
  · unfold sendTo
    rw [hsd]
    simp only
    rw [hi]
  · unfold Store.Rep
    intro d
    rw [List.getElem?_set]
    by_cases hd : dst = d
    · subst hd
      have hlt : dst < s.length := by
        have := List.getElem?_eq_some_iff.mp hsd
        exact this.1
      simp only [if_true, hlt, hl, Option.map_some, hset, true_and]
    · have hd' : ¬ d = dst := fun e => hd e.symm
      simp only [hd, if_false, fr_rep_get hr d, hd', false_and]

theorem fr_sentTo_cons (m : Nat × β) (msgs : List (Nat × β)) (d : Nat) :
    sentTo (m :: msgs) d = if m.1 = d then some m.2 else sentTo msgs d := by
  unfold sentTo
  rw [List.find?_cons]
  by_cases h : m.1 = d
  · simp [h]
  · have hb : (m.1 == d) = false := beq_false_of_ne h
    simp only [hb, if_neg h]

theorem fr_sentTo_none (msgs : List (Nat × β)) (d : Nat) (hd : d ∉ msgs.map Prod.fst) : sentTo msgs d = none := by
  induction msgs with
  | nil => rfl
  | cons m msgs ih =>
    simp only [List.map_cons, List.mem_cons, not_or] at hd
    rw [fr_sentTo_cons, if_neg (fun e => hd.1 e.symm), ih hd.2]

theorem fr_sentTo_some (msgs : List (Nat × β)) (d : Nat) (hd : d ∈ msgs.map Prod.fst) :
    ∃ v, sentTo msgs d = some v ∧ (d, v) ∈ msgs := by
  induction msgs with
  | nil => simp at hd
  | cons m msgs ih =>
    rw [fr_sentTo_cons]
    by_cases h : m.1 = d
    · refine ⟨m.2, by simp [h], ?_⟩
      rw [← h]
      exact List.mem_cons_self
    · simp only [List.map_cons, List.mem_cons] at hd
      rcases hd with hd | hd
      · exact absurd hd.symm h
      · obtain ⟨v, hv, hmem⟩ := ih hd
        exact ⟨v, by simp [h, hv], List.mem_cons_of_mem _ hmem⟩

/-- a node sends its messages: every addressed slot keyed by the node is overwritten, nothing else -/
theorem fr_sendAll {adj : List (List Nat)} (hadj : ∀ (d : Nat) (l : List Nat), adj[d]? = some l → l.Nodup) (src : Nat)
    (msgs : List (Nat × β)) (hnd : (msgs.map Prod.fst).Nodup)
    (hdst : ∀ d ∈ msgs.map Prod.fst, ∃ l, adj[d]? = some l ∧ src ∈ l)
    {s : Store β} {f : Nat → Nat → β} (hr : s.Rep adj f) :
    ∃ s', sendAll s src msgs = some s' ∧
      s'.Rep adj (fun d j => if j = src then (sentTo msgs d).getD (f d j) else f d j) := by
  induction msgs generalizing s f with
  | nil =>
    refine ⟨s, rfl, ?_⟩
    have : (fun d j => if j = src then (sentTo ([] : List (Nat × β)) d).getD (f d j) else f d j) = f := by
      funext d j
      simp [sentTo]
    rw [this]
    exact hr
  | cons m msgs ih =>
    simp only [List.map_cons, List.nodup_cons] at hnd
    obtain ⟨l, hl, hsrc⟩ := hdst m.1 (by simp)
    obtain ⟨s1, hs1, hr1⟩ := fr_sendTo hr hl (hadj _ _ hl) hsrc m.2
    obtain ⟨s2, hs2, hr2⟩ := ih hnd.2 (fun d hd => hdst d (by simp [hd])) hr1
    refine ⟨s2, ?_, ?_⟩
    · unfold sendAll at *
      rw [List.foldlM_cons, hs1]
      exact hs2
    · have : (fun d j => if j = src then (sentTo (m :: msgs) d).getD (f d j) else f d j) =
          (fun d j => if j = src then (sentTo msgs d).getD (if d = m.1 ∧ j = src then m.2 else f d j)
            else (if d = m.1 ∧ j = src then m.2 else f d j)) := by
        funext d j
        by_cases hj : j = src
        · by_cases hd : m.1 = d
          · subst hd
            rw [fr_sentTo_cons, fr_sentTo_none msgs m.1 hnd.1]
            simp [hj]
          · have hd' : ¬ d = m.1 := fun e => hd e.symm
            rw [fr_sentTo_cons]
            simp [hj, hd, hd']
        · simp [hj]
      rw [this]
      exact hr2

/-- a full pass: all sources `0 .. k-1` send -/
theorem fr_pass {adj : List (List Nat)} (hadj : ∀ (d : Nat) (l : List Nat), adj[d]? = some l → l.Nodup)
    (em : Nat → List (Nat × β)) (k : Nat)
    (hnd : ∀ src, src < k → ((em src).map Prod.fst).Nodup)
    (hdst : ∀ src, src < k → ∀ d ∈ (em src).map Prod.fst, ∃ l, adj[d]? = some l ∧ src ∈ l)
    {s : Store β} {f : Nat → Nat → β} (hr : s.Rep adj f) :
    ∃ s', (List.range k).foldlM (fun s src => sendAll s src (em src)) s = some s' ∧
      s'.Rep adj (fun d j => if j < k then (sentTo (em j) d).getD (f d j) else f d j) := by
  induction k with
  | zero =>
    refine ⟨s, rfl, ?_⟩
    simpa using hr
  | succ k ih =>
    obtain ⟨s1, hs1, hr1⟩ := ih (fun src hs => hnd src (by omega)) (fun src hs => hdst src (by omega))
    obtain ⟨s2, hs2, hr2⟩ := fr_sendAll hadj k (em k) (hnd k (by omega)) (hdst k (by omega)) hr1
    refine ⟨s2, ?_, ?_⟩
    · rw [List.range_succ, List.foldlM_append, hs1]
      simp [hs2]
    · apply fr_rep_congr hr2
      intro d l _ j _
      by_cases hj : j = k
      · subst hj
        simp
      · by_cases hj2 : j < k
        · have : j < k + 1 := by omega
          simp [hj, hj2, this]
        · have : ¬ j < k + 1 := by omega
          simp [hj, hj2, this]

/-- a full pass overwrites every slot: the result does not depend on the previous contents -/
theorem fr_pass_full (dflt : β) {adj : List (List Nat)} (hadj : ∀ (d : Nat) (l : List Nat), adj[d]? = some l → l.Nodup)
    (em : Nat → List (Nat × β)) (k : Nat)
    (hnd : ∀ src, src < k → ((em src).map Prod.fst).Nodup)
    (hdst : ∀ src, src < k → ∀ d ∈ (em src).map Prod.fst, ∃ l, adj[d]? = some l ∧ src ∈ l)
    (hfull : ∀ (d : Nat) (l : List Nat), adj[d]? = some l → ∀ j ∈ l, j < k ∧ d ∈ (em j).map Prod.fst)
    {s : Store β} {f : Nat → Nat → β} (hr : s.Rep adj f) :
    ∃ s', (List.range k).foldlM (fun s src => sendAll s src (em src)) s = some s' ∧
      s'.Rep adj (fun d j => (sentTo (em j) d).getD dflt) := by
  obtain ⟨s', hs', hr'⟩ := fr_pass hadj em k hnd hdst hr
  refine ⟨s', hs', fr_rep_congr hr' ?_⟩
  intro d l hl j hj
  obtain ⟨hjk, hmem⟩ := hfull d l hl j hj
  obtain ⟨v, hv, _⟩ := fr_sentTo_some (em j) d hmem
  simp [hjk, hv]

end Rep

/-! ## Stores over the two adjacency lists of a parity-check matrix -/

section Matrix
variable {β : Type}

/-- the transposed matrix (checks and variables exchanged) -/
def fr_tr (h : SM) : SM := ⟨h.cols, h.rows⟩

theorem fr_tr_inv {h : SM} (hinv : h.Inv) : (fr_tr h).Inv := by
  obtain ⟨h1, h2, h3, h4⟩ := hinv
  refine ⟨?_, ?_, h4, h3⟩
  · intro r c hc
    obtain ⟨a, b, c'⟩ := h2 c r hc
    exact ⟨b, a, c'⟩
  · intro r c hc
    obtain ⟨a, b, c'⟩ := h1 c r hc
    exact ⟨b, a, c'⟩

theorem fr_rows_get (h : SM) (d : Nat) (l : List Nat) (hl : h.rows[d]? = some l) : l = h.row d ∧ d < h.nrows := by
  obtain ⟨hlt, he⟩ := List.getElem?_eq_some_iff.mp hl
  refine ⟨?_, hlt⟩
  simp [SM.row, List.getD_eq_getElem?_getD, hl]

theorem fr_rows_get_of_lt (h : SM) (d : Nat) (hd : d < h.nrows) : h.rows[d]? = some (h.row d) := by
  unfold SM.nrows at hd
  simp [SM.row, List.getD_eq_getElem?_getD, hd]

/-- all variables send to the per-check store: the result is determined by what was sent -/
theorem fr_pass_rows (dflt : β) (h : SM) (hinv : h.Inv) (em : Nat → List (Nat × β))
    (hem : ∀ v, v < h.ncols → ((em v).map Prod.fst).Perm (h.col v))
    {s : Store β} {f : Nat → Nat → β} (hr : s.Rep h.rows f) :
    ∃ s', (List.range h.ncols).foldlM (fun s v => sendAll s v (em v)) s = some s' ∧
      s'.Rep h.rows (fun c v => (sentTo (em v) c).getD dflt) := by
  obtain ⟨h1, h2, h3, h4⟩ := hinv
  apply fr_pass_full dflt _ em h.ncols _ _ _ hr
  · intro d l hl
    rw [(fr_rows_get h d l hl).1]
    exact h3 d
  · intro v hv
    exact (hem v hv).nodup_iff.mpr (h4 v)
  · intro v hv d hd
    have hd' : d ∈ h.col v := (hem v hv).mem_iff.mp hd
    obtain ⟨a, _, c⟩ := h2 d v hd'
    exact ⟨h.row d, fr_rows_get_of_lt h d a, c⟩
  · intro d l hl j hj
    rw [(fr_rows_get h d l hl).1] at hj
    obtain ⟨_, b, c⟩ := h1 d j hj
    exact ⟨b, (hem j b).mem_iff.mpr c⟩

/-- all checks send to the per-variable store -/
theorem fr_pass_cols (dflt : β) (h : SM) (hinv : h.Inv) (em : Nat → List (Nat × β))
    (hem : ∀ c, c < h.nrows → ((em c).map Prod.fst).Perm (h.row c))
    {s : Store β} {f : Nat → Nat → β} (hr : s.Rep h.cols f) :
    ∃ s', (List.range h.nrows).foldlM (fun s c => sendAll s c (em c)) s = some s' ∧
      s'.Rep h.cols (fun v c => (sentTo (em c) v).getD dflt) :=
  fr_pass_rows dflt (fr_tr h) (fr_tr_inv hinv) em hem hr

theorem fr_mapM_some {α γ : Type} (f : α → Option γ) (g : α → γ) (l : List α)
    (hfg : ∀ x ∈ l, f x = some (g x)) : l.mapM f = some (l.map g) := by
  induction l with
  | nil => rfl
  | cons a l ih =>
    rw [List.mapM_cons, hfg a (by simp), ih (fun x hx => hfg x (by simp [hx]))]
    rfl

/-- the messages arriving at check `c`, looked up by name in what the variables emitted -/
theorem fr_incoming_rows (dflt : β) (h : SM) (hinv : h.Inv) (eml : List (List (Nat × β)))
    (hem : ∀ v, v < h.ncols → ((eml.getD v []).map Prod.fst).Perm (h.col v)) (c : Nat) :
    (h.row c).mapM (fun v => (sentTo (eml.getD v []) c).map (fun x => (v, x)))
      = some ((h.row c).map (fun v => (v, (sentTo (eml.getD v []) c).getD dflt))) ∧
    ∀ v ∈ h.row c, ∃ x, sentTo (eml.getD v []) c = some x ∧ (c, x) ∈ eml.getD v [] := by
  have key : ∀ v ∈ h.row c, ∃ x, sentTo (eml.getD v []) c = some x ∧ (c, x) ∈ eml.getD v [] := by
    intro v hv
    obtain ⟨_, b, hc⟩ := hinv.1 c v hv
    exact fr_sentTo_some _ c ((hem v b).mem_iff.mpr hc)
  refine ⟨?_, key⟩
  apply fr_mapM_some
  intro v hv
  obtain ⟨x, hx, _⟩ := key v hv
  rw [hx]
  rfl

theorem fr_incoming_cols (dflt : β) (h : SM) (hinv : h.Inv) (eml : List (List (Nat × β)))
    (hem : ∀ c, c < h.nrows → ((eml.getD c []).map Prod.fst).Perm (h.row c)) (v : Nat) :
    (h.col v).mapM (fun c => (sentTo (eml.getD c []) v).map (fun x => (c, x)))
      = some ((h.col v).map (fun c => (c, (sentTo (eml.getD c []) v).getD dflt))) ∧
    ∀ c ∈ h.col v, ∃ x, sentTo (eml.getD c []) v = some x ∧ (v, x) ∈ eml.getD c [] :=
  fr_incoming_rows dflt (fr_tr h) (fr_tr_inv hinv) eml hem v

theorem fr_foldlM_congr {α σ : Type} (l : List α) (f g : σ → α → Option σ)
    (hfg : ∀ x ∈ l, ∀ a, f a x = g a x) (a : σ) : l.foldlM f a = l.foldlM g a := by
  induction l generalizing a with
  | nil => rfl
  | cons x l ih =>
    rw [List.foldlM_cons, List.foldlM_cons, hfg x (by simp) a]
    cases g a x with
    | none => rfl
    | some b => exact ih (fun y hy => hfg y (by simp [hy])) b

theorem fr_getD_map_range {γ : Type} (g : Nat → γ) (n i : Nat) (hi : i < n) (d : γ) :
    ((List.range n).map g).getD i d = g i := by
  simp [List.getD_eq_getElem?_getD, hi]

end Matrix

/-! ## The two passes of the model, and one iteration of the reference -/

section Passes
variable {A : Arith}


theorem fr_cols_nodup {h : SM} (hinv : h.Inv) : ∀ l ∈ h.cols, l.Nodup := by
  intro l hl
  obtain ⟨i, hi, rfl⟩ := List.getElem_of_mem hl
  have : h.cols[i] = h.col i := by simp [SM.col, List.getD_eq_getElem?_getD, hi]
  rw [this]
  exact hinv.2.2.2 i

theorem fr_rows_nodup {h : SM} (hinv : h.Inv) : ∀ l ∈ h.rows, l.Nodup :=
  fr_cols_nodup (fr_tr_inv hinv)

theorem fr_checkPass (h : SM) (hinv : h.Inv) (st : FloodSt A) (hvm : st.varMsgs.length = h.nrows)
    (hcm : st.checkMsgs.HasShape h.cols) (cout : Nat → List (Nat × A.CheckMsg))
    (hrule : ∀ c, c < h.nrows → A.checkRule (st.varMsgs.getD c []) = some (cout c))
    (hperm : ∀ c, c < h.nrows → ((cout c).map Prod.fst).Perm (h.row c)) :
    ∃ cm', Flood.checkPass st = some { st with checkMsgs := cm' } ∧
      cm'.Rep h.cols (fun v c => (sentTo (cout c) v).getD A.dCheck) := by
  obtain ⟨f, hf⟩ := fr_rep_exists A.dCheck st.checkMsgs h.cols hcm (fr_cols_nodup hinv)
  obtain ⟨cm', hfold, hrep⟩ := fr_pass_cols A.dCheck h hinv cout hperm hf
  refine ⟨cm', ?_, hrep⟩
  unfold Flood.checkPass
  rw [hvm, fr_foldlM_congr _ _ (fun cm c => sendAll cm c (cout c)) ?_, hfold]
  · rfl
  · intro c hc cm
    rw [hrule c (List.mem_range.mp hc)]
    rfl

theorem fr_foldlM_pair {β γ : Type} (l : List Nat) (res : Nat → γ × List (Nat × β)) (s : Store β) (out : List γ) :
    l.foldlM (fun (acc : Store β × List γ) v =>
        (sendAll acc.1 v (res v).2).bind (fun vm => some (vm, (res v).1 :: acc.2))) (s, out)
      = (l.foldlM (fun s v => sendAll s v (res v).2) s).map
          (fun vm => (vm, (l.map (fun v => (res v).1)).reverse ++ out)) := by
  induction l generalizing s out with
  | nil => simp
  | cons v l ih =>
    rw [List.foldlM_cons, List.foldlM_cons]
    cases hs : sendAll s v (res v).2 with
    | none => rfl
    | some s1 =>
      simp only [Option.bind_some, Option.bind_eq_bind]
      rw [ih]
      simp

theorem fr_varPass (h : SM) (hinv : h.Inv) (st : FloodSt A) (hcm : st.checkMsgs.length = h.ncols)
    (hvm : st.varMsgs.HasShape h.rows) (vres : Nat → A.Llr × List (Nat × A.VarMsg))
    (hrule : ∀ v, v < h.ncols → A.varRule (st.input.getD v A.dLlr) (st.checkMsgs.getD v []) = some (vres v))
    (hperm : ∀ v, v < h.ncols → (((vres v).2).map Prod.fst).Perm (h.col v)) :
    ∃ vm', Flood.varPass st = some { st with varMsgs := vm', output := (List.range h.ncols).map (fun v => (vres v).1) } ∧
      vm'.Rep h.rows (fun c v => (sentTo (vres v).2 c).getD A.dVar) := by
  obtain ⟨f, hf⟩ := fr_rep_exists A.dVar st.varMsgs h.rows hvm (fr_rows_nodup hinv)
  obtain ⟨vm', hfold, hrep⟩ := fr_pass_rows A.dVar h hinv (fun v => (vres v).2) hperm hf
  refine ⟨vm', ?_, hrep⟩
  unfold Flood.varPass
  rw [hcm, fr_foldlM_congr _ _ (fun (acc : Store A.VarMsg × List A.Llr) v =>
        (sendAll acc.1 v (vres v).2).bind (fun vm => some (vm, (vres v).1 :: acc.2))) ?_,
     fr_foldlM_pair, hfold]
  · simp
  · intro c hc cm
    rw [hrule c (List.mem_range.mp hc)]
    rfl


theorem fr_floodIter (h : SM) (input : List A.Llr) (em : List (List (Nat × A.VarMsg)))
    (cinc : Nat → List (Nat × A.VarMsg)) (cout : Nat → List (Nat × A.CheckMsg))
    (vinc : Nat → List (Nat × A.CheckMsg)) (vres : Nat → A.Llr × List (Nat × A.VarMsg))
    (hc1 : ∀ c, c < h.nrows → checkIncoming h em c = some (cinc c))
    (hc2 : ∀ c, c < h.nrows → A.checkRule (cinc c) = some (cout c))
    (hv1 : ∀ v, v < h.ncols → varIncoming h ((List.range h.nrows).map cout) v = some (vinc v))
    (hv2 : ∀ v, v < h.ncols → A.varRule (input.getD v A.dLlr) (vinc v) = some (vres v)) :
    ∃ t, floodIter h input em =
      some ((List.range h.ncols).map (fun v => (vres v).2), (List.range h.ncols).map (fun v => (vres v).1), t) := by
  have hchecks : (List.range h.nrows).mapM (fun c => do
        let inc ← checkIncoming h em c
        let out ← A.checkRule inc
        pure (inc, out)) = some ((List.range h.nrows).map (fun c => (cinc c, cout c))) := by
    apply fr_mapM_some
    intro c hc
    rw [hc1 c (List.mem_range.mp hc)]
    simp only [Option.bind_eq_bind, Option.bind_some]
    rw [hc2 c (List.mem_range.mp hc)]
    rfl
  have hvars : (List.range h.ncols).mapM (fun v => do
        let inc ← varIncoming h ((List.range h.nrows).map cout) v
        let r ← A.varRule (input.getD v A.dLlr) inc
        pure (inc, r)) = some ((List.range h.ncols).map (fun v => (vinc v, vres v))) := by
    apply fr_mapM_some
    intro v hv
    rw [hv1 v (List.mem_range.mp hv)]
    simp only [Option.bind_eq_bind, Option.bind_some]
    rw [hv2 v (List.mem_range.mp hv)]
    rfl
  unfold floodIter
  rw [hchecks]
  simp only [Option.bind_eq_bind, Option.bind_some, List.map_map, Function.comp_def]
  simp only [Option.bind_eq_bind] at hvars
  rw [hvars]
  simp only [Option.bind_some, List.map_map, Function.comp_def]
  exact ⟨_, rfl⟩

end Passes

/-! ## One iteration: the model state keeps representing the reference state -/

section Step
variable {A : Arith}


/-- the model state `st` represents the reference state `(em, llrs)` -/
structure FloodRel {h : SM} (wb : WellBehaved A h) (input : List A.Llr) (st : FloodSt A)
    (em : List (List (Nat × A.VarMsg))) (llrs : List A.Llr) : Prop where
  input_eq : st.input = input
  output_eq : st.output = llrs
  llrs_len : llrs.length = h.ncols
  vm : st.varMsgs.Rep h.rows (fun c v => (sentTo (em.getD v []) c).getD A.dVar)
  cm : st.checkMsgs.HasShape h.cols
  em_perm : ∀ v, v < h.ncols → ((em.getD v []).map Prod.fst).Perm (h.col v)
  em_ok : ∀ v, v < h.ncols → ∀ m ∈ em.getD v [], wb.okVar m.2

theorem fr_getD_mem {α : Type} (l : List α) (i : Nat) (hi : i < l.length) (d : α) : l.getD i d ∈ l := by
  simp [List.getD_eq_getElem?_getD, hi]

theorem fr_step (h : SM) (hinv : h.Inv) (wb : WellBehaved A h) (input : List A.Llr)
    (hlen : input.length = h.ncols) (hok : ∀ x ∈ input, wb.okLlr x)
    (st : FloodSt A) (em : List (List (Nat × A.VarMsg))) (llrs : List A.Llr)
    (R : FloodRel wb input st em llrs) :
    ∃ st1 st2 em' llrs' t, Flood.checkPass st = some st1 ∧ Flood.varPass st1 = some st2 ∧
      floodIter h input em = some (em', llrs', t) ∧ FloodRel wb input st2 em' llrs' := by
  -- check nodes
  have hcinc : ∀ c, st.varMsgs.getD c [] = (h.row c).map (fun v => (v, (sentTo (em.getD v []) c).getD A.dVar)) :=
    fun c => fr_rep_getD R.vm c
  have hc1 : ∀ c, c < h.nrows → checkIncoming h em c = some (st.varMsgs.getD c []) := by
    intro c _
    rw [hcinc c]
    exact (fr_incoming_rows A.dVar h hinv em R.em_perm c).1
  have hcfst : ∀ c, (st.varMsgs.getD c []).map Prod.fst = h.row c := by
    intro c
    rw [hcinc c]
    simp [List.map_map, Function.comp_def]
  have hcok : ∀ c, ∀ m ∈ st.varMsgs.getD c [], wb.okVar m.2 := by
    intro c m hm
    rw [hcinc c, List.mem_map] at hm
    obtain ⟨v, hv, rfl⟩ := hm
    obtain ⟨x, hx, hmem⟩ := (fr_incoming_rows A.dVar h hinv em R.em_perm c).2 v hv
    simp only [hx, Option.getD_some]
    exact R.em_ok v (hinv.1 c v hv).2.1 _ hmem
  have hcrule : ∀ c, c < h.nrows → ∃ out, A.checkRule (st.varMsgs.getD c []) = some out ∧
      (out.map Prod.fst).Perm (h.row c) ∧ ∀ m ∈ out, wb.okCheck m.2 := by
    intro c hc
    obtain ⟨out, h1, h2, h3⟩ := wb.check_ok c hc _ (hcfst c) (hcok c)
    exact ⟨out, h1, hcfst c ▸ h2, h3⟩
  let cout : Nat → List (Nat × A.CheckMsg) := fun c => (A.checkRule (st.varMsgs.getD c [])).getD []
  have hc2 : ∀ c, c < h.nrows → A.checkRule (st.varMsgs.getD c []) = some (cout c) := by
    intro c hc
    obtain ⟨out, h1, _⟩ := hcrule c hc
    simp only [cout, h1, Option.getD_some]
  have hcperm : ∀ c, c < h.nrows → ((cout c).map Prod.fst).Perm (h.row c) := by
    intro c hc
    obtain ⟨out, h1, h2, _⟩ := hcrule c hc
    simpa only [cout, h1, Option.getD_some] using h2
  have hcoutok : ∀ c, c < h.nrows → ∀ m ∈ cout c, wb.okCheck m.2 := by
    intro c hc
    obtain ⟨out, h1, _, h3⟩ := hcrule c hc
    simpa only [cout, h1, Option.getD_some] using h3
  obtain ⟨cm', hcp, hcrep⟩ := fr_checkPass h hinv st ((fr_rep_length R.vm).trans rfl) R.cm cout hc2 hcperm
  -- variable nodes
  have hCE : ∀ c, c < h.nrows → ((List.range h.nrows).map cout).getD c [] = cout c :=
    fun c hc => fr_getD_map_range cout h.nrows c hc []
  have hCEperm : ∀ c, c < h.nrows → ((((List.range h.nrows).map cout).getD c []).map Prod.fst).Perm (h.row c) := by
    intro c hc
    rw [hCE c hc]
    exact hcperm c hc
  have hvinc : ∀ v, cm'.getD v [] =
      (h.col v).map (fun c => (c, (sentTo (((List.range h.nrows).map cout).getD c []) v).getD A.dCheck)) := by
    intro v
    rw [fr_rep_getD hcrep v]
    apply List.map_congr_left
    intro c hc
    rw [hCE c (hinv.2.1 c v hc).1]
  have hv1 : ∀ v, v < h.ncols → varIncoming h ((List.range h.nrows).map cout) v = some (cm'.getD v []) := by
    intro v _
    rw [hvinc v]
    exact (fr_incoming_cols A.dCheck h hinv _ hCEperm v).1
  have hvfst : ∀ v, (cm'.getD v []).map Prod.fst = h.col v := by
    intro v
    rw [hvinc v]
    simp [List.map_map, Function.comp_def]
  have hvok : ∀ v, ∀ m ∈ cm'.getD v [], wb.okCheck m.2 := by
    intro v m hm
    rw [hvinc v, List.mem_map] at hm
    obtain ⟨c, hc, rfl⟩ := hm
    obtain ⟨x, hx, hmem⟩ := (fr_incoming_cols A.dCheck h hinv _ hCEperm v).2 c hc
    simp only [hx, Option.getD_some]
    have hcl := (hinv.2.1 c v hc).1
    rw [hCE c hcl] at hmem
    exact hcoutok c hcl _ hmem
  have hinok : ∀ v, v < h.ncols → wb.okLlr (input.getD v A.dLlr) :=
    fun v hv => hok _ (fr_getD_mem input v (hlen ▸ hv) _)
  have hvrule : ∀ v, v < h.ncols → ∃ r, A.varRule (input.getD v A.dLlr) (cm'.getD v []) = some r ∧
      (r.2.map Prod.fst).Perm (h.col v) ∧ ∀ m ∈ r.2, wb.okVar m.2 := by
    intro v hv
    obtain ⟨l, out, h1, h2, h3⟩ := wb.var_ok v hv _ _ (hinok v hv) (hvfst v) (hvok v)
    exact ⟨(l, out), h1, hvfst v ▸ h2, h3⟩
  let vres : Nat → A.Llr × List (Nat × A.VarMsg) :=
    fun v => (A.varRule (input.getD v A.dLlr) (cm'.getD v [])).getD (A.dLlr, [])
  have hv2 : ∀ v, v < h.ncols → A.varRule (input.getD v A.dLlr) (cm'.getD v []) = some (vres v) := by
    intro v hv
    obtain ⟨r, h1, _⟩ := hvrule v hv
    simp only [vres, h1, Option.getD_some]
  have hvperm : ∀ v, v < h.ncols → (((vres v).2).map Prod.fst).Perm (h.col v) := by
    intro v hv
    obtain ⟨r, h1, h2, _⟩ := hvrule v hv
    simpa only [vres, h1, Option.getD_some] using h2
  have hvresok : ∀ v, v < h.ncols → ∀ m ∈ (vres v).2, wb.okVar m.2 := by
    intro v hv
    obtain ⟨r, h1, _, h3⟩ := hvrule v hv
    simpa only [vres, h1, Option.getD_some] using h3
  obtain ⟨vm', hvp, hvrep⟩ := fr_varPass h hinv { st with checkMsgs := cm' }
    ((fr_rep_length hcrep).trans rfl) (fr_rep_shape R.vm) vres
    (fun v hv => by simpa only [R.input_eq] using hv2 v hv) hvperm
  obtain ⟨t, hiter⟩ := fr_floodIter h input em (fun c => st.varMsgs.getD c []) cout
    (fun v => cm'.getD v []) vres hc1 hc2 hv1 hv2
  have hEM : ∀ v, v < h.ncols → ((List.range h.ncols).map (fun v => (vres v).2)).getD v [] = (vres v).2 :=
    fun v hv => fr_getD_map_range (fun v => (vres v).2) h.ncols v hv []
  refine ⟨_, _, _, _, t, hcp, hvp, hiter, ?_⟩
  refine ⟨R.input_eq, rfl, by simp, ?_, fr_rep_shape hcrep, ?_, ?_⟩
  · apply fr_rep_congr hvrep
    intro c l hl v hv
    rw [(fr_rows_get h c l hl).1] at hv
    rw [hEM v (hinv.1 c v hv).2.1]
  · intro v hv
    rw [hEM v hv]
    exact hvperm v hv
  · intro v hv
    rw [hEM v hv]
    exact hvresok v hv

end Step

/-! ## Initialisation, the loop, and `decode` -/

section Decode
variable {A : Arith}


theorem fr_blank_shape {β : Type} (d : β) (adj : List (List Nat)) : (Store.blank d adj).HasShape adj := by
  simp [Store.HasShape, Store.blank, List.map_map, Function.comp_def]

theorem fr_fresh_shape (h : SM) : Flood.Shape h (Flood.fresh A h) :=
  ⟨by simp [Flood.fresh, SM.ncols], by simp [Flood.fresh, SM.ncols], fr_blank_shape _ _, fr_blank_shape _ _⟩

theorem fr_rel_shape {h : SM} {wb : WellBehaved A h} {input : List A.Llr} (hlen : input.length = h.ncols)
    {st : FloodSt A} {em : List (List (Nat × A.VarMsg))} {llrs : List A.Llr}
    (R : FloodRel wb input st em llrs) : Flood.Shape h st :=
  ⟨by rw [R.input_eq, hlen], by rw [R.output_eq, R.llrs_len], R.cm, fr_rep_shape R.vm⟩

theorem fr_init (h : SM) (hinv : h.Inv) (wb : WellBehaved A h) (st : FloodSt A) (hs : Flood.Shape h st)
    (llrs : List UInt64) (hlen : llrs.length = h.ncols) :
    ∃ st0, Flood.initSt h st llrs = some st0 ∧
      FloodRel wb (llrs.map A.quantize) st0 (initEmitted h (llrs.map A.quantize)) (llrs.map A.quantize) := by
  have hilen : (llrs.map A.quantize).length = h.ncols := by simp [hlen]
  let emf : Nat → List (Nat × A.VarMsg) :=
    fun v => (h.col v).map (fun c => (c, A.toVarMsg ((llrs.map A.quantize).getD v A.dLlr)))
  have hfst : ∀ v, (emf v).map Prod.fst = h.col v := by
    intro v
    simp [emf, List.map_map, Function.comp_def]
  obtain ⟨f, hf⟩ := fr_rep_exists A.dVar st.varMsgs h.rows hs.varMsgs (fr_rows_nodup hinv)
  obtain ⟨vm', hfold, hrep⟩ := fr_pass_rows A.dVar h hinv emf (fun v _ => by rw [hfst v]) hf
  have hEM : ∀ v, v < h.ncols → (initEmitted h (llrs.map A.quantize)).getD v [] = emf v := by
    intro v hv
    unfold initEmitted
    rw [hilen]
    exact fr_getD_map_range emf h.ncols v hv []
  refine ⟨{ st with input := llrs.map A.quantize, output := llrs.map A.quantize, varMsgs := vm' }, ?_, ?_⟩
  · unfold Flood.initSt
    simp only [hilen]
    rw [hfold]
    rfl
  · refine ⟨rfl, rfl, hilen, ?_, hs.checkMsgs, ?_, ?_⟩
    · apply fr_rep_congr hrep
      intro c l hl v hv
      rw [(fr_rows_get h c l hl).1] at hv
      rw [hEM v (hinv.1 c v hv).2.1]
    · intro v hv
      rw [hEM v hv, hfst v]
    · intro v hv m hm
      rw [hEM v hv, List.mem_map] at hm
      obtain ⟨c, _, rfl⟩ := hm
      apply wb.toVar_ok
      have hmem := fr_getD_mem (llrs.map A.quantize) v (hilen ▸ hv) A.dLlr
      rw [List.mem_map] at hmem
      obtain ⟨b, _, hb⟩ := hmem
      rw [← hb]
      exact wb.quant_ok b

theorem fr_loop (h : SM) (hinv : h.Inv) (wb : WellBehaved A h) (input : List A.Llr)
    (hlen : input.length = h.ncols) (hok : ∀ x ∈ input, wb.okLlr x) (n rem : Nat)
    (st : FloodSt A) (em : List (List (Nat × A.VarMsg))) (llrs : List A.Llr) (tr : List (Call A))
    (R : FloodRel wb input st em llrs) :
    ∃ v st' tr', Flood.loop h n rem st = some (v, st') ∧
      floodLoop h input n rem em llrs tr = some (v, tr') ∧ Flood.Shape h st' := by
  induction rem generalizing st em llrs tr with
  | zero =>
    refine ⟨_, _, tr, rfl, ?_, fr_rel_shape hlen R⟩
    simp [floodLoop, Flood.hardAll, R.output_eq]
  | succ rem ih =>
    obtain ⟨st1, st2, em', llrs', t, h1, h2, h3, R'⟩ := fr_step h hinv wb input hlen hok st em llrs R
    unfold Flood.loop floodLoop
    rw [h1, h3]
    simp only
    rw [h2]
    simp only [Flood.hardAll, R'.output_eq]
    by_cases hsyn : syndromeOK h (llrs'.map A.hard) = true
    · simp only [hsyn, if_true]
      exact ⟨_, _, _, rfl, rfl, fr_rel_shape hlen R'⟩
    · simp only [hsyn]
      exact ih st2 em' llrs' (tr ++ t) R'

/-- refinement with totality and shape preservation, the form used by C03 and C10 -/
theorem fr_refines (h : SM) (hinv : h.Inv) (wb : WellBehaved A h) (st : FloodSt A) (hs : Flood.Shape h st)
    (llrs : List UInt64) (hlen : llrs.length = h.ncols) (n : Nat) :
    ∃ v st', Flood.decode h st llrs n = some (v, st') ∧ floodRef A h llrs n = some v ∧ Flood.Shape h st' := by
  unfold Flood.decode floodRef floodRefTraced
  have h1 : ¬ llrs.length ≠ st.input.length := by rw [hs.input, hlen]; simp
  have h2 : ¬ llrs.length ≠ h.ncols := by simp [hlen]
  rw [if_neg h1, if_neg h2]
  by_cases hsyn : syndromeOK h (llrs.map f64LeZero) = true
  · simp only [hsyn, if_true]
    exact ⟨_, _, rfl, rfl, hs⟩
  · simp only [hsyn]
    obtain ⟨st0, hi, R⟩ := fr_init h hinv wb st hs llrs hlen
    rw [hi]
    simp only
    have hok : ∀ x ∈ llrs.map A.quantize, wb.okLlr x := by
      intro x hx
      rw [List.mem_map] at hx
      obtain ⟨b, _, rfl⟩ := hx
      exact wb.quant_ok b
    obtain ⟨v, st', tr', hl, hr, hsh⟩ :=
      fr_loop h hinv wb (llrs.map A.quantize) (by simp [hlen]) hok n n st0 _ _ [] R
    exact ⟨v, st', hl, by rw [hr]; rfl, hsh⟩

end Decode

section History
variable {A : Arith}

theorem fr_flood_history (h : SM) (hinv : h.Inv) (wb : WellBehaved A h)
    (calls : List (List UInt64 × Nat)) (hcalls : ∀ c ∈ calls, c.1.length = h.ncols) :
    DecSt.runHistory h (DecSt.fresh A .flooding h) calls
      = some (calls.filterMap (fun c => ((DecSt.fresh A .flooding h).decode h c.1 c.2).map Prod.fst)) ∧
    (calls.filterMap (fun c => ((DecSt.fresh A .flooding h).decode h c.1 c.2).map Prod.fst)).length = calls.length := by
  apply hr_history h _ (fun st => ∃ s, st = .flood s ∧ Flood.Shape h s) _ calls hcalls _ ⟨_, rfl, fr_fresh_shape h⟩
  rintro st ⟨s, rfl, hs⟩ llrs n hlen
  obtain ⟨v, s', hd, hr, hs'⟩ := fr_refines h hinv wb s hs llrs hlen n
  obtain ⟨v0, s0, hd0, hr0, _⟩ := fr_refines h hinv wb (Flood.fresh A h) (fr_fresh_shape h) llrs hlen n
  have hv : v0 = v := by rw [hr] at hr0; exact (Option.some.inj hr0).symm
  refine ⟨v, .flood s', ?_, ⟨s', rfl, hs'⟩, ?_⟩
  · simp [DecSt.decode, hd]
  · simp [DecSt.fresh, DecSt.decode, hd0, hv]

end History

end LdpcV
