/-
Helper development for C03Tree (belief propagation is exact on cycle-free Tanner graphs), part 0: definitions.

* `X`, `M`, `L`      — the flooding schedule as plain functions of the iteration count (no lists of pairs)
* `mL`               — the layered schedule as a message table updated check by check
* `W`, `conv`, `Zv`, `Zc`, `Ztot` — partition functions of the computation tree (`Zc` = XOR-convolution of the children)
* `sumOver`          — iterated sum over the values of a list of coordinates of an assignment `Nat → Bool`
* `Dv`, `Cv`, `Fv`   — variables / checks / local factor of the computation tree below a variable
* `Lv`               — height bound of the computation tree below a variable
The "absent parent" of a root variable is the out-of-range check index `h.nrows`.
-/
import LdpcV.Model.ArithIdeal
import LdpcV.Lemmas.RealScalarSimp
import LdpcV.Spec.GraphSpec
namespace LdpcV.TreeBP
open LdpcV

/-- channel LLR of variable `v` -/
noncomputable def lamAt (lam : List ℝ) (v : Nat) : ℝ := lam.getD v 0

/-- the list without the entry `x` -/
def oth (l : List Nat) (x : Nat) : List Nat := l.filter (· != x)

/-! ### flooding schedule as functions -/

/-- check rule on a table `x u c` of variable→check messages: message of check `c` to variable `v` -/
noncomputable def chkMsg (h : SM) (x : Nat → Nat → ℝ) (c v : Nat) : ℝ :=
  2 * (1 / 2 * Real.log ((1 + ((oth (h.row c) v).map (fun u => Real.tanh (1 / 2 * x u c))).prod) /
    (1 - ((oth (h.row c) v).map (fun u => Real.tanh (1 / 2 * x u c))).prod)))

/-- total LLR of variable `v` from a table `m c v` of check→variable messages -/
noncomputable def totLlr (h : SM) (lam : List ℝ) (m : Nat → Nat → ℝ) (v : Nat) : ℝ :=
  lamAt lam v + ((h.col v).map (fun c => m c v)).sum

/-- variable→check messages after `t` flooding iterations -/
noncomputable def X (h : SM) (lam : List ℝ) : Nat → Nat → Nat → ℝ
  | 0, v, _ => lamAt lam v
  | t + 1, v, c => totLlr h lam (chkMsg h (X h lam t)) v - chkMsg h (X h lam t) c v

/-- check→variable messages of flooding iteration `t` (`t ≥ 1`) -/
noncomputable def M (h : SM) (lam : List ℝ) : Nat → Nat → Nat → ℝ
  | 0, _, _ => 0
  | t + 1, c, v => chkMsg h (X h lam t) c v

/-- LLRs after `t` flooding iterations -/
noncomputable def L (h : SM) (lam : List ℝ) : Nat → Nat → ℝ
  | 0, v => lamAt lam v
  | t + 1, v => totLlr h lam (chkMsg h (X h lam t)) v

/-! ### layered schedule as a message table -/

/-- processing check `c`: its messages are recomputed from the extrinsic values `total − own message` -/
noncomputable def stepL (h : SM) (lam : List ℝ) (m : Nat → Nat → ℝ) (c : Nat) : Nat → Nat → ℝ :=
  fun c' v => if c' = c then chkMsg h (fun u _ => totLlr h lam m u - m c u) c v else m c' v

noncomputable def sweepL (h : SM) (lam : List ℝ) (m : Nat → Nat → ℝ) : Nat → Nat → ℝ :=
  (List.range h.nrows).foldl (stepL h lam) m

/-- check→variable messages after `t` layered iterations -/
noncomputable def mL (h : SM) (lam : List ℝ) : Nat → Nat → Nat → ℝ
  | 0 => fun _ _ => 0
  | t + 1 => sweepL h lam (mL h lam t)

/-! ### partition functions of the computation tree -/

/-- likelihood weight of bit value `b` at variable `u` -/
noncomputable def W (lam : List ℝ) (u : Nat) (b : Bool) : ℝ := if b then Real.exp (-(lamAt lam u)) else 1

/-- XOR-convolution: total weight of the assignments of the variables `K` with parity `b`,
each variable `u` weighted by `g u` -/
noncomputable def conv (g : Nat → Bool → ℝ) : List Nat → Bool → ℝ
  | [], b => if b then 0 else 1
  | u :: K, b => g u false * conv g K b + g u true * conv g K (!b)

/-- weight of the depth-`t` computation tree below variable `v` (parent check `c` excluded) with bit `v` = `b` -/
noncomputable def Zv (h : SM) (lam : List ℝ) : Nat → Nat → Nat → Bool → ℝ
  | 0, v, _, b => W lam v b
  | t + 1, v, c, b => W lam v b *
      ((oth (h.col v) c).map (fun c' => conv (fun u => Zv h lam t u c') (oth (h.row c') v) b)).prod

/-- weight of the computation tree below check `c` (parent variable `v` excluded) with bit `v` = `b` -/
noncomputable def Zc (h : SM) (lam : List ℝ) (t : Nat) (c v : Nat) (b : Bool) : ℝ :=
  conv (fun u => Zv h lam t u c) (oth (h.row c) v) b

/-- weight of the whole depth-`t` computation tree of variable `v` with bit `v` = `b` -/
noncomputable def Ztot (h : SM) (lam : List ℝ) (t : Nat) (v : Nat) (b : Bool) : ℝ := Zv h lam t v h.nrows b

/-! ### sums over assignments -/

/-- `1` if true, `0` if false -/
noncomputable def ind (b : Bool) : ℝ := if b then 1 else 0

/-- parity of the assignment `a` on the list `K` (true = odd number of ones) -/
def xr (a : Nat → Bool) (K : List Nat) : Bool := (K.filter a).length % 2 == 1

/-- sum of `F` over all values of the coordinates listed in `K` (the other coordinates as in `a`) -/
noncomputable def sumOver : List Nat → ((Nat → Bool) → ℝ) → (Nat → Bool) → ℝ
  | [], F, a => F a
  | u :: K, F, a => sumOver K F (Function.update a u false) + sumOver K F (Function.update a u true)

/-! ### the computation tree below a variable -/

/-- variables strictly below variable `u` (parent check `c` excluded) in the depth-`s` computation tree -/
def Dv (h : SM) : Nat → Nat → Nat → List Nat
  | 0, _, _ => []
  | s + 1, u, c => (oth (h.col u) c).flatMap (fun c' => (oth (h.row c') u).flatMap (fun u' => u' :: Dv h s u' c'))

/-- checks below variable `u` (parent check `c` excluded) in the depth-`s` computation tree -/
def Cv (h : SM) : Nat → Nat → Nat → List Nat
  | 0, _, _ => []
  | s + 1, u, c => (oth (h.col u) c).flatMap (fun c' => c' :: (oth (h.row c') u).flatMap (fun u' => Cv h s u' c'))

/-- product of the local factors (bit weights and parity indicators) of the computation tree below `u` -/
noncomputable def Fv (h : SM) (lam : List ℝ) : Nat → Nat → Nat → (Nat → Bool) → ℝ
  | 0, u, _, a => W lam u (a u)
  | s + 1, u, c, a => W lam u (a u) *
      ((oth (h.col u) c).map (fun c' => ind (!xr a (h.row c')) *
        ((oth (h.row c') u).map (fun u' => Fv h lam s u' c' a)).prod)).prod

/-- the computation tree below variable `u` (parent `c` excluded) has at most `s` further levels of checks -/
def Lv (h : SM) : Nat → Nat → Nat → Prop
  | 0, u, c => ∀ c' ∈ h.col u, c' = c
  | s + 1, u, c => ∀ c' ∈ h.col u, c' ≠ c → ∀ u' ∈ h.row c', u' ≠ u → Lv h s u' c'

/-- the function whose sum over all words is `mass … v b` -/
noncomputable def Ftot (h : SM) (lam : List ℝ) (v : Nat) (b : Bool) (a : Nat → Bool) : ℝ :=
  ind (a v == b) * ind ((List.range h.nrows).all (fun c => !xr a (h.row c))) *
    ((List.range h.ncols).map (fun u => W lam u (a u))).prod

end LdpcV.TreeBP
