/-
Helper development for C03Code, part 1: magnitudes.

* the exact check rule `2·atanh(Π tanh(x_j/2))` is bounded in magnitude by every `|x_j|` (hence by their sum)
* `Bd h lam s v c` = sum of the channel magnitudes over the depth-`s` computation tree below variable `v`
  (parent check `c` excluded); on a forest it is at most the sum of ALL channel magnitudes (`nodup_tree`)
* every flooding message `X t v c` is bounded by `Bd t v c`
* the layered message table keeps the invariant `Bnd s m` (`|m c v| ≤ Σ_{u ∈ row c ∖ v} Bd s u c`) with `s` growing
  by one per processed check, and then every extrinsic value `total − own message` is bounded by `Bd (s+1) u c`
-/
import LdpcV.Lemmas.TreeBP
namespace LdpcV.CodeRule
open LdpcV LdpcV.TreeBP

/-! ### list sums -/

theorem sum_map_le_sum_map (l : List Nat) (f g : Nat → ℝ) (hfg : ∀ x ∈ l, f x ≤ g x) :
    (l.map f).sum ≤ (l.map g).sum := by
  induction l with
  | nil => simp
  | cons a l ih =>
    simp only [List.map_cons, List.sum_cons]
    have h1 := hfg a (by simp)
    have h2 := ih (fun x hx => hfg x (by simp [hx]))
    linarith

theorem sum_map_nonneg (l : List Nat) (f : Nat → ℝ) (hf : ∀ x ∈ l, 0 ≤ f x) : 0 ≤ (l.map f).sum := by
  induction l with
  | nil => simp
  | cons a l ih =>
    simp only [List.map_cons, List.sum_cons]
    have h1 := hf a (by simp)
    have h2 := ih (fun x hx => hf x (by simp [hx]))
    linarith

theorem abs_sum_map_le (l : List Nat) (f g : Nat → ℝ) (hfg : ∀ x ∈ l, |f x| ≤ g x) :
    |(l.map f).sum| ≤ (l.map g).sum := by
  induction l with
  | nil => simp
  | cons a l ih =>
    simp only [List.map_cons, List.sum_cons]
    have h1 := hfg a (by simp)
    have h2 := ih (fun x hx => hfg x (by simp [hx]))
    have := abs_add_le (f a) ((l.map f).sum)
    linarith

theorem single_le_sum_map (l : List Nat) (f : Nat → ℝ) (hf : ∀ x ∈ l, 0 ≤ f x) (a : Nat) (ha : a ∈ l) :
    f a ≤ (l.map f).sum := by
  induction l with
  | nil => simp at ha
  | cons b l ih =>
    simp only [List.map_cons, List.sum_cons]
    have hb := hf b (by simp)
    have hl := sum_map_nonneg l f (fun x hx => hf x (by simp [hx]))
    rcases List.mem_cons.1 ha with e | hm
    · subst e; linarith
    · have := ih (fun x hx => hf x (by simp [hx])) hm
      linarith

theorem sum_map_flatMap (K : List Nat) (D : Nat → List Nat) (g : Nat → ℝ) :
    ((K.flatMap D).map g).sum = (K.map (fun k => ((D k).map g).sum)).sum := by
  induction K with
  | nil => simp
  | cons a K ih => simp only [List.flatMap_cons, List.map_append, List.sum_append, List.map_cons, List.sum_cons, ih]

/-! ### the exact check rule never amplifies -/

theorem abs_tanh_half (x : ℝ) : |Real.tanh (x / 2)| = (Real.exp |x| - 1) / (Real.exp |x| + 1) := by
  rcases le_total 0 x with hx | hx
  · rw [abs_of_nonneg hx, BoxL.tanh_half]
    apply abs_of_nonneg
    have : 1 ≤ Real.exp x := Real.one_le_exp hx
    apply div_nonneg <;> linarith
  · have hx' : 0 ≤ -x := by linarith
    rw [abs_of_nonpos hx, ← BoxL.tanh_half, show -x / 2 = -(x / 2) by ring, Real.tanh_neg, abs_of_nonpos]
    have e : Real.tanh (x / 2) = -Real.tanh (-x / 2) := by
      rw [show -x / 2 = -(x / 2) by ring, Real.tanh_neg, neg_neg]
    rw [e, BoxL.tanh_half]
    have : 1 ≤ Real.exp (-x) := Real.one_le_exp hx'
    have : 0 ≤ (Real.exp (-x) - 1) / (Real.exp (-x) + 1) := by apply div_nonneg <;> linarith
    linarith

/-- `|2·atanh p| ≤ a` when `|p| ≤ tanh(a/2)` -/
theorem atanh_bound (p a : ℝ) (hp : |p| ≤ (Real.exp a - 1) / (Real.exp a + 1)) :
    |2 * (1 / 2 * Real.log ((1 + p) / (1 - p)))| ≤ a := by
  have hE : 0 < Real.exp a := Real.exp_pos a
  set E := Real.exp a with hEdef
  have hE1 : 0 < E + 1 := by linarith
  have hq : (E - 1) / (E + 1) < 1 := by rw [div_lt_one hE1]; linarith
  obtain ⟨h1, h2⟩ := abs_le.1 hp
  have hp1 : p < 1 := by linarith
  have hp2 : -1 < p := by linarith
  have hd : 0 < 1 - p := by linarith
  have hn : 0 < 1 + p := by linarith
  have hup : p * (E + 1) ≤ E - 1 := by rwa [le_div_iff₀ hE1] at h2
  have hlo : -(E - 1) ≤ p * (E + 1) := by
    have : -((E - 1) / (E + 1)) * (E + 1) ≤ p * (E + 1) := mul_le_mul_of_nonneg_right h1 hE1.le
    have e : -((E - 1) / (E + 1)) * (E + 1) = -(E - 1) := by field_simp
    linarith
  have hr : 0 < (1 + p) / (1 - p) := div_pos hn hd
  have u1 : (1 + p) / (1 - p) ≤ E := by rw [div_le_iff₀ hd]; nlinarith
  have u2 : Real.exp (-a) ≤ (1 + p) / (1 - p) := by
    rw [Real.exp_neg, ← hEdef, le_div_iff₀ hd, inv_mul_le_iff₀ hE]
    nlinarith
  have l1 : Real.log ((1 + p) / (1 - p)) ≤ a := by
    have := Real.log_le_log hr u1
    rwa [hEdef, Real.log_exp] at this
  have l2 : -a ≤ Real.log ((1 + p) / (1 - p)) := by
    have := Real.log_le_log (Real.exp_pos (-a)) u2
    rwa [Real.log_exp] at this
  rw [show 2 * (1 / 2 * Real.log ((1 + p) / (1 - p))) = Real.log ((1 + p) / (1 - p)) by ring]
  exact abs_le.2 ⟨l2, l1⟩

theorem abs_prod_tanh_le (K : List Nat) (e : Nat → ℝ) (u0 : Nat) (hu : u0 ∈ K) :
    |(K.map (fun u => Real.tanh (1 / 2 * e u))).prod| ≤ |Real.tanh (1 / 2 * e u0)| := by
  induction K with
  | nil => simp at hu
  | cons a K ih =>
    simp only [List.map_cons, List.prod_cons, abs_mul]
    have ha : |Real.tanh (1 / 2 * e a)| ≤ 1 := (Real.abs_tanh_lt_one _).le
    have hP : |(K.map (fun u => Real.tanh (1 / 2 * e u))).prod| ≤ 1 := by
      apply BoxL.abs_prod_le_one
      intro x hx
      obtain ⟨u, _, rfl⟩ := List.mem_map.1 hx
      exact Real.abs_tanh_lt_one _
    rcases List.mem_cons.1 hu with e1 | hm
    · subst e1
      exact mul_le_of_le_one_right (abs_nonneg _) hP
    · exact (mul_le_of_le_one_left (abs_nonneg _) ha).trans (ih hm)

/-- the message of a check to `v` is at most as large as any of the other incoming values -/
theorem nu_le (R : List Nat) (e : Nat → ℝ) (v u0 : Nat) (hu : u0 ∈ oth R v) : |nu R e v| ≤ |e u0| := by
  unfold nu
  apply atanh_bound
  have := abs_prod_tanh_le (oth R v) e u0 hu
  rwa [show 1 / 2 * e u0 = e u0 / 2 by ring, abs_tanh_half] at this

theorem nu_nil (R : List Nat) (e : Nat → ℝ) (v : Nat) (hR : oth R v = []) : nu R e v = 0 := by
  unfold nu
  rw [hR]
  simp

/-- … hence at most the sum of any bounds of the other incoming values -/
theorem nu_le_sum (R : List Nat) (e : Nat → ℝ) (v : Nat) (g : Nat → ℝ) (hg : ∀ u ∈ oth R v, |e u| ≤ g u) :
    |nu R e v| ≤ ((oth R v).map g).sum := by
  have hg0 : ∀ u ∈ oth R v, 0 ≤ g u := fun u hu => (abs_nonneg _).trans (hg u hu)
  cases hK : oth R v with
  | nil => rw [nu_nil R e v hK]; simp
  | cons a K =>
    have ha : a ∈ oth R v := by rw [hK]; simp
    rw [← hK]
    exact ((nu_le R e v a ha).trans (hg a ha)).trans (single_le_sum_map _ g hg0 a ha)

/-! ### the sum of the channel magnitudes over a computation tree -/

/-- sum of `|λ_u|` over the depth-`s` computation tree below variable `v` (root included, parent `c` excluded) -/
noncomputable def Bd (h : SM) (lam : List ℝ) (s v c : Nat) : ℝ :=
  |lamAt lam v| + ((Dv h s v c).map (fun u => |lamAt lam u|)).sum

theorem Bd_zero (h : SM) (lam : List ℝ) (v c : Nat) : Bd h lam 0 v c = |lamAt lam v| := by
  simp [Bd, Dv]

theorem Bd_succ (h : SM) (lam : List ℝ) (s v c : Nat) : Bd h lam (s + 1) v c =
    |lamAt lam v| + ((oth (h.col v) c).map (fun c' => ((oth (h.row c') v).map (fun u => Bd h lam s u c')).sum)).sum := by
  unfold Bd
  rw [Dv_succ, sum_map_flatMap]
  congr 2
  apply List.map_congr_left
  intro c' _
  rw [sum_map_flatMap]
  congr 1

theorem Bd_nonneg (h : SM) (lam : List ℝ) (s v c : Nat) : 0 ≤ Bd h lam s v c := by
  unfold Bd
  have := sum_map_nonneg (Dv h s v c) (fun u => |lamAt lam u|) (fun _ _ => abs_nonneg _)
  have := abs_nonneg (lamAt lam v)
  linarith

theorem Bd_mono_succ (h : SM) (lam : List ℝ) (s v c : Nat) : Bd h lam s v c ≤ Bd h lam (s + 1) v c := by
  induction s generalizing v c with
  | zero =>
    rw [Bd_zero, Bd_succ]
    have := sum_map_nonneg (oth (h.col v) c)
      (fun c' => ((oth (h.row c') v).map (fun u => Bd h lam 0 u c')).sum)
      (fun c' _ => sum_map_nonneg _ _ (fun u _ => Bd_nonneg h lam 0 u c'))
    linarith
  | succ s ih =>
    rw [Bd_succ, Bd_succ h lam (s + 1)]
    have := sum_map_le_sum_map (oth (h.col v) c)
      (fun c' => ((oth (h.row c') v).map (fun u => Bd h lam s u c')).sum)
      (fun c' => ((oth (h.row c') v).map (fun u => Bd h lam (s + 1) u c')).sum)
      (fun c' _ => sum_map_le_sum_map _ _ _ (fun u _ => ih u c'))
    linarith

theorem Bd_mono (h : SM) (lam : List ℝ) (v c : Nat) {s s' : Nat} (hs : s ≤ s') : Bd h lam s v c ≤ Bd h lam s' v c := by
  induction hs with
  | refl => exact le_refl _
  | step _ ih => exact ih.trans (Bd_mono_succ h lam _ v c)

/-- on a forest the computation tree has no repeated variable, so its sum is at most the total -/
theorem Bd_le_total (h : SM) (hinv : h.Inv) (hf : Graph.IsForest h) (lam : List ℝ) (hl : lam.length = h.ncols)
    (s v c : Nat) (hv : v < h.ncols) : Bd h lam s v c ≤ (lam.map (fun x => |x|)).sum := by
  have hN := nodup_tree h hinv hf s v c
  have hlt : ∀ x ∈ v :: Dv h s v c, x < h.ncols := by
    intro x hx
    rcases List.mem_cons.1 hx with e | hm
    · subst e; exact hv
    · exact Dv_lt hinv s v c x hm
  have hp := perm_split h.ncols (v :: Dv h s v c) hN hlt
  have e1 : (lam.map (fun x => |x|)).sum = ((List.range h.ncols).map (fun u => |lamAt lam u|)).sum := by
    conv_lhs => rw [lam_eq_map_lamAt h lam hl]
    rw [List.map_map]
    rfl
  have e2 := (hp.map (fun u => |lamAt lam u|)).sum_eq
  rw [e1, e2, List.map_append, List.sum_append]
  have := sum_map_nonneg ((List.range h.ncols).filter (fun x => !decide (x ∈ v :: Dv h s v c)))
    (fun u => |lamAt lam u|) (fun _ _ => abs_nonneg _)
  have e3 : ((v :: Dv h s v c).map (fun u => |lamAt lam u|)).sum = Bd h lam s v c := by
    simp [Bd]
  linarith

/-! ### flooding: every variable→check message is bounded by the sum over its computation tree -/

theorem X_bound {h : SM} (hinv : h.Inv) (lam : List ℝ) (t v c : Nat) (hc : c ∈ h.col v) :
    |X h lam t v c| ≤ Bd h lam t v c := by
  induction t generalizing v c with
  | zero => rw [Bd_zero]; exact le_refl _
  | succ t ih =>
    rw [X_succ_ext hinv lam t v c hc, Bd_succ]
    refine (abs_add_le _ _).trans (add_le_add (le_refl _) ?_)
    apply abs_sum_map_le
    intro c' hc'
    show |chkMsg h (X h lam t) c' v| ≤ _
    rw [chkMsg_eq_nu]
    apply nu_le_sum
    intro u hu
    exact ih u c' (col_of_row hinv (mem_oth.1 hu).1)

/-! ### layered: the invariant of the message table -/

/-- every stored message is bounded by the depth-`s` sums behind the other edges of its check -/
def Bnd (h : SM) (lam : List ℝ) (s : Nat) (m : Nat → Nat → ℝ) : Prop :=
  ∀ c v, |m c v| ≤ ((oth (h.row c) v).map (fun u => Bd h lam s u c)).sum

theorem Bnd_zero (h : SM) (lam : List ℝ) : Bnd h lam 0 (fun _ _ => 0) := by
  intro c v
  simp only [abs_zero]
  exact sum_map_nonneg _ _ (fun u _ => Bd_nonneg h lam 0 u c)

theorem ext_eq {h : SM} (hinv : h.Inv) (lam : List ℝ) (m : Nat → Nat → ℝ) (u c : Nat) (hcu : c ∈ h.col u) :
    totLlr h lam m u - m c u = lamAt lam u + ((oth (h.col u) c).map (fun c' => m c' u)).sum := by
  simp only [totLlr]
  rw [sum_map_oth (hinv.2.2.2 u) hcu (fun c' => m c' u)]
  ring

/-- the extrinsic value `total − own message` is bounded by the sum over the next-depth tree -/
theorem ext_bound {h : SM} (hinv : h.Inv) (lam : List ℝ) (s : Nat) (m : Nat → Nat → ℝ) (hB : Bnd h lam s m)
    (u c : Nat) (hcu : c ∈ h.col u) : |totLlr h lam m u - m c u| ≤ Bd h lam (s + 1) u c := by
  rw [ext_eq hinv lam m u c hcu, Bd_succ]
  refine (abs_add_le _ _).trans (add_le_add (le_refl _) ?_)
  apply abs_sum_map_le
  intro c' _
  exact hB c' u

theorem Bnd_step {h : SM} (hinv : h.Inv) (lam : List ℝ) (s : Nat) (m : Nat → Nat → ℝ) (hB : Bnd h lam s m)
    (c0 : Nat) : Bnd h lam (s + 1) (stepL h lam m c0) := by
  intro c v
  by_cases hc : c = c0
  · subst hc
    rw [stepL_self]
    apply nu_le_sum
    intro u hu
    exact ext_bound hinv lam s m hB u c (col_of_row hinv (mem_oth.1 hu).1)
  · rw [stepL_ne h lam m c0 c v hc]
    exact (hB c v).trans (sum_map_le_sum_map _ _ _ (fun u _ => Bd_mono_succ h lam s u c))

theorem Bnd_fold {h : SM} (hinv : h.Inv) (lam : List ℝ) (l : List Nat) (s : Nat) (m : Nat → Nat → ℝ)
    (hB : Bnd h lam s m) : Bnd h lam (s + l.length) (l.foldl (stepL h lam) m) := by
  induction l generalizing s m with
  | nil => simpa using hB
  | cons a l ih =>
    rw [List.foldl_cons, List.length_cons, show s + (l.length + 1) = (s + 1) + l.length by omega]
    exact ih (s + 1) _ (Bnd_step hinv lam s m hB a)

/-- the layered message table after `t` sweeps satisfies the invariant at depth `t · nrows` -/
theorem Bnd_mL {h : SM} (hinv : h.Inv) (lam : List ℝ) (t : Nat) : Bnd h lam (t * h.nrows) (mL h lam t) := by
  induction t with
  | zero =>
    rw [Nat.zero_mul]
    exact Bnd_zero h lam
  | succ t ih =>
    have := Bnd_fold hinv lam (List.range h.nrows) _ _ ih
    rw [List.length_range] at this
    rw [Nat.succ_mul]
    exact this

end LdpcV.CodeRule
