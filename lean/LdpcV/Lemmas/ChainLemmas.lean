/- Helper lemmas for C12 (transmit / receive chain, real semantics). -/
import LdpcV.Model.Chain
import LdpcV.Props.C15
import LdpcV.Props.C14
namespace LdpcV.Chain
open LdpcV LdpcV.Blocks LdpcV.Modulation

/-- the LLR `l` carries the bit `b` in its strict sign: negative for 1, positive for 0 -/
def Sgn (b : Bool) (l : ℝ) : Prop := (b = true ↔ l < 0) ∧ (b = false ↔ 0 < l)

theorem real_zero : Sc.real.rat 0 1 = (0 : ℝ) := by simp [Sc.real]

/-! ### pointwise relations between two lists, by index -/

theorem forall₂_iff_getElem? {β γ : Type} (R : β → γ → Prop) (xs : List β) (ys : List γ) :
    List.Forall₂ R xs ys ↔
      xs.length = ys.length ∧ ∀ (i : Nat) x y, xs[i]? = some x → ys[i]? = some y → R x y := by
  rw [List.forall₂_iff_get]
  constructor
  · rintro ⟨hl, h⟩
    refine ⟨hl, ?_⟩
    intro i x y hx hy
    obtain ⟨h1, rfl⟩ := List.getElem?_eq_some_iff.1 hx
    obtain ⟨h2, rfl⟩ := List.getElem?_eq_some_iff.1 hy
    exact h i h1 h2
  · rintro ⟨hl, h⟩
    refine ⟨hl, ?_⟩
    intro i h1 h2
    exact h i _ _ (List.getElem?_eq_getElem h1) (List.getElem?_eq_getElem h2)

/-! ### modulation: the noiseless LLRs carry the bits in their signs -/

theorem bpsk_air (sigma : ℝ) (hs : 0 < sigma) : ∀ bits : List Bool,
    List.Forall₂ Sgn bits (bits.map (fun b => bpskDemod Sc.real sigma (bpskMod Sc.real b)))
  | [] => by simp
  | b :: bits => by
    rw [List.map_cons]
    exact List.Forall₂.cons (C14.bpsk_noiseless_hard sigma hs b) (bpsk_air sigma hs bits)

theorem psk8_air (sigma : ℝ) (hs : 0 < sigma) : ∀ bits : List Bool, bits.length % 3 = 0 →
    ∃ syms, psk8ModAll Sc.real bits = some syms ∧
      List.Forall₂ Sgn bits (psk8DemodAll Sc.real sigma syms)
  | [], _ => ⟨[], rfl, by simp [psk8DemodAll]⟩
  | [_], h => by simp at h
  | [_, _], h => by simp at h
  | b0 :: b1 :: b2 :: rest, h => by
    obtain ⟨syms, h1, h2⟩ := psk8_air sigma hs rest (by simp only [List.length_cons] at h; omega)
    refine ⟨psk8Mod Sc.real b0 b1 b2 :: syms, by simp [psk8ModAll, h1], ?_⟩
    obtain ⟨a1, a2, a3, a4, a5, a6⟩ := C14.noiseless_hard sigma hs b0 b1 b2
    have h2' : List.Forall₂ Sgn rest (List.flatMap
        (fun r => [(psk8Demod Sc.real sigma r).1, (psk8Demod Sc.real sigma r).2.1,
          (psk8Demod Sc.real sigma r).2.2]) syms) := h2
    simp only [psk8DemodAll, List.flatMap_cons, List.cons_append, List.nil_append]
    exact List.Forall₂.cons ⟨a1, a2⟩ (List.Forall₂.cons ⟨a3, a4⟩ (List.Forall₂.cons ⟨a5, a6⟩ h2'))

theorem air_rel (cfg : Config) (sigma : ℝ) (hs : 0 < sigma) (bits : List Bool)
    (h3 : cfg.psk8 = true → bits.length % 3 = 0) :
    ∃ ls, airLlrs Sc.real cfg sigma bits = .ok ls ∧ List.Forall₂ Sgn bits ls := by
  unfold airLlrs
  by_cases hp : cfg.psk8 = true
  · obtain ⟨syms, h1, h2⟩ := psk8_air sigma hs bits (h3 hp)
    rw [if_pos hp, h1]
    exact ⟨_, rfl, h2⟩
  · rw [if_neg hp]
    exact ⟨_, rfl, bpsk_air sigma hs bits⟩

/-! ### interleaver: deinterleaving transports any pointwise relation back -/

theorem deinterleave_rel {β γ : Type} (R : β → γ → Prop) (C : Nat) (bw : Bool)
    (t bits : List β) (ls : List γ) (h : interleave C bw t = .ok bits)
    (hr : List.Forall₂ R bits ls) :
    ∃ ls', deinterleave C bw ls = .ok ls' ∧ List.Forall₂ R t ls' := by
  obtain ⟨hC, hd⟩ := interleave_eq_ok C bw t bits h
  have hdi := deinterleave_interleave' C bw t bits h
  obtain ⟨hlen, hidx⟩ := (forall₂_iff_getElem? R bits ls).1 hr
  obtain ⟨_, e1, e2, _⟩ := interleave_spec C bw t hC hd
  rw [h] at e1
  cases e1
  have hdb : bits.length % C = 0 := by rw [e2]; exact hd
  obtain ⟨t', f1, f2, f3⟩ := deinterleave_spec C bw bits hC hdb
  rw [hdi] at f1
  cases f1
  obtain ⟨ls', g1, g2, g3⟩ := deinterleave_spec C bw ls hC (by rw [← hlen]; exact hdb)
  refine ⟨ls', g1, ?_⟩
  rw [forall₂_iff_getElem?]
  refine ⟨by omega, ?_⟩
  intro i x y hx hy
  have hi : i < t.length := (List.getElem?_eq_some_iff.1 hx).1
  rw [f3 i (by omega)] at hx
  rw [g3 i (by omega), ← hlen] at hy
  exact hidx _ x y hx hy

/-! ### puncturer: depuncturing transports a pointwise relation to the kept blocks -/

theorem depunctureGo_rel {β γ : Type} (R : β → γ → Prop) (B : Nat) (d : γ) :
    ∀ (p : List Bool) (cw : List β) (ls : List γ), cw.length = B * p.length →
      List.Forall₂ R (punctureGo B p cw) ls →
      ∀ i, i < B * p.length →
        (p.getD (i / B) true = false → (depunctureGo B d p ls)[i]? = some d) ∧
        (p.getD (i / B) true = true →
          ∃ x y, cw[i]? = some x ∧ (depunctureGo B d p ls)[i]? = some y ∧ R x y)
  | [], _, _, _, _, i, hi => by simp at hi
  | true :: p, cw, ls, hl, hr, i, hi => by
    have hl' : cw.length = B * p.length + B := by simpa [Nat.mul_succ] using hl
    have hi' : i < B * p.length + B := by simpa [Nat.mul_succ] using hi
    have hB : 0 < B := by
      rcases Nat.eq_zero_or_pos B with h | h
      · subst h; simp at hi
      · exact h
    simp only [punctureGo] at hr
    have htl : (cw.take B).length = B := by simp [hl']
    have h1 : List.Forall₂ R (cw.take B) (ls.take B) := by
      have := List.forall₂_take B hr
      rwa [List.take_left' htl] at this
    have h2 : List.Forall₂ R (punctureGo B p (cw.drop B)) (ls.drop B) := by
      have := List.forall₂_drop B hr
      rwa [List.drop_left' htl] at this
    have hlt : (ls.take B).length = B := by rw [← h1.length_eq, htl]
    simp only [depunctureGo]
    by_cases hiB : i < B
    · rw [Nat.div_eq_of_lt hiB]
      simp only [List.getD_cons_zero]
      refine ⟨by simp, fun _ => ?_⟩
      rw [List.getElem?_append_left (by omega)]
      obtain ⟨_, hidx⟩ := (forall₂_iff_getElem? R _ _).1 h1
      have hx : i < (cw.take B).length := by omega
      have hy : i < (ls.take B).length := by omega
      refine ⟨(cw.take B)[i], (ls.take B)[i], ?_, List.getElem?_eq_getElem hy,
        hidx i _ _ (List.getElem?_eq_getElem hx) (List.getElem?_eq_getElem hy)⟩
      rw [← List.getElem?_eq_getElem hx, List.getElem?_take, if_pos hiB]
    · have ih := depunctureGo_rel R B d p (cw.drop B) (ls.drop B) (by simp [hl']) h2 (i - B)
        (by omega)
      rw [Nat.div_eq_sub_div hB (by omega)]
      simp only [List.getD_cons_succ]
      rw [List.getElem?_append_right (by omega), hlt]
      have : cw[i]? = (cw.drop B)[i - B]? := by
        rw [List.getElem?_drop]; congr 1; omega
      rw [this]
      exact ih
  | false :: p, cw, ls, hl, hr, i, hi => by
    have hl' : cw.length = B * p.length + B := by simpa [Nat.mul_succ] using hl
    have hi' : i < B * p.length + B := by simpa [Nat.mul_succ] using hi
    have hB : 0 < B := by
      rcases Nat.eq_zero_or_pos B with h | h
      · subst h; simp at hi
      · exact h
    simp only [punctureGo] at hr
    simp only [depunctureGo]
    by_cases hiB : i < B
    · rw [Nat.div_eq_of_lt hiB]
      simp only [List.getD_cons_zero]
      refine ⟨fun _ => ?_, by simp⟩
      rw [List.getElem?_append_left (by simpa using hiB)]
      simp [hiB]
    · have ih := depunctureGo_rel R B d p (cw.drop B) ls (by simp [hl']) hr (i - B) (by omega)
      rw [Nat.div_eq_sub_div hB (by omega)]
      simp only [List.getD_cons_succ]
      rw [List.getElem?_append_right (by simpa using hiB), List.length_replicate]
      have : cw[i]? = (cw.drop B)[i - B]? := by
        rw [List.getElem?_drop]; congr 1; omega
      rw [this]
      exact ih

theorem depuncture_rel {β γ : Type} (R : β → γ → Prop) (d : γ) (p : List Bool)
    (cw : List β) (hp : p ≠ []) (ht : numTrues p ≠ 0) (hd : cw.length % p.length = 0) :
    ∃ t, puncture p cw = .ok t ∧ t.length = cw.length * numTrues p / p.length ∧
      ∀ ls, List.Forall₂ R t ls →
        ∃ ys, depuncture d p ls = .ok ys ∧ ys.length = cw.length ∧
          ∀ i, i < cw.length →
            (p.getD (i / (cw.length / p.length)) true = false → ys[i]? = some d) ∧
            (p.getD (i / (cw.length / p.length)) true = true →
              ∃ x y, cw[i]? = some x ∧ ys[i]? = some y ∧ R x y) := by
  have hL : 0 < p.length := length_pos_of_ne_nil hp
  have hT : 0 < numTrues p := Nat.pos_of_ne_zero ht
  have hx : cw.length = cw.length / p.length * p.length := length_eq_mul hd
  have hty := punctureGo_length _ p cw hx
  refine ⟨_, puncture_ok p cw hp hd, ?_, ?_⟩
  · rw [hty]
    conv => rhs; rw [hx]
    rw [Nat.mul_right_comm, Nat.mul_div_cancel _ hL]
  · intro ls hr
    have hll : ls.length = cw.length / p.length * numTrues p := by rw [← hr.length_eq, hty]
    have hdiv : ls.length / numTrues p = cw.length / p.length := by
      rw [hll, Nat.mul_div_cancel _ hT]
    refine ⟨_, depuncture_ok d p ls hp ht (by rw [hll]; exact Nat.mul_mod_left _ _), ?_, ?_⟩
    · rw [hdiv, depunctureGo_length _ d p ls hll, ← hx]
    · intro i hi
      rw [hdiv]
      exact depunctureGo_rel R _ d p cw ls hx hr i (by rw [← hx]; exact hi)

/-! ### the chain, stage by stage -/

/-- optional puncturer -/
def optPunct {β : Type} (pat : Option (List Bool)) (cw : List β) : Res (List β) :=
  match pat with | some p => puncture p cw | none => .ok cw

/-- optional interleaver -/
def optIlv {β : Type} (il : Option (Nat × Bool)) (t : List β) : Res (List β) :=
  match il with | some (c, bw) => interleave c bw t | none => .ok t

/-- optional deinterleaver -/
def optDilv {β : Type} (il : Option (Nat × Bool)) (t : List β) : Res (List β) :=
  match il with | some (c, bw) => deinterleave c bw t | none => .ok t

/-- optional depuncturer -/
def optDepunct {β : Type} (d : β) (pat : Option (List Bool)) (t : List β) : Res (List β) :=
  match pat with | some p => depuncture d p t | none => .ok t

theorem txBits_eq (cfg : Config) (cw : List Bool) :
    txBits cfg cw = Res.bind (optPunct cfg.pattern cw) (optIlv cfg.interleave) := by
  obtain ⟨pat, il, psk⟩ := cfg
  cases pat <;> cases il <;> rfl

theorem rxLlrs_eq {α : Type} (S : Sc α) (cfg : Config) (ls : List α) :
    rxLlrs S cfg ls = Res.bind (optDilv cfg.interleave ls) (optDepunct (S.rat 0 1) cfg.pattern) := by
  obtain ⟨pat, il, psk⟩ := cfg
  cases pat <;> cases il <;> rfl

theorem pstage (cfg : Config) (cw : List Bool)
    (h1 : ∀ p, cfg.pattern = some p → p ≠ [] ∧ numTrues p ≠ 0 ∧ cw.length % p.length = 0) :
    ∃ t, optPunct cfg.pattern cw = .ok t ∧ t.length = frameSize cfg cw.length ∧
      ∀ ls, List.Forall₂ Sgn t ls →
        ∃ ys, optDepunct (0 : ℝ) cfg.pattern ls = .ok ys ∧ ys.length = cw.length ∧
          ∀ i, i < cw.length →
            (punctured cfg cw.length i = true → ys[i]? = some 0) ∧
            (punctured cfg cw.length i = false →
              ∃ x y, cw[i]? = some x ∧ ys[i]? = some y ∧ Sgn x y) := by
  obtain ⟨pat, il, psk⟩ := cfg
  cases pat with
  | none =>
    refine ⟨cw, rfl, rfl, ?_⟩
    intro ls hr
    obtain ⟨hlen, hidx⟩ := (forall₂_iff_getElem? Sgn cw ls).1 hr
    refine ⟨ls, rfl, hlen.symm, ?_⟩
    intro i hi
    refine ⟨fun h => by simp [punctured] at h, fun _ => ?_⟩
    exact ⟨cw[i], ls[i], List.getElem?_eq_getElem hi, List.getElem?_eq_getElem (by omega),
      hidx i _ _ (List.getElem?_eq_getElem hi) (List.getElem?_eq_getElem (by omega))⟩
  | some p =>
    obtain ⟨hp, ht, hd⟩ := h1 p rfl
    obtain ⟨t, e1, e2, e3⟩ := depuncture_rel Sgn (0 : ℝ) p cw hp ht hd
    refine ⟨t, e1, e2, ?_⟩
    intro ls hr
    obtain ⟨ys, g1, g2, g3⟩ := e3 ls hr
    refine ⟨ys, g1, g2, ?_⟩
    intro i hi
    obtain ⟨k1, k2⟩ := g3 i hi
    simp only [punctured, Bool.not_eq_eq_eq_not, Bool.not_true, Bool.not_false]
    exact ⟨k1, k2⟩

theorem istage (il : Option (Nat × Bool)) (t : List Bool)
    (h2 : ∀ c bw, il = some (c, bw) → 0 < c ∧ t.length % c = 0) :
    ∃ bits, optIlv il t = .ok bits ∧ bits.length = t.length ∧
      ∀ ls : List ℝ, List.Forall₂ Sgn bits ls →
        ∃ ls', optDilv il ls = .ok ls' ∧ List.Forall₂ Sgn t ls' := by
  cases il with
  | none => exact ⟨t, rfl, rfl, fun ls hr => ⟨ls, rfl, hr⟩⟩
  | some cb =>
    obtain ⟨c, bw⟩ := cb
    obtain ⟨hc, hd⟩ := h2 c bw rfl
    obtain ⟨bits, e1, e2, _⟩ := interleave_spec c bw t hc hd
    exact ⟨bits, e1, e2, fun ls hr => deinterleave_rel Sgn c bw t bits ls e1 hr⟩

/-- the transmitted bits exist and have the frame size -/
theorem txBits_ok (cfg : Config) (cw : List Bool)
    (h1 : ∀ p, cfg.pattern = some p → p ≠ [] ∧ numTrues p ≠ 0 ∧ cw.length % p.length = 0)
    (h2 : ∀ c bw, cfg.interleave = some (c, bw) → 0 < c ∧ frameSize cfg cw.length % c = 0) :
    ∃ bits, txBits cfg cw = .ok bits ∧ bits.length = frameSize cfg cw.length := by
  obtain ⟨t, e1, e2, _⟩ := pstage cfg cw h1
  obtain ⟨bits, f1, f2, _⟩ := istage cfg.interleave t (by rw [e2]; exact h2)
  refine ⟨bits, ?_, by rw [f2, e2]⟩
  rw [txBits_eq, e1]
  exact f1

theorem chain_main (cfg : Config) (sigma : ℝ) (hs : 0 < sigma) (cw : List Bool)
    (h1 : ∀ p, cfg.pattern = some p → p ≠ [] ∧ numTrues p ≠ 0 ∧ cw.length % p.length = 0)
    (h2 : ∀ c bw, cfg.interleave = some (c, bw) → 0 < c ∧ frameSize cfg cw.length % c = 0)
    (h3 : cfg.psk8 = true → frameSize cfg cw.length % 3 = 0) :
    ∃ ys, noiseless Sc.real cfg sigma cw = .ok ys ∧ ys.length = cw.length ∧
      ∀ i, i < cw.length →
        (punctured cfg cw.length i = true → ys.getD i 1 = 0) ∧
        (punctured cfg cw.length i = false →
          ((cw.getD i false = true ↔ ys.getD i 0 < 0) ∧
           (cw.getD i false = false ↔ 0 < ys.getD i 0))) := by
  obtain ⟨t, e1, e2, e3⟩ := pstage cfg cw h1
  obtain ⟨bits, f1, f2, f3⟩ := istage cfg.interleave t (by rw [e2]; exact h2)
  obtain ⟨ls, a1, a2⟩ := air_rel cfg sigma hs bits (by rw [f2, e2]; exact h3)
  obtain ⟨ls', g1, g2⟩ := f3 ls a2
  obtain ⟨ys, k1, k2, k3⟩ := e3 ls' g2
  refine ⟨ys, ?_, k2, ?_⟩
  · unfold noiseless
    rw [txBits_eq, e1]
    show Res.bind (optIlv cfg.interleave t) _ = _
    rw [f1]
    show Res.bind (airLlrs Sc.real cfg sigma bits) _ = _
    rw [a1]
    show rxLlrs Sc.real cfg ls = _
    rw [rxLlrs_eq, g1, real_zero]
    exact k1
  · intro i hi
    obtain ⟨m1, m2⟩ := k3 i hi
    refine ⟨fun h => ?_, fun h => ?_⟩
    · rw [List.getD_eq_getElem?_getD, m1 h]; rfl
    · obtain ⟨x, y, hx, hy, hxy⟩ := m2 h
      rw [List.getD_eq_getElem?_getD, List.getD_eq_getElem?_getD, hx, hy]
      exact hxy

/-! ### frame sizes -/

theorem frameSize_mul (cfg : Config) (ncw : Nat) (p : List Bool) (hp : cfg.pattern = some p)
    (hd : ncw % p.length = 0) : frameSize cfg ncw * p.length = ncw * numTrues p := by
  unfold frameSize
  rw [hp]
  exact Nat.div_mul_cancel (Dvd.dvd.mul_right (Nat.dvd_of_mod_eq_zero hd) _)

theorem optIlv_length {β : Type} (il : Option (Nat × Bool)) (t bits : List β)
    (h : optIlv il t = .ok bits) : bits.length = t.length := by
  cases il with
  | none => cases h; rfl
  | some cb =>
    obtain ⟨c, bw⟩ := cb
    obtain ⟨hC, hd⟩ := interleave_eq_ok c bw t bits h
    obtain ⟨bits', e1, e2, _⟩ := interleave_spec c bw t hC hd
    rw [show optIlv (some (c, bw)) t = interleave c bw t from rfl] at h
    rw [h] at e1
    cases e1
    exact e2

theorem txBits_length (cfg : Config) (cw bits : List Bool) (ht : txBits cfg cw = .ok bits) :
    bits.length = frameSize cfg cw.length := by
  rw [txBits_eq] at ht
  obtain ⟨pat, il, psk⟩ := cfg
  cases pat with
  | none => exact optIlv_length il cw bits ht
  | some p =>
    cases hq : puncture p cw with
    | ok t =>
      rw [show optPunct (some p) cw = puncture p cw from rfl, hq] at ht
      rw [optIlv_length il t bits ht]
      obtain ⟨hp, hd, _⟩ := puncture_eq_ok p cw t hq
      have hlen := (puncture_length' p cw t hq).1
      show t.length = cw.length * numTrues p / p.length
      rw [← hlen, Nat.mul_div_cancel _ (length_pos_of_ne_nil hp)]
    | err => rw [show optPunct (some p) cw = puncture p cw from rfl, hq] at ht; cases ht
    | panic => rw [show optPunct (some p) cw = puncture p cw from rfl, hq] at ht; cases ht

/-! ### block sizes that do not fit -/

theorem psk8ModAll_none {α : Type} (S : Sc α) : ∀ (n : Nat) (bits : List Bool), bits.length = n → n % 3 ≠ 0 →
    psk8ModAll S bits = none := by
  intro n
  induction n using Nat.strong_induction_on with
  | _ n ih =>
    intro bits hl h3
    match bits, hl with
    | [], hl => simp at hl; subst hl; simp at h3
    | [_], _ => rfl
    | [_, _], _ => rfl
    | b0 :: b1 :: b2 :: rest, hl =>
      simp only [psk8ModAll]
      have hr : rest.length = n - 3 := by simp at hl; omega
      have := ih (n - 3) (by simp at hl; omega) rest hr (by simp at hl; omega)
      rw [this]; rfl

/-- 8PSK with a frame whose length is not a multiple of 3: the modulator's assertion fires, nothing is demodulated -/
theorem misfit_psk8 {α : Type} (S : Sc α) (cfg : Config) (sigma : α) (cw bits : List Bool) (hp : cfg.psk8 = true)
    (ht : txBits cfg cw = .ok bits) (h3 : bits.length % 3 ≠ 0) : noiseless S cfg sigma cw = .panic := by
  unfold noiseless
  rw [ht]
  simp only [Res.bind, airLlrs, hp, if_true]
  rw [psk8ModAll_none S bits.length bits rfl h3]

/-- an interleaver whose column count does not divide the (punctured) frame: the assertion of `interleave` fires -/
theorem misfit_interleaver {α : Type} (S : Sc α) (cfg : Config) (sigma : α) (cw : List Bool) (c : Nat) (bw : Bool)
    (hn : cfg.pattern = none) (hi : cfg.interleave = some (c, bw)) (hc : c = 0 ∨ cw.length % c ≠ 0) :
    noiseless S cfg sigma cw = .panic := by
  unfold noiseless txBits
  simp only [hn, hi, Res.bind]
  unfold Blocks.interleave
  rcases hc with hc | hc
  · simp [hc]
  · by_cases h0 : c = 0
    · simp [h0]
    · simp [h0, hc]

end LdpcV.Chain
