/- Helper lemmas (I8Var) for the 8-bit arithmetic properties C05: quantiser, variable rule,
layered single-check updates, the flooding contract.  Core only.

The facts about the check rules that C05 needs are the hypothesis `CheckFacts` (discharged in
LdpcV/Props/C05.lean from the theorems of LdpcV/Props/C04.lean). -/
import LdpcV.Spec.ArithSpec
namespace LdpcV.I8

/-! ### clipping -/

theorem clip_range (x : Int) : -127 ≤ clip x ∧ clip x ≤ 127 := by
  unfold clip; split <;> (try split) <;> omega

theorem clip_id (x : Int) (h1 : -127 ≤ x) (h2 : x ≤ 127) : clip x = x := by
  unfold clip; split <;> (try split) <;> omega

theorem clip_neg_iff (x : Int) : clip x < 0 ↔ x < 0 := by
  unfold clip; split <;> (try split) <;> omega

theorem deg1clip_false (x : Int) : deg1clip x false = x := by simp [deg1clip]

theorem deg1clip_true_range (x : Int) : -116 ≤ deg1clip x true ∧ deg1clip x true ≤ 116 := by
  simp only [deg1clip, if_true]; split <;> (try split) <;> omega

theorem deg1clip_true_id (x : Int) (h1 : -116 ≤ x) (h2 : x ≤ 116) : deg1clip x true = x := by
  simp only [deg1clip, if_true]; split <;> (try split) <;> omega

theorem deg1clip_range (x : Int) (b : Bool) (h1 : -127 ≤ x) (h2 : x ≤ 127) :
    -127 ≤ deg1clip x b ∧ deg1clip x b ≤ 127 := by
  cases b
  · rw [deg1clip_false]; exact ⟨h1, h2⟩
  · have := deg1clip_true_range x; omega

theorem clip_variants_all (x : Int) :
    (-127 ≤ clip x ∧ clip x ≤ 127) ∧ (-127 ≤ x → x ≤ 127 → clip x = x) ∧
    (deg1clip x false = x) ∧ (-116 ≤ deg1clip x true ∧ deg1clip x true ≤ 116) ∧ (-116 ≤ x → x ≤ 116 → deg1clip x true = x) ∧
    (∀ cfg : Cfg, cfg.jones = false → cfg.jonesClip x = x) ∧ (∀ cfg : Cfg, cfg.jones = true → cfg.jonesClip x = clip x) :=
  ⟨clip_range x, clip_id x, deg1clip_false x, deg1clip_true_range x, deg1clip_true_id x,
    fun cfg h => by simp [Cfg.jonesClip, h], fun cfg h => by simp [Cfg.jonesClip, h]⟩

/-! ### quantiser -/

/-- rounded magnitude of `m · 2^ex`, half away from zero -/
def qmag (m : Nat) (ex : Int) : Nat :=
  if ex ≥ 0 then m * 2^ex.toNat else (2 * m + 2^((-ex).toNat)) / 2^((-ex).toNat + 1)

theorem qmag_spec (m : Nat) (ex : Int) :
    let num := m * 2^ex.toNat
    let den := 2^(-ex).toNat
    let mag := qmag m ex
    0 < den ∧ (127 * den ≤ num → 127 ≤ mag) ∧
    (num < 127 * den → mag ≤ 127 ∧ 2 * mag * den ≤ 2 * num + den ∧ 2 * num < (2 * mag + 1) * den) := by
  intro num den mag
  have hden : 0 < den := Nat.pow_pos (by decide)
  refine ⟨hden, ?_⟩
  by_cases hex : ex ≥ 0
  · have h1 : (-ex).toNat = 0 := by omega
    have hd : den = 1 := by simp [den, h1]
    have hm : mag = num := by simp [mag, qmag, hex, num]
    rw [hd, hm]; omega
  · have h1 : ex.toNat = 0 := by omega
    have hn : num = m := by simp [num, h1]
    have hm : mag = (2 * m + den) / (2 * den) := by
      simp only [mag, qmag, hex, if_false, den, Nat.pow_succ]; rw [Nat.mul_comm (2 ^ _) 2]
    rw [hn]
    generalize den = d at *
    have hD : 0 < 2 * d := by omega
    have e1 := Nat.div_mul_le_self (2 * m + d) (2 * d)
    have e2 := @Nat.lt_div_mul_add (2 * m + d) (2 * d) hD
    rw [← hm] at e1 e2
    have e3 : mag * (2 * d) = 2 * (mag * d) := by rw [Nat.mul_left_comm]
    have e4 : 2 * mag * d = 2 * (mag * d) := by rw [Nat.mul_assoc]
    have e5 : (2 * mag + 1) * d = 2 * (mag * d) + d := by rw [Nat.add_mul, Nat.mul_assoc, Nat.one_mul]
    rw [e3] at e1 e2; rw [e4, e5]
    refine ⟨fun h => ?_, fun h => ⟨?_, by omega, by omega⟩⟩
    · -- 127 * d ≤ m → 127 ≤ mag
      apply Nat.le_of_not_lt; intro hlt
      have : (mag + 1) * d ≤ 127 * d := Nat.mul_le_mul_right d hlt
      rw [Nat.add_mul, Nat.one_mul] at this; omega
    · apply Nat.le_of_not_lt; intro hlt
      have : 128 * d ≤ mag * d := Nat.mul_le_mul_right d hlt
      omega


def qcore (neg : Bool) (e frac : Nat) : Int :=
  if e == 2047 then (if frac != 0 then 0 else if neg then -127 else 127)
  else
    let m : Nat := if e == 0 then frac else frac + 2^52
    let ex : Int := (if e == 0 then (-1074 : Int) else (e : Int) - 1075) + 3
    let mag := if qmag m ex ≥ 127 then 127 else qmag m ex
    if neg then -(mag : Int) else (mag : Int)

def t8core (neg : Bool) (e frac : Nat) : Option (Bool × Nat × Nat) :=
  if e == 2047 then none else
  let m : Nat := if e == 0 then frac else frac + 2^52
  let ex : Int := (if e == 0 then (-1074 : Int) else (e : Int) - 1075) + 3
  some (neg, m * 2^ex.toNat, 2^(-ex).toNat)

theorem quantize_eq_qcore (bits : UInt64) :
    quantize bits = qcore (bits.toNat / 2^63 == 1) ((bits.toNat / 2^52) % 2048) (bits.toNat % 2^52) := rfl
theorem times8_eq_t8core (bits : UInt64) :
    times8 bits = t8core (bits.toNat / 2^63 == 1) ((bits.toNat / 2^52) % 2048) (bits.toNat % 2^52) := rfl
theorem isNaN_eq (bits : UInt64) :
    isNaN bits = (((bits.toNat / 2^52) % 2048 == 2047) && (bits.toNat % 2^52 != 0)) := rfl

theorem qcore_spec (neg : Bool) (e frac : Nat) :
    (-127 ≤ qcore neg e frac ∧ qcore neg e frac ≤ 127) ∧
    (((e == 2047) && (frac != 0)) = true → qcore neg e frac = 0) ∧
    (∀ neg' num den, t8core neg e frac = some (neg', num, den) →
      0 < den ∧
      (neg' = true → qcore neg e frac ≤ 0) ∧ (neg' = false → 0 ≤ qcore neg e frac) ∧
      (127 * den ≤ num → (qcore neg e frac).natAbs = 127) ∧
      (num < 127 * den →
        (2 * (qcore neg e frac).natAbs) * den ≤ 2 * num + den ∧
        2 * num < (2 * (qcore neg e frac).natAbs + 1) * den)) := by
  unfold qcore t8core
  by_cases he : e = 2047
  · subst he
    refine ⟨?_, ?_, ?_⟩
    · simp only [beq_self_eq_true, if_true]; split <;> (try split) <;> omega
    · simp only [beq_self_eq_true, if_true, Bool.true_and]
      intro h; simp [h]
    · simp
  · simp only [beq_iff_eq, he, if_false]
    generalize (if e = 0 then frac else frac + 2^52) = m
    generalize ((if e = 0 then (-1074 : Int) else (e : Int) - 1075) + 3) = ex
    have hs := qmag_spec m ex
    simp only at hs
    obtain ⟨hden, hge, hlt⟩ := hs
    generalize qmag m ex = mag at *
    refine ⟨?_, ?_, ?_⟩
    · cases neg <;> simp only [if_true, if_false, Bool.false_eq_true] <;> split <;> omega
    · simp [he]
    · intro neg' num den h
      simp only [Option.some.injEq, Prod.mk.injEq] at h
      obtain ⟨rfl, rfl, rfl⟩ := h
      refine ⟨hden, ?_, ?_, ?_, ?_⟩
      · intro hn; subst hn; simp only [if_true]; split <;> omega
      · intro hn; subst hn; simp only [if_false, Bool.false_eq_true]; split <;> omega
      · intro h; have := hge h
        cases neg <;> simp only [if_true, if_false, Bool.false_eq_true] <;> split <;> omega
      · intro h; obtain ⟨h1, h2, h3⟩ := hlt h
        have hm : (if neg = true then -(((if mag ≥ 127 then 127 else mag : Nat)) : Int)
            else (((if mag ≥ 127 then 127 else mag : Nat)) : Int)).natAbs = mag := by
          cases neg <;> simp only [if_true, if_false, Bool.false_eq_true] <;> split <;> omega
        rw [hm]; exact ⟨h2, h3⟩

theorem quantize_spec_all (bits : UInt64) :
    (-127 ≤ quantize bits ∧ quantize bits ≤ 127) ∧
    (isNaN bits = true → quantize bits = 0) ∧
    (∀ neg num den, times8 bits = some (neg, num, den) →
      0 < den ∧
      (neg = true → quantize bits ≤ 0) ∧ (neg = false → 0 ≤ quantize bits) ∧
      (127 * den ≤ num → (quantize bits).natAbs = 127) ∧
      (num < 127 * den →
        (2 * (quantize bits).natAbs) * den ≤ 2 * num + den ∧ 2 * num < (2 * (quantize bits).natAbs + 1) * den)) := by
  rw [quantize_eq_qcore, times8_eq_t8core, isNaN_eq]
  exact qcore_spec _ _ _

/-! ### Option.mapM -/

theorem mapM_option_eq {α β : Type} (f : α → Option β) (g : α → β) (l : List α)
    (h : ∀ x ∈ l, f x = some (g x)) : l.mapM f = some (l.map g) := by
  induction l with
  | nil => rfl
  | cons a l ih =>
    rw [List.mapM_cons, h a (List.mem_cons_self), ih (fun x hx => h x (List.mem_cons_of_mem _ hx))]
    rfl

theorem mapM_option_some {α β : Type} (f : α → Option β) (l : List α) (out : List β)
    (h : l.mapM f = some out) : ∀ x ∈ l, ∃ y, f x = some y := by
  induction l generalizing out with
  | nil => intro x hx; cases hx
  | cons a l ih =>
    rw [List.mapM_cons] at h
    cases hfa : f a with
    | none => rw [hfa] at h; cases h
    | some y =>
      cases hl : l.mapM f with
      | none => rw [hfa, hl] at h; cases h
      | some o =>
        intro x hx
        rcases List.mem_cons.1 hx with rfl | hx
        · exact ⟨y, hfa⟩
        · exact ih o hl x hx

/-! ### variable rule -/

theorem chk16_some (x : Int) (h1 : -32768 ≤ x) (h2 : x ≤ 32767) : chk16 x = some x := by
  simp [chk16, inI16, h1, h2]

theorem foldl_add_eq (l : List Int) (acc : Int) : l.foldl (· + ·) acc = acc + l.sum := by
  induction l generalizing acc with
  | nil => simp
  | cons v vs ih => simp only [List.foldl_cons, List.sum_cons, ih]; omega

theorem sum_bound (l : List Int) (h : ∀ v ∈ l, -127 ≤ v ∧ v ≤ 127) :
    -(127 * (l.length : Int)) ≤ l.sum ∧ l.sum ≤ 127 * (l.length : Int) := by
  induction l with
  | nil => simp
  | cons v vs ih =>
    have := ih (fun x hx => h x (List.mem_cons_of_mem _ hx))
    have := h v List.mem_cons_self
    simp only [List.sum_cons, List.length_cons]; omega

theorem sum_sub_bound (l : List Int) (h : ∀ v ∈ l, -127 ≤ v ∧ v ≤ 127) (x : Int) (hx : x ∈ l) :
    -(127 * ((l.length : Int) - 1)) ≤ l.sum - x ∧ l.sum - x ≤ 127 * ((l.length : Int) - 1) := by
  induction l with
  | nil => cases hx
  | cons v vs ih =>
    have hvs := fun y hy => h y (List.mem_cons_of_mem _ hy)
    have hv := h v List.mem_cons_self
    simp only [List.sum_cons, List.length_cons]
    rcases List.mem_cons.1 hx with rfl | hx
    · have := sum_bound vs hvs; omega
    · have := ih hvs hx
      have : 1 ≤ vs.length := List.length_pos_of_mem hx
      omega

theorem sum16_eq (l : List Int) (acc : Int) (h : ∀ v ∈ l, -127 ≤ v ∧ v ≤ 127)
    (h1 : -32768 ≤ acc - 127 * (l.length : Int)) (h2 : acc + 127 * (l.length : Int) ≤ 32767) :
    sum16 l acc = some (acc + l.sum) := by
  induction l generalizing acc with
  | nil => simp [sum16]
  | cons v vs ih =>
    have hv := h v List.mem_cons_self
    simp only [List.length_cons] at h1 h2
    simp only [sum16, List.sum_cons]
    rw [chk16_some _ (by omega) (by omega)]
    simp only [Option.bind_eq_bind, Option.bind_some]
    rw [ih _ (fun x hx => h x (List.mem_cons_of_mem _ hx)) (by omega) (by omega)]
    congr 1; omega

theorem bounded_map_snd {msgs : List (Nat × Int)} (hb : Bounded msgs) :
    ∀ v ∈ msgs.map Prod.snd, -127 ≤ v ∧ v ≤ 127 := by
  intro v hv
  obtain ⟨m, hm, rfl⟩ := List.mem_map.1 hv
  exact hb m hm

theorem jonesClip_cases (cfg : Cfg) (x : Int) : cfg.jonesClip x = x ∨ cfg.jonesClip x = clip x := by
  unfold Cfg.jonesClip; split <;> simp

theorem var_rule_spec_all (cfg : Cfg) (input : Int) (msgs : List (Nat × Int)) (hi : -127 ≤ input ∧ input ≤ 127)
    (hb : Bounded msgs) (hd : msgs.length ≤ 257) :
    let inp := if cfg.deg1 then deg1clip input (msgs.length == 1) else input
    let tot := cfg.jonesClip (inp + (msgs.map Prod.snd).foldl (· + ·) 0)
    varRule cfg input msgs = some (clip tot, msgs.map (fun m => (m.1, clip (tot - m.2)))) ∧
    (-127 ≤ clip tot ∧ clip tot ≤ 127) ∧ Bounded (msgs.map (fun m => (m.1, clip (tot - m.2)))) := by
  intro inp tot
  refine ⟨?_, clip_range _, ?_⟩
  · have hinp : -127 ≤ inp ∧ inp ≤ 127 := by
      simp only [inp]; split
      · exact deg1clip_range _ _ hi.1 hi.2
      · exact hi
    have hvals := bounded_map_snd hb
    have hlen : (msgs.map Prod.snd).length = msgs.length := List.length_map _
    have hsb := sum_bound _ hvals
    have hs : sum16 (msgs.map (·.2)) 0 = some ((msgs.map Prod.snd).sum) := by
      have := sum16_eq (msgs.map Prod.snd) 0 hvals (by omega) (by omega)
      simpa using this
    have htot : tot = cfg.jonesClip (inp + (msgs.map Prod.snd).sum) := by
      simp only [tot, foldl_add_eq]; congr 1; omega
    have hout : msgs.mapM (fun m => do
          let d ← chk16 (tot - m.2)
          pure (m.1, clip d)) = some (msgs.map (fun m => (m.1, clip (tot - m.2)))) := by
      apply mapM_option_eq
      intro m hm
      have hm2 := hb m hm
      have hmem : m.2 ∈ msgs.map Prod.snd := List.mem_map.2 ⟨m, hm, rfl⟩
      have hsub := sum_sub_bound _ hvals m.2 hmem
      have : -32768 ≤ tot - m.2 ∧ tot - m.2 ≤ 32767 := by
        rcases jonesClip_cases cfg (inp + (msgs.map Prod.snd).sum) with h | h
        · rw [htot, h]; omega
        · have := clip_range (inp + (msgs.map Prod.snd).sum)
          rw [htot, h]; omega
      rw [chk16_some _ this.1 this.2]; rfl
    unfold varRule
    simp only [Option.bind_eq_bind, hs, Option.bind_some]
    rw [chk16_some _ (by omega) (by omega)]
    simp only [Option.bind_some]
    have htot' : cfg.jonesClip ((if cfg.deg1 = true then deg1clip input (msgs.length == 1) else input) +
        (msgs.map Prod.snd).sum) = tot := htot.symm
    rw [htot']
    simp only [Option.bind_eq_bind] at hout
    rw [hout]; rfl
  · intro m hm
    obtain ⟨m', _, rfl⟩ := List.mem_map.1 hm
    exact clip_range _

/-! ### layered single-check updates -/

/-- the facts about the check rules used by C05 (proved in C04) -/
structure CheckFacts : Prop where
  approx : ∀ (cfg : Cfg) (msgs : List (Nat × Int)), Bounded msgs → 2 ≤ msgs.length →
    (msgs.map Prod.fst).Nodup →
    ∃ out, checkApprox cfg msgs = some out ∧ out.map Prod.fst = msgs.map Prod.fst ∧ Bounded out
  amin : ∀ (cfg : Cfg) (msgs : List (Nat × Int)), Bounded msgs → 2 ≤ msgs.length →
    (msgs.map Prod.fst).Nodup →
    ∃ out, checkAmin cfg msgs = some out ∧ (out.map Prod.fst).Perm (msgs.map Prod.fst) ∧ Bounded out

/-- extrinsic value of one message -/
def extOf (vars : List Int) (m : Nat × Int) : Int := clip (vars.getD m.1 0 - m.2)

/-- the write-back fold of the statements of C05 -/
def wbFold (ms : List (Nat × Int)) (news : List (Nat × Int)) (vars : List Int) : List Int :=
  (ms.zip news).foldl (fun vs p => vs.set p.1.1 (vs.getD p.1.1 0 - p.1.2 + p.2.2)) vars

theorem getElem?_eq_getD {vars : List Int} {i : Nat} (h : i < vars.length) :
    vars[i]? = some (vars.getD i 0) := by
  simp [List.getD_eq_getElem?_getD, List.getElem?_eq_getElem h]

theorem getD_set_ne (vars : List Int) (i j : Nat) (x : Int) (h : i ≠ j) :
    (vars.set i x).getD j 0 = vars.getD j 0 := by
  simp [List.getD_eq_getElem?_getD, List.getElem?_set_ne h]

theorem extrinsics_eq (msgs : List (Nat × Int)) (vars : List Int) (hb : Bounded msgs)
    (hr : ∀ m ∈ msgs, m.1 < vars.length)
    (henv : ∀ m ∈ msgs, (vars.getD m.1 0).natAbs ≤ 127 * 255) :
    extrinsics msgs vars = some (msgs.map (extOf vars)) := by
  unfold extrinsics
  apply mapM_option_eq
  intro m hm
  have := hb m hm; have := henv m hm
  rw [getElem?_eq_getD (hr m hm)]
  simp only [Option.bind_eq_bind, Option.bind_some]
  rw [chk16_some _ (by omega) (by omega)]; rfl

theorem zip_map_self {α β γ : Type} (l : List α) (f : α → β) (k : α → β → γ) :
    (l.zip (l.map f)).map (fun p => k p.1 p.2) = l.map (fun m => k m (f m)) := by
  induction l with
  | nil => rfl
  | cons a l ih => simp only [List.map_cons, List.zip_cons_cons, ih]

theorem writeBack_eq (t : Nat → Int) (ms : List (Nat × Int)) (vs : List Int)
    (hn : (ms.map Prod.fst).Nodup) (hr : ∀ m ∈ ms, m.1 < vs.length) (hb : Bounded ms)
    (ht : ∀ m ∈ ms, -127 ≤ t m.1 ∧ t m.1 ≤ 127)
    (henv : ∀ m ∈ ms, (vs.getD m.1 0).natAbs ≤ 127 * 255) :
    writeBack ms (ms.map (fun m => t m.1)) vs
      = some (wbFold ms (ms.map (fun m => (m.1, t m.1))) vs) := by
  induction ms generalizing vs with
  | nil => rfl
  | cons m ms ih =>
    have hm : m ∈ m :: ms := List.mem_cons_self
    have h1 := hb m hm; have h2 := ht m hm; have h3 := henv m hm
    simp only [List.map_cons, List.nodup_cons, List.mem_map, not_exists, not_and] at hn
    have hne : ∀ m' ∈ ms, m.1 ≠ m'.1 := fun m' hm' h => hn.1 m' hm' h.symm
    simp only [List.map_cons, writeBack, wbFold, List.zip_cons_cons, List.foldl_cons]
    rw [getElem?_eq_getD (hr m hm)]
    simp only [Option.bind_eq_bind, Option.bind_some]
    rw [chk16_some _ (by omega) (by omega)]
    simp only [Option.bind_some]
    rw [chk16_some _ (by omega) (by omega)]
    simp only [Option.bind_some]
    have e : vs.getD m.1 0 + (t m.1 - m.2) = vs.getD m.1 0 - m.2 + t m.1 := by omega
    rw [e]
    exact ih _ hn.2
      (fun m' hm' => by rw [List.length_set]; exact hr m' (List.mem_cons_of_mem _ hm'))
      (fun m' hm' => hb m' (List.mem_cons_of_mem _ hm'))
      (fun m' hm' => ht m' (List.mem_cons_of_mem _ hm'))
      (fun m' hm' => by rw [getD_set_ne _ _ _ _ (hne m' hm')]; exact henv m' (List.mem_cons_of_mem _ hm'))

theorem go_eq (argmin : Nat) (sign : Bool) (minRcv dhl2 : Int) (t : Nat → Int)
    (ms : List (Nat × Int)) (j : Nat) (vs : List Int)
    (hn : (ms.map Prod.fst).Nodup) (hr : ∀ m ∈ ms, m.1 < vs.length) (hb : Bounded ms)
    (ht : ∀ m ∈ ms, -127 ≤ t m.1 ∧ t m.1 ≤ 127)
    (henv : ∀ m ∈ ms, (vs.getD m.1 0).natAbs ≤ 127 * 255)
    (hrcv : ∀ p ∈ ms.zipIdx j, (if p.2 == argmin then minRcv else
        (if sign != decide (vs.getD p.1.1 0 - p.1.2 < 0) then -dhl2 else dhl2)) = t p.1.1) :
    layerAmin.go argmin sign minRcv dhl2 ms j vs
      = some (ms.map (fun m => (m.1, t m.1)), wbFold ms (ms.map (fun m => (m.1, t m.1))) vs) := by
  induction ms generalizing vs j with
  | nil => rfl
  | cons m ms ih =>
    have hm : m ∈ m :: ms := List.mem_cons_self
    have h1 := hb m hm; have h2 := ht m hm; have h3 := henv m hm
    simp only [List.map_cons, List.nodup_cons, List.mem_map, not_exists, not_and] at hn
    have hne : ∀ m' ∈ ms, m.1 ≠ m'.1 := fun m' hm' h => hn.1 m' hm' h.symm
    have h4 := hrcv (m, j) (by simp [List.zipIdx_cons])
    simp only at h4
    simp only [List.map_cons, layerAmin.go, wbFold, List.zip_cons_cons, List.foldl_cons]
    rw [getElem?_eq_getD (hr m hm)]
    simp only [Option.bind_eq_bind, Option.bind_some]
    rw [chk16_some _ (by omega) (by omega)]
    simp only [Option.bind_some]
    rw [h4, chk16_some _ (by omega) (by omega)]
    simp only [Option.bind_some]
    rw [ih (j + 1) _ hn.2
      (fun m' hm' => by rw [List.length_set]; exact hr m' (List.mem_cons_of_mem _ hm'))
      (fun m' hm' => hb m' (List.mem_cons_of_mem _ hm'))
      (fun m' hm' => ht m' (List.mem_cons_of_mem _ hm'))
      (fun m' hm' => by rw [getD_set_ne _ _ _ _ (hne m' hm')]; exact henv m' (List.mem_cons_of_mem _ hm'))
      (fun p hp => by
        have hp1 : p.1 ∈ ms := List.fst_mem_of_mem_zipIdx hp
        rw [getD_set_ne _ _ _ _ (hne p.1 hp1)]
        exact hrcv p (by rw [List.zipIdx_cons]; exact List.mem_cons_of_mem _ hp))]
    rfl


/-- the list handed to the flooding check rule: the messages with their values replaced by the extrinsics -/
def extMsgs (msgs : List (Nat × Int)) (vars : List Int) : List (Nat × Int) :=
  msgs.map (fun m => (m.1, extOf vars m))

theorem extMsgs_fst (msgs : List (Nat × Int)) (vars : List Int) :
    (extMsgs msgs vars).map Prod.fst = msgs.map Prod.fst := by
  simp [extMsgs, List.map_map, Function.comp_def]

theorem extMsgs_snd (msgs : List (Nat × Int)) (vars : List Int) :
    (extMsgs msgs vars).map Prod.snd = msgs.map (extOf vars) := by
  simp [extMsgs, List.map_map, Function.comp_def]

theorem extMsgs_bounded (msgs : List (Nat × Int)) (vars : List Int) : Bounded (extMsgs msgs vars) := by
  intro m hm
  obtain ⟨m', _, rfl⟩ := List.mem_map.1 hm
  exact clip_range _

theorem extMsgs_zip (msgs : List (Nat × Int)) (vars : List Int) :
    (msgs.zip (msgs.map (extOf vars))).map (fun p => (p.1.1, p.2)) = extMsgs msgs vars :=
  zip_map_self msgs (extOf vars) (fun m e => (m.1, e))

theorem extMsgs_others (msgs : List (Nat × Int)) (vars : List Int) (d : Nat) :
    ((extMsgs msgs vars).filter (fun m => m.1 != d)).map (·.2)
      = (msgs.filter (fun m => m.1 != d)).map (extOf vars) := by
  simp [extMsgs, List.filter_map, List.map_map, Function.comp_def]


/-- value the approximate rule sends to destination `d` given the other messages `E` -/
def approxTo (cfg : Cfg) (E : List (Nat × Int)) (d : Nat) : Option Int := do
  let others := (E.filter (fun m => m.1 != d)).map (·.2)
  let r ← foldAbs stepApprox others none
  let mag ← r
  let v := if signParity others then -mag else mag
  pure (cfg.hl v)

theorem v_checkApprox_eq (cfg : Cfg) (E : List (Nat × Int)) :
    checkApprox cfg E = E.mapM (fun ex => (approxTo cfg E ex.1).map (fun v => (ex.1, v))) := by
  unfold checkApprox
  congr 1
  funext ex
  unfold approxTo
  dsimp only
  cases foldAbs stepApprox ((E.filter (fun m => m.1 != ex.1)).map (·.2)) none with
  | none => rfl
  | some r => cases r <;> rfl

theorem layer_approx_all (cf : CheckFacts) (cfg : Cfg) (msgs : List (Nat × Int)) (vars : List Int) (hb : Bounded msgs)
    (hd : 2 ≤ msgs.length) (hn : (msgs.map Prod.fst).Nodup) (hr : ∀ m ∈ msgs, m.1 < vars.length)
    (henv : ∀ m ∈ msgs, (vars.getD m.1 0).natAbs ≤ 127 * 255) :
    ∃ ext emitted, extrinsics msgs vars = some ext ∧
      checkApprox cfg ((msgs.zip ext).map (fun p => (p.1.1, p.2))) = some emitted ∧
      layerApprox cfg msgs vars = some (emitted,
        (msgs.zip emitted).foldl (fun vs p => vs.set p.1.1 (vs.getD p.1.1 0 - p.1.2 + p.2.2)) vars) := by
  obtain ⟨emitted, hem, -, hbe⟩ := cf.approx cfg (extMsgs msgs vars) (extMsgs_bounded _ _)
    (by simpa [extMsgs] using hd) (by rw [extMsgs_fst]; exact hn)
  refine ⟨msgs.map (extOf vars), emitted, extrinsics_eq msgs vars hb hr henv, ?_, ?_⟩
  · rw [extMsgs_zip]; exact hem
  · -- every destination receives `g d`
    let g : Nat → Int := fun d => (approxTo cfg (extMsgs msgs vars) d).getD 0
    have hg : ∀ m ∈ msgs, approxTo cfg (extMsgs msgs vars) m.1 = some (g m.1) := by
      intro m hm
      rw [v_checkApprox_eq] at hem
      obtain ⟨y, hy⟩ := mapM_option_some _ _ _ hem (m.1, extOf vars m) (List.mem_map.2 ⟨m, hm, rfl⟩)
      simp only [g]
      cases h : approxTo cfg (extMsgs msgs vars) m.1 with
      | none => rw [h] at hy; cases hy
      | some v => rfl
    have hemitted : emitted = msgs.map (fun m => (m.1, g m.1)) := by
      rw [v_checkApprox_eq, mapM_option_eq _ (fun ex => (ex.1, g ex.1))] at hem
      · rw [← Option.some.inj hem]; simp [extMsgs, List.map_map, Function.comp_def]
      · intro ex hex
        obtain ⟨m, hm, rfl⟩ := List.mem_map.1 hex
        simp only; rw [hg m hm]; rfl
    have hnews : msgs.mapM (fun ex => do
          let others ← extrinsics (msgs.filter (fun m => m.1 != ex.1)) vars
          let r ← foldAbs stepApprox others none
          let mag ← r
          let v := if signParity others then -mag else mag
          pure (cfg.hl v)) = some (msgs.map (fun m => g m.1)) := by
      apply mapM_option_eq
      intro m hm
      have hsub : ∀ m' ∈ msgs.filter (fun m' => m'.1 != m.1), m' ∈ msgs := fun m' h => (List.mem_filter.1 h).1
      rw [extrinsics_eq _ vars (fun m' h => hb m' (hsub m' h)) (fun m' h => hr m' (hsub m' h))
        (fun m' h => henv m' (hsub m' h))]
      rw [← hg m hm, approxTo, extMsgs_others]
      rfl
    have hgb : ∀ m ∈ msgs, -127 ≤ g m.1 ∧ g m.1 ≤ 127 := by
      intro m hm
      exact hbe (m.1, g m.1) (by rw [hemitted]; exact List.mem_map.2 ⟨m, hm, rfl⟩)
    unfold layerApprox
    simp only [Option.bind_eq_bind] at hnews ⊢
    rw [hnews]
    simp only [Option.bind_some]
    rw [writeBack_eq g msgs vars hn hr hb hgb henv]
    simp only [Option.bind_some]
    rw [zip_map_self msgs (fun m => g m.1) (fun m e => (m.1, e)), ← hemitted]
    rfl


theorem sentTo_of_mem {β : Type} (em : List (Nat × β)) (d : Nat) (v : β) (hn : (em.map Prod.fst).Nodup)
    (h : (d, v) ∈ em) : BPRef.sentTo em d = some v := by
  unfold BPRef.sentTo
  induction em with
  | nil => cases h
  | cons a em ih =>
    simp only [List.map_cons, List.nodup_cons, List.mem_map, not_exists, not_and] at hn
    rw [List.find?_cons]
    rcases List.mem_cons.1 h with rfl | h
    · simp
    · have : (a.1 == d) = false := by
        rw [beq_eq_false_iff_ne]; intro e; exact hn.1 (d, v) h e.symm
      rw [this]; exact ih hn.2 h

theorem layer_amin_all (cf : CheckFacts) (cfg : Cfg) (msgs : List (Nat × Int)) (vars : List Int) (hb : Bounded msgs)
    (hd : 2 ≤ msgs.length) (hn : (msgs.map Prod.fst).Nodup) (hr : ∀ m ∈ msgs, m.1 < vars.length)
    (henv : ∀ m ∈ msgs, (vars.getD m.1 0).natAbs ≤ 127 * 255) :
    ∃ ext emitted msgs', extrinsics msgs vars = some ext ∧
      checkAmin cfg ((msgs.zip ext).map (fun p => (p.1.1, p.2))) = some emitted ∧
      msgs' = msgs.map (fun m => (m.1, ((BPRef.sentTo emitted m.1).getD 0))) ∧
      layerAmin cfg msgs vars = some (msgs',
        (msgs.zip msgs').foldl (fun vs p => vs.set p.1.1 (vs.getD p.1.1 0 - p.1.2 + p.2.2)) vars) := by
  obtain ⟨emitted, hem, hperm, hbe⟩ := cf.amin cfg (extMsgs msgs vars) (extMsgs_bounded _ _)
    (by simpa [extMsgs] using hd) (by rw [extMsgs_fst]; exact hn)
  have hext := extrinsics_eq msgs vars hb hr henv
  refine ⟨msgs.map (extOf vars), emitted, _, hext, ?_, rfl, ?_⟩
  · rw [extMsgs_zip]; exact hem
  · have hnem : (emitted.map Prod.fst).Nodup := by
      rw [hperm.nodup_iff, extMsgs_fst]; exact hn
    unfold checkAmin at hem
    rw [show (extMsgs msgs vars).map (·.2) = msgs.map (extOf vars) from extMsgs_snd msgs vars] at hem
    simp only [Option.bind_eq_bind, Option.bind_eq_some_iff] at hem
    obtain ⟨⟨argmin, vmin⟩, h1, r, h2, delta, h3, vabs, h4, delta2, h5, h6⟩ := hem
    simp only [Option.pure_def, Option.some.injEq] at h6
    unfold layerAmin
    simp only [Option.bind_eq_bind, hext, Option.bind_some, h1, h2, h3, h4, h5]
    generalize hsign : signParity (msgs.map (extOf vars)) = sign at h6 ⊢
    generalize hminRcv : (if (sign != decide (vmin < 0)) = true then -cfg.hl delta else cfg.hl delta) = minRcv at h6 ⊢
    generalize cfg.hl delta2 = dhl2 at h6 ⊢
    -- every message's new value is in the emitted list
    have hmem : ∀ p ∈ msgs.zipIdx, (p.1.1, if p.2 == argmin then minRcv else
        (if sign != decide (vars.getD p.1.1 0 - p.1.2 < 0) then -dhl2 else dhl2)) ∈ emitted := by
      rintro ⟨m, j⟩ hp
      have hj : msgs[j]? = some m := List.mem_zipIdx_iff_getElem?.1 hp
      have hEj : (extMsgs msgs vars)[j]? = some (m.1, extOf vars m) := by
        simp [extMsgs, List.getElem?_map, hj]
      rw [← h6]
      by_cases hja : j = argmin
      · subst hja
        simp only [beq_self_eq_true, if_true, List.getD_eq_getElem?_getD, hEj, Option.getD_some]
        exact List.mem_cons_self
      · apply List.mem_cons_of_mem
        simp only [beq_iff_eq, hja, if_false]
        refine List.mem_map.2 ⟨((m.1, extOf vars m), j), List.mem_filter.2 ⟨?_, by simpa using hja⟩, ?_⟩
        · exact List.mem_zipIdx_iff_getElem?.2 hEj
        · simp only [extOf, clip_neg_iff]
    have hsent : ∀ p ∈ msgs.zipIdx, (if p.2 == argmin then minRcv else
        (if sign != decide (vars.getD p.1.1 0 - p.1.2 < 0) then -dhl2 else dhl2))
          = (BPRef.sentTo emitted p.1.1).getD 0 := by
      intro p hp
      rw [sentTo_of_mem emitted _ _ hnem (hmem p hp)]; rfl
    have hbt : ∀ m ∈ msgs, -127 ≤ (BPRef.sentTo emitted m.1).getD 0 ∧ (BPRef.sentTo emitted m.1).getD 0 ≤ 127 := by
      intro m hm
      obtain ⟨j, hj⟩ := List.mem_iff_getElem?.1 hm
      have hp : (m, j) ∈ msgs.zipIdx := List.mem_zipIdx_iff_getElem?.2 hj
      rw [← hsent _ hp]
      exact hbe _ (hmem _ hp)
    exact go_eq argmin sign minRcv dhl2 (fun d => (BPRef.sentTo emitted d).getD 0) msgs 0 vars hn hr hb hbt henv hsent


/-! ### the flooding contract -/

theorem map_fst_map {α β γ : Type} (l : List (α × β)) (g : α × β → γ) :
    (l.map (fun m => (m.1, g m))).map Prod.fst = l.map Prod.fst := by
  simp [List.map_map, Function.comp_def]

def okI8 (x : Int) : Prop := -127 ≤ x ∧ x ≤ 127

theorem checkRule_ok (cf : CheckFacts) (amin : Bool) (cfg : Cfg) (msgs : List (Nat × Int)) (hb : Bounded msgs)
    (hd : 2 ≤ msgs.length) (hn : (msgs.map Prod.fst).Nodup) :
    ∃ out, (if amin then checkAmin cfg else checkApprox cfg) msgs = some out ∧
      (out.map Prod.fst).Perm (msgs.map Prod.fst) ∧ ∀ m ∈ out, okI8 m.2 := by
  cases amin
  · obtain ⟨out, h1, h2, h3⟩ := cf.approx cfg msgs hb hd hn
    exact ⟨out, h1, h2 ▸ List.Perm.refl _, h3⟩
  · obtain ⟨out, h1, h2, h3⟩ := cf.amin cfg msgs hb hd hn
    exact ⟨out, h1, h2, h3⟩

def wellBehaved (cf : CheckFacts) (amin : Bool) (cfg : Cfg) (h : SM) (hinv : h.Inv)
    (hrow : ∀ r, r < h.nrows → 2 ≤ (h.row r).length) (hcol : ∀ c, c < h.ncols → (h.col c).length ≤ 257) :
    WellBehaved (mkArith amin cfg) h where
  okLlr := okI8
  okVar := okI8
  okCheck := okI8
  quant_ok := fun b => (quantize_spec_all b).1
  toVar_ok := fun _ hx => hx
  dCheck_ok := by show okI8 0; unfold okI8; omega
  check_ok := by
    intro c hc msgs hfst hb
    have hlen : 2 ≤ msgs.length := by
      have := hrow c hc; rw [← hfst, List.length_map] at this; exact this
    exact checkRule_ok cf amin cfg msgs hb hlen (hfst ▸ hinv.2.2.1 c)
  var_ok := by
    intro v hv llr msgs hllr hfst hb
    have hlen : msgs.length ≤ 257 := by
      have := hcol v hv; rw [← hfst, List.length_map] at this; exact this
    obtain ⟨h1, _, h3⟩ := var_rule_spec_all cfg llr msgs hllr hb hlen
    refine ⟨_, _, h1, ?_, h3⟩
    exact (map_fst_map msgs _).symm ▸ List.Perm.refl _

end LdpcV.I8
