/-
Helper development for C03Tree, part 7: the layered textbook schedule (`Ideal.layerRun`) run with the ideal real
arithmetic never fails and computes the message table `mL` and the totals `totLlr … (mL …)`.
-/
import LdpcV.Lemmas.TreeBP0
import LdpcV.Lemmas.BoxPlusLemmas
namespace LdpcV.TreeBP
open LdpcV

/-! ### generic list facts -/

/-- `mapM` in `Option` of a function that succeeds with `g x` on every element -/
theorem mapM_option_some {α β : Type} (f : α → Option β) (g : α → β) (l : List α)
    (hf : ∀ x ∈ l, f x = some (g x)) : l.mapM f = some (l.map g) := by
  induction l with
  | nil => rfl
  | cons a l ih =>
    rw [List.mapM_cons, hf a (by simp), ih (fun x hx => hf x (by simp [hx]))]
    rfl

/-- lookup by key in a list of pairs `(u, f u)` -/
theorem find?_map_pair {β : Type} (l : List Nat) (f : Nat → β) (v : Nat) (hv : v ∈ l) :
    (l.map (fun u => (u, f u))).find? (fun o => o.1 == v) = some (v, f v) := by
  induction l with
  | nil => simp at hv
  | cons a l ih =>
    simp only [List.map_cons, List.find?_cons]
    by_cases hav : a = v
    · subst hav; simp
    · have hb : (a == v) = false := by simpa using hav
      simp only [hb]
      rcases List.mem_cons.1 hv with h1 | h1
      · exact absurd h1.symm hav
      · exact ih h1

theorem foldl_set_length {β : Type} (R : List Nat) (g : Nat → β) (vars : List β) :
    (R.foldl (fun vs v => vs.set v (g v)) vars).length = vars.length := by
  induction R generalizing vars with
  | nil => rfl
  | cons a R ih => simp only [List.foldl_cons, ih, List.length_set]

theorem foldl_set_getElem? {β : Type} (R : List Nat) (g : Nat → β) (vars : List β) (i : Nat) :
    (R.foldl (fun vs v => vs.set v (g v)) vars)[i]? = if i ∈ R then (vars[i]?).map (fun _ => g i) else vars[i]? := by
  induction R generalizing vars with
  | nil => simp
  | cons a R ih =>
    simp only [List.foldl_cons, ih, List.getElem?_set, List.mem_cons]
    by_cases hia : i = a
    · subst hia
      by_cases hi : i < vars.length <;> by_cases hR : i ∈ R <;> simp [hi, hR]
    · have : ¬ a = i := fun h => hia h.symm
      simp [hia, this]

/-- sum over a duplicate-free list with exactly one entry changed -/
theorem sum_map_ite_mem (l : List Nat) (hl : l.Nodup) (c : Nat) (hc : c ∈ l) (a : ℝ) (f : Nat → ℝ) :
    (l.map (fun c' => if c' = c then a else f c')).sum = (l.map f).sum - f c + a := by
  induction l with
  | nil => simp at hc
  | cons b l ih =>
    have hnd := List.nodup_cons.1 hl
    simp only [List.map_cons, List.sum_cons]
    by_cases hbc : b = c
    · subst hbc
      have : l.map (fun c' => if c' = b then a else f c') = l.map f := by
        apply List.map_congr_left
        intro x hx
        have : x ≠ b := fun hxb => hnd.1 (hxb ▸ hx)
        simp [this]
      rw [this]; simp; ring
    · rcases List.mem_cons.1 hc with h1 | h1
      · exact absurd h1.symm hbc
      · rw [ih hnd.2 h1]; simp [hbc]; ring

theorem sum_map_ite_not_mem (l : List Nat) (c : Nat) (hc : c ∉ l) (a : ℝ) (f : Nat → ℝ) :
    (l.map (fun c' => if c' = c then a else f c')).sum = (l.map f).sum := by
  congr 1
  apply List.map_congr_left
  intro x hx
  have : x ≠ c := fun hxc => hc (hxc ▸ hx)
  simp [this]

/-! ### one call of the layered rule -/

/-- the check rule on a list `R` of neighbours with incoming values `e u` -/
noncomputable def nu (R : List Nat) (e : Nat → ℝ) (v : Nat) : ℝ :=
  2 * (1 / 2 * Real.log ((1 + ((oth R v).map (fun u => Real.tanh (1 / 2 * e u))).prod) /
    (1 - ((oth R v).map (fun u => Real.tanh (1 / 2 * e u))).prod)))

theorem chkMsg_eq_nu (h : SM) (x : Nat → Nat → ℝ) (c v : Nat) :
    chkMsg h x c v = nu (h.row c) (fun u => x u c) v := rfl

theorem nu_congr (R : List Nat) (e e' : Nat → ℝ) (he : ∀ u ∈ R, e u = e' u) (v : Nat) : nu R e v = nu R e' v := by
  have : (oth R v).map (fun u => Real.tanh (1 / 2 * e u)) = (oth R v).map (fun u => Real.tanh (1 / 2 * e' u)) := by
    apply List.map_congr_left
    intro u hu
    rw [he u (List.mem_filter.1 hu).1]
  unfold nu
  rw [this]

theorem checkRule_map (R : List Nat) (e : Nat → ℝ) :
    Ideal.checkRule Sc.real (R.map (fun v => (v, e v))) = R.map (fun v => (v, nu R e v)) := by
  unfold Ideal.checkRule
  rw [List.map_map]
  apply List.map_congr_left
  intro v hv
  simp only [Function.comp, ArithF.tanhProd, BoxL.prod_real, real_mul, real_rat, real_atanh, real_tanh, nu, oth,
    List.filter_map, List.map_map]
  norm_num [Function.comp_def]

theorem layerBy_abs (R : List Nat) (vars : List ℝ) (μ e : Nat → ℝ) (hR : ∀ v ∈ R, v < vars.length)
    (he : ∀ v ∈ R, e v = vars.getD v 0 - μ v) :
    ArithF.layerBy Sc.real (fun m => some (Ideal.checkRule Sc.real m)) (R.map (fun v => (v, μ v))) vars =
      some (R.map (fun v => (v, nu R e v)), R.foldl (fun vs v => vs.set v (e v + nu R e v)) vars) := by
  have h1 : (R.map (fun v => (v, μ v))).mapM (fun m => (vars[m.1]?).map (fun q => (m.1, Sc.real.sub q m.2))) =
      some (R.map (fun v => (v, e v))) := by
    rw [mapM_option_some _ (fun m => (m.1, e m.1))]
    · simp [List.map_map]
    · intro x hx
      obtain ⟨v, hv, rfl⟩ := List.mem_map.1 hx
      have := hR v hv
      simp [this, he v hv]
  have h2 : (R.map (fun v => (v, e v))).mapM (fun x =>
      ((R.map (fun v => (v, nu R e v))).find? (fun o => o.1 == x.1)).map (fun o => (x.1, o.2))) =
      some (R.map (fun v => (v, nu R e v))) := by
    rw [mapM_option_some _ (fun m => (m.1, nu R e m.1))]
    · simp [List.map_map]
    · intro x hx
      obtain ⟨v, hv, rfl⟩ := List.mem_map.1 hx
      simp only [find?_map_pair R (nu R e) v hv, Option.map_some]
  unfold ArithF.layerBy
  simp only [h1, Option.bind_eq_bind, Option.bind_some, checkRule_map, h2, Option.pure_def]
  rw [List.zip_map', List.foldl_map]
  rfl

/-! ### the totals after processing one check -/

theorem stepL_self (h : SM) (lam : List ℝ) (m : Nat → Nat → ℝ) (c v : Nat) :
    stepL h lam m c c v = nu (h.row c) (fun u => totLlr h lam m u - m c u) v := by
  simp [stepL, chkMsg_eq_nu]

theorem stepL_ne (h : SM) (lam : List ℝ) (m : Nat → Nat → ℝ) (c c' v : Nat) (hc : c' ≠ c) :
    stepL h lam m c c' v = m c' v := by
  simp [stepL, hc]

theorem totLlr_stepL_mem (h : SM) (hinv : h.Inv) (lam : List ℝ) (m : Nat → Nat → ℝ) (c u : Nat) (hu : u ∈ h.row c) :
    totLlr h lam (stepL h lam m c) u = (totLlr h lam m u - m c u) + stepL h lam m c c u := by
  have hc : c ∈ h.col u := (hinv.1 c u hu).2.2
  have hnd : (h.col u).Nodup := hinv.2.2.2 u
  have := sum_map_ite_mem (h.col u) hnd c hc (stepL h lam m c c u) (fun c' => m c' u)
  unfold totLlr
  have e : (h.col u).map (fun c' => stepL h lam m c c' u) =
      (h.col u).map (fun c' => if c' = c then stepL h lam m c c u else m c' u) := by
    apply List.map_congr_left
    intro c' _
    by_cases hcc : c' = c
    · subst hcc; simp
    · simp [stepL, hcc]
  rw [e, this]; ring

theorem totLlr_stepL_not_mem (h : SM) (hinv : h.Inv) (lam : List ℝ) (m : Nat → Nat → ℝ) (c u : Nat)
    (hu : u ∉ h.row c) : totLlr h lam (stepL h lam m c) u = totLlr h lam m u := by
  have hc : c ∉ h.col u := fun hc => hu (hinv.2.1 c u hc).2.2
  unfold totLlr
  congr 2
  apply List.map_congr_left
  intro c' hc'
  have : c' ≠ c := fun hcc => hc (hcc ▸ hc')
  simp [stepL, this]

/-- one call of the layered rule on check `c`: messages of `c` and all totals are those of `stepL … c` -/
theorem layerBy_step (h : SM) (hinv : h.Inv) (lam : List ℝ) (m : Nat → Nat → ℝ) (c : Nat) :
    ArithF.layerBy Sc.real (fun m => some (Ideal.checkRule Sc.real m)) ((h.row c).map (fun v => (v, m c v)))
        ((List.range h.ncols).map (totLlr h lam m)) =
      some ((h.row c).map (fun v => (v, stepL h lam m c c v)),
            (List.range h.ncols).map (totLlr h lam (stepL h lam m c))) := by
  have hR : ∀ v ∈ h.row c, v < ((List.range h.ncols).map (totLlr h lam m)).length := by
    intro v hv
    simpa using (hinv.1 c v hv).2.1
  have he : ∀ v ∈ h.row c, (fun u => totLlr h lam m u - m c u) v =
      ((List.range h.ncols).map (totLlr h lam m)).getD v 0 - m c v := by
    intro v hv
    have := (hinv.1 c v hv).2.1
    simp [this]
  rw [layerBy_abs (h.row c) _ (m c) (fun u => totLlr h lam m u - m c u) hR he]
  congr 2
  · apply List.map_congr_left
    intro v _
    rw [stepL_self]
  · apply List.ext_getElem?
    intro i
    rw [foldl_set_getElem?]
    by_cases hi : i < h.ncols
    · by_cases hr : i ∈ h.row c
      · simp [hi, hr, totLlr_stepL_mem h hinv lam m c i hr, stepL_self]
      · simp [hi, hr, totLlr_stepL_not_mem h hinv lam m c i hr]
    · by_cases hr : i ∈ h.row c
      · exact absurd (hinv.1 c i hr).2.1 hi
      · simp [hi, hr]

theorem layerRule_step (h : SM) (hinv : h.Inv) (lam : List ℝ) (m : Nat → Nat → ℝ) (c : Nat) :
    (Ideal.arith Sc.real).layerRule ((h.row c).map (fun v => (v, m c v)))
        ((List.range h.ncols).map (totLlr h lam m)) =
      some ((h.row c).map (fun v => (v, stepL h lam m c c v)),
            (List.range h.ncols).map (totLlr h lam (stepL h lam m c))) :=
  layerBy_step h hinv lam m c

/-! ### one sweep over the checks -/

theorem foldl_stepL_not_mem (h : SM) (lam : List ℝ) (l : List Nat) (m : Nat → Nat → ℝ) (c v : Nat) (hc : c ∉ l) :
    (l.foldl (stepL h lam) m) c v = m c v := by
  induction l generalizing m with
  | nil => rfl
  | cons a l ih =>
    rw [List.foldl_cons, ih _ (fun hh => hc (List.mem_cons_of_mem _ hh)), stepL_ne]
    exact fun hca => hc (hca ▸ List.mem_cons_self ..)

theorem layerIter_cons_some {A : Arith} (c : Nat) (msgs : List (Nat × A.CheckMsg))
    (rest : List (List (Nat × A.CheckMsg))) (vars : List A.VarLlr) (msgs' : List (Nat × A.CheckMsg))
    (vars' : List A.VarLlr) (rest' : List (List (Nat × A.CheckMsg))) (vars'' : List A.VarLlr)
    (tr : List (BPRef.Call A)) (h1 : A.layerRule msgs vars = some (msgs', vars'))
    (h2 : BPRef.layerIter (c + 1) rest vars' = some (rest', vars'', tr)) :
    BPRef.layerIter c (msgs :: rest) vars =
      some (msgs' :: rest', vars'', BPRef.Call.layer c msgs msgs' vars' :: tr) := by
  rw [BPRef.layerIter, h1]
  simp only [h2]

/-- the layered iteration over the checks `k, …, k+n-1` (arguments and results as variables, so that all
rewriting happens in equations between lists over `ℝ`) -/
theorem layerIter_suffix_aux (h : SM) (hinv : h.Inv) (lam : List ℝ) : ∀ (n k : Nat) (m : Nat → Nat → ℝ)
    (rcv out : List (List (Nat × ℝ))) (vars vout : List ℝ),
    rcv = (List.range' k n).map (fun c => (h.row c).map (fun v => (v, m c v))) →
    vars = (List.range h.ncols).map (totLlr h lam m) →
    out = (List.range' k n).map (fun c => (h.row c).map
              (fun v => (v, ((List.range' k n).foldl (stepL h lam) m) c v))) →
    vout = (List.range h.ncols).map (totLlr h lam ((List.range' k n).foldl (stepL h lam) m)) →
    ∃ tr, BPRef.layerIter (A := Ideal.arith Sc.real) k rcv vars = some (out, vout, tr) := by
  intro n
  induction n with
  | zero =>
    intro k m rcv out vars vout h1 h2 h3 h4
    subst h1 h2 h3 h4
    exact ⟨[], rfl⟩
  | succ n ih =>
    intro k m rcv out vars vout h1 h2 h3 h4
    have hk : k ∉ List.range' (k + 1) n := by
      intro hc
      have := (List.mem_range'_1.1 hc).1
      omega
    have hrest : (List.range' (k + 1) n).map (fun c => (h.row c).map (fun v => (v, m c v))) =
        (List.range' (k + 1) n).map (fun c => (h.row c).map (fun v => (v, stepL h lam m k c v))) := by
      apply List.map_congr_left
      intro c hc
      have : c ≠ k := by
        have := (List.mem_range'_1.1 hc).1
        omega
      simp only [stepL_ne h lam m k c _ this]
    obtain ⟨tr, htr⟩ := ih (k + 1) (stepL h lam m k) _ _ _ _ hrest rfl rfl rfl
    have key := layerIter_cons_some (A := Ideal.arith Sc.real) k _ _ _ _ _ _ _ _ (layerRule_step h hinv lam m k) htr
    have h1' : rcv = (h.row k).map (fun v => (v, m k v)) ::
        (List.range' (k + 1) n).map (fun c => (h.row c).map (fun v => (v, m c v))) := by
      rw [h1, List.range'_succ, List.map_cons]
    have h3' : out = (h.row k).map (fun v => (v, stepL h lam m k k v)) ::
        (List.range' (k + 1) n).map (fun c => (h.row c).map
              (fun v => (v, ((List.range' (k + 1) n).foldl (stepL h lam) (stepL h lam m k)) c v))) := by
      rw [h3, List.range'_succ, List.map_cons, List.foldl_cons]
      congr 1
      apply List.map_congr_left
      intro v _
      rw [foldl_stepL_not_mem h lam _ _ k v hk]
    have h4' : vout = (List.range h.ncols).map
        (totLlr h lam ((List.range' (k + 1) n).foldl (stepL h lam) (stepL h lam m k))) := by
      rw [h4, List.range'_succ, List.foldl_cons]
    subst h1' h2 h3' h4'
    exact ⟨_, key⟩

theorem layerIter_suffix (h : SM) (hinv : h.Inv) (lam : List ℝ) (n k : Nat) (m : Nat → Nat → ℝ) :
    ∃ tr, BPRef.layerIter (A := Ideal.arith Sc.real) k
        ((List.range' k n).map (fun c => (h.row c).map (fun v => (v, m c v))))
        ((List.range h.ncols).map (totLlr h lam m)) =
      some ((List.range' k n).map (fun c => (h.row c).map
              (fun v => (v, ((List.range' k n).foldl (stepL h lam) m) c v))),
            (List.range h.ncols).map (totLlr h lam ((List.range' k n).foldl (stepL h lam) m)), tr) :=
  layerIter_suffix_aux h hinv lam n k m _ _ _ _ rfl rfl rfl rfl

/-! ### the run -/

theorem blank_eq (h : SM) (lam : List ℝ) :
    Store.blank (ArithF.zero Sc.real) h.rows =
      (List.range h.nrows).map (fun c => (h.row c).map (fun v => (v, mL h lam 0 c v))) := by
  apply List.ext_getElem
  · simp [Store.blank, SM.nrows]
  · intro i h1 h2
    have hi : i < h.rows.length := by simpa [Store.blank] using h1
    simp [Store.blank, SM.row, hi, mL, BoxL.zero_real]

theorem lam_eq_tot0 (h : SM) (lam : List ℝ) (hl : lam.length = h.ncols) :
    lam = (List.range h.ncols).map (totLlr h lam (mL h lam 0)) := by
  apply List.ext_getElem
  · simp [hl]
  · intro i h1 h2
    simp [totLlr, mL, lamAt, h1]

/-- the layered schedule with the ideal arithmetic never fails, and its state after `t` iterations is the message
table `mL h lam t` (per check, in row order) and the totals `λ_v + Σ_c m_{c→v}` -/
theorem layerRun_eq (h : SM) (hinv : h.Inv) (lam : List ℝ) (hl : lam.length = h.ncols) (t : Nat) :
    Ideal.layerRun Sc.real h lam t =
      some ((List.range h.nrows).map (fun c => (h.row c).map (fun v => (v, mL h lam t c v))),
            (List.range h.ncols).map (totLlr h lam (mL h lam t))) := by
  induction t with
  | zero =>
    rw [Ideal.layerRun, blank_eq h lam]
    exact congrArg some (Prod.ext rfl (lam_eq_tot0 h lam hl))
  | succ t ih =>
    obtain ⟨tr, htr⟩ := layerIter_suffix_aux h hinv lam h.nrows 0 (mL h lam t)
      ((List.range h.nrows).map (fun c => (h.row c).map (fun v => (v, mL h lam t c v))))
      ((List.range h.nrows).map (fun c => (h.row c).map (fun v => (v, mL h lam (t + 1) c v))))
      ((List.range h.ncols).map (totLlr h lam (mL h lam t)))
      ((List.range h.ncols).map (totLlr h lam (mL h lam (t + 1))))
      (by rw [List.range_eq_range']) rfl
      (by simp only [mL, sweepL, List.range_eq_range'])
      (by simp only [mL, sweepL, List.range_eq_range'])
    rw [Ideal.layerRun, ih]
    simp only [htr]
    rfl

end LdpcV.TreeBP
