/-
Helper development for C03Code, part 2: the runs.

* `floodRunA (Ideal.arith S)` / `layerRunA (Ideal.arith S)` are the specialised runs `floodRun S` / `layerRun S`
* the CODE's tanh check rule (`ArithF.checkTanh`, with clamp) coincides with the ideal rule on a list of messages none
  of which is clamped
* hence the runs of the modelled tanh arithmetic over ℝ (`ArithFloat.mkArith Sc.real q clamp .tanh`) compute the
  message functions `X`, `L` (flooding) and the table `mL` (layered) of TreeBP0 as long as the clamp is inactive
-/
import LdpcV.Lemmas.CodeRule1
import LdpcV.Model.ArithFloat
namespace LdpcV.CodeRule
open LdpcV LdpcV.TreeBP

/-! ### generic runs at the ideal arithmetic -/

theorem floodRunA_succ (A : Arith) (h : SM) (lam : List A.Llr) (t : Nat) :
    Ideal.floodRunA A h lam (t + 1) = (Ideal.floodRunA A h lam t).bind
      (fun p => (BPRef.floodIter (A := A) h lam p.1).map (fun r => (r.1, r.2.1))) := by
  rw [Ideal.floodRunA]
  cases Ideal.floodRunA A h lam t <;> rfl

theorem floodRun_succ {α : Type} (S : Sc α) (h : SM) (lam : List α) (t : Nat) :
    Ideal.floodRun S h lam (t + 1) = (Ideal.floodRun S h lam t).bind
      (fun p => (BPRef.floodIter (A := Ideal.arith S) h lam p.1).map (fun r => (r.1, r.2.1))) := by
  rw [Ideal.floodRun]
  cases Ideal.floodRun S h lam t <;> rfl

theorem layerRunA_succ (A : Arith) (h : SM) (lam : List A.Llr) (t : Nat) :
    Ideal.layerRunA A h lam (t + 1) = (Ideal.layerRunA A h lam t).bind
      (fun p => (BPRef.layerIter (A := A) 0 p.1 p.2).map (fun r => (r.1, r.2.1))) := by
  rw [Ideal.layerRunA]
  cases Ideal.layerRunA A h lam t <;> rfl

theorem layerRun_succ {α : Type} (S : Sc α) (h : SM) (lam : List α) (t : Nat) :
    Ideal.layerRun S h lam (t + 1) = (Ideal.layerRun S h lam t).bind
      (fun p => (BPRef.layerIter (A := Ideal.arith S) 0 p.1 p.2).map (fun r => (r.1, r.2.1))) := by
  rw [Ideal.layerRun]
  cases Ideal.layerRun S h lam t <;> rfl

theorem floodRunA_ideal {α : Type} (S : Sc α) (h : SM) (lam : List α) (t : Nat) :
    Ideal.floodRunA (Ideal.arith S) h lam t = Ideal.floodRun S h lam t := by
  induction t with
  | zero => rfl
  | succ t ih =>
    refine (floodRunA_succ (Ideal.arith S) h lam t).trans ((congrArg (fun o => Option.bind o _) ih).trans (floodRun_succ S h lam t).symm)

theorem layerRunA_ideal {α : Type} (S : Sc α) (h : SM) (lam : List α) (t : Nat) :
    Ideal.layerRunA (Ideal.arith S) h lam t = Ideal.layerRun S h lam t := by
  induction t with
  | zero =>
    show some (_, List.map id lam) = some (_, lam)
    exact congrArg some (Prod.ext rfl (List.map_id lam))
  | succ t ih =>
    refine (layerRunA_succ (Ideal.arith S) h lam t).trans ((congrArg (fun o => Option.bind o _) ih).trans (layerRun_succ S h lam t).symm)

/-! ### the clamped tanh rule when the clamp is inactive -/

theorem checkTanh_eq_ideal (clamp : ℝ) (msgs : List (Nat × ℝ)) (hcl : ∀ m ∈ msgs, |1 / 2 * m.2| ≤ clamp) :
    ArithF.checkTanh Sc.real clamp msgs = Ideal.checkRule Sc.real msgs := by
  have hts : msgs.map (fun m => (m.1, Sc.real.tanh (Sc.real.max (Sc.real.neg clamp) (Sc.real.min clamp
        (Sc.real.mul (Sc.real.rat 1 2) m.2))))) =
      msgs.map (fun m => (m.1, Sc.real.tanh (Sc.real.mul (Sc.real.rat 1 2) m.2))) := by
    apply List.map_congr_left
    intro q hq
    obtain ⟨h1, h2⟩ := abs_le.1 (hcl q hq)
    have e : Sc.real.mul (Sc.real.rat 1 2) q.2 = 1 / 2 * q.2 := by simp
    simp only [e, real_tanh, real_max, real_min, real_neg]
    rw [min_eq_right h2, max_eq_right h1]
  unfold ArithF.checkTanh Ideal.checkRule
  simp only [hts]
  apply List.map_congr_left
  intro ex _
  unfold ArithF.tanhProd
  rw [List.filter_map, List.map_map, List.map_map]
  rfl

/-- the modelled tanh arithmetic over the reals -/
noncomputable abbrev TA (q : UInt64 → ℝ) (cl : ℝ) : Arith := ArithFloat.mkArith Sc.real q cl .tanh

theorem checkRule_TA (q : UInt64 → ℝ) (cl : ℝ) (R : List Nat) (e : Nat → ℝ) (hcl : ∀ u ∈ R, |1 / 2 * e u| ≤ cl) :
    (TA q cl).checkRule (R.map (fun v => (v, e v))) = some (R.map (fun v => (v, nu R e v))) := by
  show some (ArithF.checkTanh Sc.real cl (R.map (fun v => (v, e v)))) = _
  rw [checkTanh_eq_ideal, checkRule_map]
  intro m hm
  obtain ⟨u, hu, rfl⟩ := List.mem_map.1 hm
  exact hcl u hu

/-! ### flooding -/

theorem floodIter_TA (h : SM) (hinv : h.Inv) (q : UInt64 → ℝ) (cl : ℝ) (lam : List ℝ) (x : Nat → Nat → ℝ)
    (hcl : ∀ c u, u ∈ h.row c → |1 / 2 * x u c| ≤ cl) :
    (BPRef.floodIter (A := TA q cl) h lam (emOf h x)).map (fun r => (r.1, r.2.1)) =
      some (emOf h (fun v c => totLlr h lam (chkMsg h x) v - chkMsg h x c v),
            (List.range h.ncols).map (totLlr h lam (chkMsg h x))) := by
  have := floodIter_of (A := TA q cl) h lam (emOf h x)
    (fun c => (h.row c).map (fun v => (v, x v c)))
    (fun c => (h.row c).map (fun v => (v, chkMsg h x c v)))
    (fun v => (h.col v).map (fun c => (c, chkMsg h x c v)))
    (fun v => (totLlr h lam (chkMsg h x) v,
            (h.col v).map (fun c => (c, totLlr h lam (chkMsg h x) v - chkMsg h x c v))))
    (fun c _ => checkIncoming_emOf h hinv x c)
    (fun c _ => checkRule_TA q cl (h.row c) (fun u => x u c) (fun u hu => hcl c u hu))
    (fun v _ => varIncoming_chOf h hinv (chkMsg h x) v)
    (fun v _ => congrArg some (varRule_col h lam (chkMsg h x) v))
  exact this

/-- the flooding run of the tanh arithmetic computes `X`, `L` while no message is clamped -/
theorem floodRunA_TA (h : SM) (hinv : h.Inv) (q : UInt64 → ℝ) (cl : ℝ) (lam : List ℝ) (hl : lam.length = h.ncols)
    (t : Nat) (hcl : ∀ s, s < t → ∀ c u, u ∈ h.row c → |1 / 2 * X h lam s u c| ≤ cl) :
    Ideal.floodRunA (TA q cl) h lam t = some (emOf h (X h lam t), (List.range h.ncols).map (L h lam t)) := by
  induction t with
  | zero =>
    have h0 := floodRun_emOf h hinv lam hl 0
    exact h0
  | succ t ih =>
    refine (floodRunA_succ (TA q cl) h lam t).trans ?_
    rw [ih (fun s hs => hcl s (by omega))]
    have hX : X h lam (t + 1) = fun v c => totLlr h lam (chkMsg h (X h lam t)) v - chkMsg h (X h lam t) c v := by
      funext v c; rfl
    have hL : L h lam (t + 1) = totLlr h lam (chkMsg h (X h lam t)) := by funext v; rfl
    exact (floodIter_TA h hinv q cl lam (X h lam t) (hcl t (by omega))).trans (by rw [hX, hL])

/-! ### layered -/

theorem layerBy_TA (cl : ℝ) (R : List Nat) (vars : List ℝ) (μ e : Nat → ℝ) (hR : ∀ v ∈ R, v < vars.length)
    (he : ∀ v ∈ R, e v = vars.getD v 0 - μ v) (hcl : ∀ u ∈ R, |1 / 2 * e u| ≤ cl) :
    ArithF.layerBy Sc.real (ArithFloat.checkOf Sc.real cl .tanh) (R.map (fun v => (v, μ v))) vars =
      some (R.map (fun v => (v, nu R e v)), R.foldl (fun vs v => vs.set v (e v + nu R e v)) vars) := by
  have h1 : (R.map (fun v => (v, μ v))).mapM (fun m => (vars[m.1]?).map (fun q => (m.1, Sc.real.sub q m.2))) =
      some (R.map (fun v => (v, e v))) := by
    rw [mapM_option_some _ (fun m => (m.1, e m.1))]
    · simp [List.map_map]
    · intro x hx
      obtain ⟨v, hv, rfl⟩ := List.mem_map.1 hx
      have := hR v hv
      simp [this, he v hv]
  have h2 : (R.map (fun v => (v, e v))).mapM (fun x =>
      ((R.map (fun v => (v, nu R e v))).find? (fun o => o.1 == x.1)).map (fun o => (x.1, o.2))) =
      some (R.map (fun v => (v, nu R e v))) := by
    rw [mapM_option_some _ (fun m => (m.1, nu R e m.1))]
    · simp [List.map_map]
    · intro x hx
      obtain ⟨v, hv, rfl⟩ := List.mem_map.1 hx
      simp only [find?_map_pair R (nu R e) v hv, Option.map_some]
  have h3 : ArithFloat.checkOf Sc.real cl .tanh (R.map (fun v => (v, e v))) =
      some (R.map (fun v => (v, nu R e v))) := checkRule_TA (fun _ => 0) cl R e hcl
  unfold ArithF.layerBy
  simp only [h1, Option.bind_eq_bind, Option.bind_some, h3, h2, Option.pure_def]
  rw [List.zip_map', List.foldl_map]
  rfl

/-- one call of the layered rule of the tanh arithmetic on check `c` = the ideal one, when no extrinsic value of the
row is clamped -/
theorem layerRule_TA (h : SM) (hinv : h.Inv) (q : UInt64 → ℝ) (cl : ℝ) (lam : List ℝ) (m : Nat → Nat → ℝ) (c : Nat)
    (hcl : ∀ u ∈ h.row c, |1 / 2 * (totLlr h lam m u - m c u)| ≤ cl) :
    (TA q cl).layerRule ((h.row c).map (fun v => (v, m c v))) ((List.range h.ncols).map (totLlr h lam m)) =
      some ((h.row c).map (fun v => (v, stepL h lam m c c v)),
            (List.range h.ncols).map (totLlr h lam (stepL h lam m c))) := by
  have hR : ∀ v ∈ h.row c, v < ((List.range h.ncols).map (totLlr h lam m)).length := by
    intro v hv
    simpa using (hinv.1 c v hv).2.1
  have he : ∀ v ∈ h.row c, (fun u => totLlr h lam m u - m c u) v =
      ((List.range h.ncols).map (totLlr h lam m)).getD v 0 - m c v := by
    intro v hv
    have := (hinv.1 c v hv).2.1
    simp [this]
  have e1 := layerBy_TA cl (h.row c) _ (m c) (fun u => totLlr h lam m u - m c u) hR he hcl
  have e2 := layerBy_abs (h.row c) _ (m c) (fun u => totLlr h lam m u - m c u) hR he
  have e3 := layerBy_step h hinv lam m c
  exact e1.trans (e2.symm.trans e3)

theorem layerIter_TA_aux (h : SM) (hinv : h.Inv) (q : UInt64 → ℝ) (cl : ℝ) (lam : List ℝ)
    (hS : ∀ s c u, u ∈ h.row c → Bd h lam s u c ≤ 2 * cl) :
    ∀ (n k s : Nat) (m : Nat → Nat → ℝ) (rcv out : List (List (Nat × ℝ))) (vars vout : List ℝ),
    Bnd h lam s m →
    rcv = (List.range' k n).map (fun c => (h.row c).map (fun v => (v, m c v))) →
    vars = (List.range h.ncols).map (totLlr h lam m) →
    out = (List.range' k n).map (fun c => (h.row c).map
              (fun v => (v, ((List.range' k n).foldl (stepL h lam) m) c v))) →
    vout = (List.range h.ncols).map (totLlr h lam ((List.range' k n).foldl (stepL h lam) m)) →
    ∃ tr, BPRef.layerIter (A := TA q cl) k rcv vars = some (out, vout, tr) := by
  intro n
  induction n with
  | zero =>
    intro k s m rcv out vars vout _ h1 h2 h3 h4
    subst h1 h2 h3 h4
    exact ⟨[], rfl⟩
  | succ n ih =>
    intro k s m rcv out vars vout hB h1 h2 h3 h4
    have hk : k ∉ List.range' (k + 1) n := by
      intro hc
      have := (List.mem_range'_1.1 hc).1
      omega
    have hrest : (List.range' (k + 1) n).map (fun c => (h.row c).map (fun v => (v, m c v))) =
        (List.range' (k + 1) n).map (fun c => (h.row c).map (fun v => (v, stepL h lam m k c v))) := by
      apply List.map_congr_left
      intro c hc
      have : c ≠ k := by
        have := (List.mem_range'_1.1 hc).1
        omega
      simp only [stepL_ne h lam m k c _ this]
    obtain ⟨tr, htr⟩ := ih (k + 1) (s + 1) (stepL h lam m k) _ _ _ _ (Bnd_step hinv lam s m hB k) hrest rfl rfl rfl
    have hcl : ∀ u ∈ h.row k, |1 / 2 * (totLlr h lam m u - m k u)| ≤ cl := by
      intro u hu
      have b1 := ext_bound hinv lam s m hB u k (col_of_row hinv hu)
      have b2 := hS (s + 1) k u hu
      rw [abs_mul, abs_of_pos (by norm_num : (0 : ℝ) < 1 / 2)]
      linarith
    have key := layerIter_cons_some (A := TA q cl) k _ _ _ _ _ _ _ _ (layerRule_TA h hinv q cl lam m k hcl) htr
    have h1' : rcv = (h.row k).map (fun v => (v, m k v)) ::
        (List.range' (k + 1) n).map (fun c => (h.row c).map (fun v => (v, m c v))) := by
      rw [h1, List.range'_succ, List.map_cons]
    have h3' : out = (h.row k).map (fun v => (v, stepL h lam m k k v)) ::
        (List.range' (k + 1) n).map (fun c => (h.row c).map
              (fun v => (v, ((List.range' (k + 1) n).foldl (stepL h lam) (stepL h lam m k)) c v))) := by
      rw [h3, List.range'_succ, List.map_cons, List.foldl_cons]
      congr 1
      apply List.map_congr_left
      intro v _
      rw [foldl_stepL_not_mem h lam _ _ k v hk]
    have h4' : vout = (List.range h.ncols).map
        (totLlr h lam ((List.range' (k + 1) n).foldl (stepL h lam) (stepL h lam m k))) := by
      rw [h4, List.range'_succ, List.foldl_cons]
    subst h1' h2 h3' h4'
    exact ⟨_, key⟩

/-- the layered run of the tanh arithmetic computes the table `mL` and its totals while no extrinsic value is
clamped, which the bound `hS` on the tree sums guarantees -/
theorem layerRunA_TA (h : SM) (hinv : h.Inv) (q : UInt64 → ℝ) (cl : ℝ) (lam : List ℝ) (hl : lam.length = h.ncols)
    (hS : ∀ s c u, u ∈ h.row c → Bd h lam s u c ≤ 2 * cl) (t : Nat) :
    Ideal.layerRunA (TA q cl) h lam t =
      some ((List.range h.nrows).map (fun c => (h.row c).map (fun v => (v, mL h lam t c v))),
            (List.range h.ncols).map (totLlr h lam (mL h lam t))) := by
  induction t with
  | zero =>
    have h0 := layerRun_eq h hinv lam hl 0
    rw [← layerRunA_ideal] at h0
    exact h0
  | succ t ih =>
    obtain ⟨tr, htr⟩ := layerIter_TA_aux h hinv q cl lam hS h.nrows 0 (t * h.nrows) (mL h lam t)
      ((List.range h.nrows).map (fun c => (h.row c).map (fun v => (v, mL h lam t c v))))
      ((List.range h.nrows).map (fun c => (h.row c).map (fun v => (v, mL h lam (t + 1) c v))))
      ((List.range h.ncols).map (totLlr h lam (mL h lam t)))
      ((List.range h.ncols).map (totLlr h lam (mL h lam (t + 1))))
      (Bnd_mL hinv lam t)
      (by rw [List.range_eq_range']) rfl
      (by simp only [mL, sweepL, List.range_eq_range'])
      (by simp only [mL, sweepL, List.range_eq_range'])
    refine (layerRunA_succ (TA q cl) h lam t).trans ?_
    rw [ih]
    exact congrArg (Option.map (fun r => (r.1, r.2.1))) htr

end LdpcV.CodeRule
