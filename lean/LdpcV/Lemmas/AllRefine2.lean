/- Helper lemmas (AllRefine2) for C10All: flooding refines the textbook schedule under `PanicOrBehaved`, panics included.
Generalises LdpcV/Lemmas/FloodRefine.lean (whose routing lemmas are reused unchanged). -/
import LdpcV.Lemmas.FloodRefine
namespace LdpcV
open BPRef

/-! ## aborting folds -/

theorem ar_foldlM_none {α σ : Type} (f : σ → α → Option σ) (x : α) (hx : ∀ a, f a x = none) (l : List α)
    (hm : x ∈ l) (a : σ) : l.foldlM f a = none := by
  induction l generalizing a with
  | nil => simp at hm
  | cons y l ih =>
    rw [List.foldlM_cons]
    cases hy : f a y with
    | none => rfl
    | some b =>
      rcases List.mem_cons.mp hm with rfl | hm'
      · rw [hx a] at hy; cases hy
      · exact ih hm' b

theorem ar_mapM_none {α β : Type} (f : α → Option β) (x : α) (hx : f x = none) (l : List α) (hm : x ∈ l) :
    l.mapM f = none := by
  induction l with
  | nil => simp at hm
  | cons y l ih =>
    rw [List.mapM_cons]
    cases hy : f y with
    | none => rfl
    | some b =>
      rcases List.mem_cons.mp hm with rfl | hm'
      · rw [hx] at hy; cases hy
      · rw [ih hm']; rfl

section Passes
variable {A : Arith}

theorem ar_checkPass_none (st : FloodSt A) (c : Nat) (hc : c < st.varMsgs.length)
    (hr : A.checkRule (st.varMsgs.getD c []) = none) : Flood.checkPass st = none := by
  unfold Flood.checkPass
  rw [ar_foldlM_none _ c ?_ _ (List.mem_range.mpr hc)]
  · rfl
  · intro cm
    simp only [hr]
    rfl

theorem ar_varPass_none (st : FloodSt A) (v : Nat) (hv : v < st.checkMsgs.length)
    (hr : A.varRule (st.input.getD v A.dLlr) (st.checkMsgs.getD v []) = none) : Flood.varPass st = none := by
  unfold Flood.varPass
  rw [ar_foldlM_none _ v ?_ _ (List.mem_range.mpr hv)]
  · rfl
  · intro acc
    simp only [hr]
    rfl

theorem ar_floodIter_check_none (h : SM) (input : List A.Llr) (em : List (List (Nat × A.VarMsg))) (c : Nat)
    (hc : c < h.nrows) (inc : List (Nat × A.VarMsg)) (h1 : checkIncoming h em c = some inc)
    (h2 : A.checkRule inc = none) : floodIter h input em = none := by
  unfold floodIter
  rw [ar_mapM_none _ c ?_ _ (List.mem_range.mpr hc)]
  · rfl
  · simp only [h1, Option.bind_eq_bind, Option.bind_some, h2]
    rfl

theorem ar_floodIter_var_none (h : SM) (input : List A.Llr) (em : List (List (Nat × A.VarMsg)))
    (cinc : Nat → List (Nat × A.VarMsg)) (cout : Nat → List (Nat × A.CheckMsg))
    (hc1 : ∀ c, c < h.nrows → checkIncoming h em c = some (cinc c))
    (hc2 : ∀ c, c < h.nrows → A.checkRule (cinc c) = some (cout c))
    (v : Nat) (hv : v < h.ncols) (inc : List (Nat × A.CheckMsg))
    (hv1 : varIncoming h ((List.range h.nrows).map cout) v = some inc)
    (hv2 : A.varRule (input.getD v A.dLlr) inc = none) : floodIter h input em = none := by
  have hchecks : (List.range h.nrows).mapM (fun c => do
        let inc ← checkIncoming h em c
        let out ← A.checkRule inc
        pure (inc, out)) = some ((List.range h.nrows).map (fun c => (cinc c, cout c))) := by
    apply fr_mapM_some
    intro c hc
    rw [hc1 c (List.mem_range.mp hc)]
    simp only [Option.bind_eq_bind, Option.bind_some]
    rw [hc2 c (List.mem_range.mp hc)]
    rfl
  unfold floodIter
  rw [hchecks]
  simp only [Option.bind_eq_bind, Option.bind_some, List.map_map, Function.comp_def]
  rw [ar_mapM_none _ v ?_ _ (List.mem_range.mpr hv)]
  · rfl
  · simp only [hv1, Option.bind_some, hv2]
    rfl

end Passes

/-! ## one iteration -/

section Step
variable {A : Arith}

/-- the model state `st` represents the reference state `(em, llrs)` (no invariant on the values) -/
structure FloodRelP (h : SM) (input : List A.Llr) (st : FloodSt A)
    (em : List (List (Nat × A.VarMsg))) (llrs : List A.Llr) : Prop where
  input_eq : st.input = input
  output_eq : st.output = llrs
  llrs_len : llrs.length = h.ncols
  vm : st.varMsgs.Rep h.rows (fun c v => (sentTo (em.getD v []) c).getD A.dVar)
  cm : st.checkMsgs.HasShape h.cols
  em_perm : ∀ v, v < h.ncols → ((em.getD v []).map Prod.fst).Perm (h.col v)

theorem ar_all_or_none {β : Type} (k : Nat) (f : Nat → Option β) :
    (∀ c, c < k → ∃ y, f c = some y) ∨ ∃ c, c < k ∧ f c = none := by
  by_cases hall : ∀ c, c < k → ∃ y, f c = some y
  · exact Or.inl hall
  · right
    apply Classical.byContradiction
    intro hne
    apply hall
    intro c hc
    cases hf : f c with
    | none => exact absurd ⟨c, hc, hf⟩ hne
    | some y => exact ⟨y, rfl⟩

/-- one iteration of model and reference from related states: both succeed and stay related, or both abort -/
theorem ar_step (h : SM) (hinv : h.Inv) (pb : PanicOrBehaved A h) (input : List A.Llr)
    (st : FloodSt A) (em : List (List (Nat × A.VarMsg))) (llrs : List A.Llr)
    (R : FloodRelP h input st em llrs) :
    (∃ st1 st2 em' llrs' t, Flood.checkPass st = some st1 ∧ Flood.varPass st1 = some st2 ∧
      floodIter h input em = some (em', llrs', t) ∧ FloodRelP h input st2 em' llrs') ∨
    (floodIter h input em = none ∧
      (Flood.checkPass st = none ∨ ∃ st1, Flood.checkPass st = some st1 ∧ Flood.varPass st1 = none)) := by
  -- check nodes
  have hcinc : ∀ c, st.varMsgs.getD c [] = (h.row c).map (fun v => (v, (sentTo (em.getD v []) c).getD A.dVar)) :=
    fun c => fr_rep_getD R.vm c
  have hc1 : ∀ c, c < h.nrows → checkIncoming h em c = some (st.varMsgs.getD c []) := by
    intro c _
    rw [hcinc c]
    exact (fr_incoming_rows A.dVar h hinv em R.em_perm c).1
  have hcfst : ∀ c, (st.varMsgs.getD c []).map Prod.fst = h.row c := by
    intro c
    rw [hcinc c]
    simp [List.map_map, Function.comp_def]
  have hvml : st.varMsgs.length = h.nrows := (fr_rep_length R.vm).trans rfl
  rcases ar_all_or_none h.nrows (fun c => A.checkRule (st.varMsgs.getD c [])) with hcall | ⟨c, hc, hnone⟩
  case inr =>
    right
    exact ⟨ar_floodIter_check_none h input em c hc _ (hc1 c hc) hnone,
      Or.inl (ar_checkPass_none st c (hvml ▸ hc) hnone)⟩
  have hcrule : ∀ c, c < h.nrows → ∃ out, A.checkRule (st.varMsgs.getD c []) = some out ∧
      (out.map Prod.fst).Perm (h.row c) := by
    intro c hc
    obtain ⟨out, h1⟩ := hcall c hc
    have h2 := pb.check_ok c hc _ (hcfst c) out h1
    exact ⟨out, h1, hcfst c ▸ h2⟩
  let cout : Nat → List (Nat × A.CheckMsg) := fun c => (A.checkRule (st.varMsgs.getD c [])).getD []
  have hc2 : ∀ c, c < h.nrows → A.checkRule (st.varMsgs.getD c []) = some (cout c) := by
    intro c hc
    obtain ⟨out, h1, _⟩ := hcrule c hc
    simp only [cout, h1, Option.getD_some]
  have hcperm : ∀ c, c < h.nrows → ((cout c).map Prod.fst).Perm (h.row c) := by
    intro c hc
    obtain ⟨out, h1, h2⟩ := hcrule c hc
    simpa only [cout, h1, Option.getD_some] using h2
  obtain ⟨cm', hcp, hcrep⟩ := fr_checkPass h hinv st hvml R.cm cout hc2 hcperm
  -- variable nodes
  have hCE : ∀ c, c < h.nrows → ((List.range h.nrows).map cout).getD c [] = cout c :=
    fun c hc => fr_getD_map_range cout h.nrows c hc []
  have hCEperm : ∀ c, c < h.nrows → ((((List.range h.nrows).map cout).getD c []).map Prod.fst).Perm (h.row c) := by
    intro c hc
    rw [hCE c hc]
    exact hcperm c hc
  have hvinc : ∀ v, cm'.getD v [] =
      (h.col v).map (fun c => (c, (sentTo (((List.range h.nrows).map cout).getD c []) v).getD A.dCheck)) := by
    intro v
    rw [fr_rep_getD hcrep v]
    apply List.map_congr_left
    intro c hc
    rw [hCE c (hinv.2.1 c v hc).1]
  have hv1 : ∀ v, v < h.ncols → varIncoming h ((List.range h.nrows).map cout) v = some (cm'.getD v []) := by
    intro v _
    rw [hvinc v]
    exact (fr_incoming_cols A.dCheck h hinv _ hCEperm v).1
  have hvfst : ∀ v, (cm'.getD v []).map Prod.fst = h.col v := by
    intro v
    rw [hvinc v]
    simp [List.map_map, Function.comp_def]
  have hcml : cm'.length = h.ncols := (fr_rep_length hcrep).trans rfl
  rcases ar_all_or_none h.ncols (fun v => A.varRule (input.getD v A.dLlr) (cm'.getD v [])) with hvall | ⟨v, hv, hnone⟩
  case inr =>
    right
    refine ⟨ar_floodIter_var_none h input em (fun c => st.varMsgs.getD c []) cout hc1 hc2 v hv _ (hv1 v hv) hnone,
      Or.inr ⟨_, hcp, ?_⟩⟩
    apply ar_varPass_none { st with checkMsgs := cm' } v (by simpa only [hcml] using hv)
    simpa only [R.input_eq] using hnone
  have hvrule : ∀ v, v < h.ncols → ∃ r, A.varRule (input.getD v A.dLlr) (cm'.getD v []) = some r ∧
      (r.2.map Prod.fst).Perm (h.col v) := by
    intro v hv
    obtain ⟨⟨l, out⟩, h1⟩ := hvall v hv
    have h2 := pb.var_ok v hv _ _ (hvfst v) l out h1
    exact ⟨(l, out), h1, hvfst v ▸ h2⟩
  let vres : Nat → A.Llr × List (Nat × A.VarMsg) :=
    fun v => (A.varRule (input.getD v A.dLlr) (cm'.getD v [])).getD (A.dLlr, [])
  have hv2 : ∀ v, v < h.ncols → A.varRule (input.getD v A.dLlr) (cm'.getD v []) = some (vres v) := by
    intro v hv
    obtain ⟨r, h1, _⟩ := hvrule v hv
    simp only [vres, h1, Option.getD_some]
  have hvperm : ∀ v, v < h.ncols → (((vres v).2).map Prod.fst).Perm (h.col v) := by
    intro v hv
    obtain ⟨r, h1, h2⟩ := hvrule v hv
    simpa only [vres, h1, Option.getD_some] using h2
  obtain ⟨vm', hvp, hvrep⟩ := fr_varPass h hinv { st with checkMsgs := cm' }
    hcml (fr_rep_shape R.vm) vres
    (fun v hv => by simpa only [R.input_eq] using hv2 v hv) hvperm
  obtain ⟨t, hiter⟩ := fr_floodIter h input em (fun c => st.varMsgs.getD c []) cout
    (fun v => cm'.getD v []) vres hc1 hc2 hv1 hv2
  have hEM : ∀ v, v < h.ncols → ((List.range h.ncols).map (fun v => (vres v).2)).getD v [] = (vres v).2 :=
    fun v hv => fr_getD_map_range (fun v => (vres v).2) h.ncols v hv []
  left
  refine ⟨_, _, _, _, t, hcp, hvp, hiter, ?_⟩
  refine ⟨R.input_eq, rfl, by simp, ?_, fr_rep_shape hcrep, ?_⟩
  · apply fr_rep_congr hvrep
    intro c l hl v hv
    rw [(fr_rows_get h c l hl).1] at hv
    rw [hEM v (hinv.1 c v hv).2.1]
  · intro v hv
    rw [hEM v hv]
    exact hvperm v hv

end Step

/-! ## initialisation, the loop, and `decode` -/

section Decode
variable {A : Arith}

theorem ar_init (h : SM) (hinv : h.Inv) (st : FloodSt A) (hs : Flood.Shape h st)
    (llrs : List UInt64) (hlen : llrs.length = h.ncols) :
    ∃ st0, Flood.initSt h st llrs = some st0 ∧
      FloodRelP h (llrs.map A.quantize) st0 (initEmitted h (llrs.map A.quantize)) (llrs.map A.quantize) := by
  have hilen : (llrs.map A.quantize).length = h.ncols := by simp [hlen]
  let emf : Nat → List (Nat × A.VarMsg) :=
    fun v => (h.col v).map (fun c => (c, A.toVarMsg ((llrs.map A.quantize).getD v A.dLlr)))
  have hfst : ∀ v, (emf v).map Prod.fst = h.col v := by
    intro v
    simp [emf, List.map_map, Function.comp_def]
  obtain ⟨f, hf⟩ := fr_rep_exists A.dVar st.varMsgs h.rows hs.varMsgs (fr_rows_nodup hinv)
  obtain ⟨vm', hfold, hrep⟩ := fr_pass_rows A.dVar h hinv emf (fun v _ => by rw [hfst v]) hf
  have hEM : ∀ v, v < h.ncols → (initEmitted h (llrs.map A.quantize)).getD v [] = emf v := by
    intro v hv
    unfold initEmitted
    rw [hilen]
    exact fr_getD_map_range emf h.ncols v hv []
  refine ⟨{ st with input := llrs.map A.quantize, output := llrs.map A.quantize, varMsgs := vm' }, ?_, ?_⟩
  · unfold Flood.initSt
    simp only [hilen]
    rw [hfold]
    rfl
  · refine ⟨rfl, rfl, hilen, ?_, hs.checkMsgs, ?_⟩
    · apply fr_rep_congr hrep
      intro c l hl v hv
      rw [(fr_rows_get h c l hl).1] at hv
      rw [hEM v (hinv.1 c v hv).2.1]
    · intro v hv
      rw [hEM v hv, hfst v]

theorem ar_loop (h : SM) (hinv : h.Inv) (pb : PanicOrBehaved A h) (input : List A.Llr) (n rem : Nat)
    (st : FloodSt A) (em : List (List (Nat × A.VarMsg))) (llrs : List A.Llr) (tr : List (Call A))
    (R : FloodRelP h input st em llrs) :
    (Flood.loop h n rem st).map Prod.fst = (floodLoop h input n rem em llrs tr).map Prod.fst := by
  induction rem generalizing st em llrs tr with
  | zero => simp [Flood.loop, floodLoop, Flood.hardAll, R.output_eq]
  | succ rem ih =>
    rcases ar_step h hinv pb input st em llrs R with
      ⟨st1, st2, em', llrs', t, h1, h2, h3, R'⟩ | ⟨h3, h1 | ⟨st1, h1, h2⟩⟩
    · unfold Flood.loop floodLoop
      rw [h1, h3]
      simp only
      rw [h2]
      simp only [Flood.hardAll, R'.output_eq]
      by_cases hsyn : syndromeOK h (llrs'.map A.hard) = true
      · simp only [hsyn, if_true, Option.map_some]
      · simp only [hsyn]
        exact ih st2 em' llrs' (tr ++ t) R'
    · unfold Flood.loop floodLoop
      rw [h1, h3]
      rfl
    · unfold Flood.loop floodLoop
      rw [h1, h3]
      simp only
      rw [h2]
      rfl

/-- flooding refines the textbook schedule from any incoming state under the weakest contract — also on panics -/
theorem ar_flood_refines_any (h : SM) (hinv : h.Inv) (pb : PanicOrBehaved A h) (st : FloodSt A)
    (hs : Flood.Shape h st) (llrs : List UInt64) (hlen : llrs.length = h.ncols) (n : Nat) :
    (Flood.decode h st llrs n).map Prod.fst = floodRef A h llrs n := by
  unfold Flood.decode floodRef floodRefTraced
  have h1 : ¬ llrs.length ≠ st.input.length := by rw [hs.input, hlen]; simp
  have h2 : ¬ llrs.length ≠ h.ncols := by simp [hlen]
  rw [if_neg h1, if_neg h2]
  by_cases hsyn : syndromeOK h (llrs.map f64LeZero) = true
  · simp only [hsyn, if_true, Option.map_some]
  · simp only [hsyn]
    obtain ⟨st0, hi, R⟩ := ar_init h hinv st hs llrs hlen
    rw [hi]
    simp only
    exact ar_loop h hinv pb (llrs.map A.quantize) n n st0 _ _ [] R

end Decode

end LdpcV
