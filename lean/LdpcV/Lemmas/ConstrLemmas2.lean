/- Helper lemmas for C16, part 2: MacKay–Neal — termination measure, girth invariant, balance invariant. -/
import LdpcV.Lemmas.ConstrLemmas1
namespace LdpcV.Constr
open LdpcV LdpcV.SM LdpcV.Graph

/-! ### termination measure -/

def potential (cfg : MnCfg) (st : MnSt) : Nat :=
  (cfg.ncols + 1) * st.backtrackTrials + st.girthTrials + (cfg.ncols - st.col)

theorem potential_step {cfg : MnCfg} {st st' : MnSt} {rows : List Nat}
    (hlt : st.col < cfg.ncols) (hs : MnStepOk cfg st rows st') : potential cfg st' + 1 ≤ potential cfg st := by
  cases hs with
  | backtrack hav hb =>
    simp only [potential]
    obtain ⟨b, hb'⟩ : ∃ b, st.backtrackTrials = b + 1 := ⟨st.backtrackTrials - 1, by omega⟩
    rw [hb', Nat.add_sub_cancel, Nat.mul_succ]
    omega
  | reject h' hadm hins hts hg =>
    simp only [potential]
    omega
  | accept h' hadm hins hts =>
    simp only [potential]
    omega

/-- the run reads at most `potential` selections: its result is already determined by a prefix of
that length (the whole list for a successful run) -/
theorem mnRun_prefix (cfg : MnCfg) (sels : List (List Nat)) (st : MnSt) (r : Except MnErr SM)
    (hI : MnInv cfg st) (hr : mnRun cfg st sels = some r) :
    ∃ k, k ≤ potential cfg st ∧ k ≤ sels.length ∧ mnRun cfg st (sels.take k) = some r ∧
      (∀ H, r = .ok H → k = sels.length) := by
  induction sels generalizing st with
  | nil => exact ⟨0, Nat.zero_le _, Nat.le_refl _, hr, fun _ _ => rfl⟩
  | cons rows rest ih =>
    unfold mnRun at hr
    split at hr
    · simp at hr
    · next hlt =>
      have hlt' : st.col < cfg.ncols := by have := hI.ncols; omega
      have hpos : 1 ≤ potential cfg st := by simp only [potential]; omega
      simp only at hr
      split at hr
      · cases hr
      · next e hs =>
        refine ⟨1, hpos, by simp, ?_, ?_⟩
        · simp only [List.take_succ_cons, List.take_zero]
          unfold mnRun
          rw [if_neg hlt]
          simp only [hs]
          exact hr
        · intro H hH
          simp only [Option.some.injEq] at hr
          rw [← hr] at hH
          cases hH
      · next st' hs =>
        have hso := mnStep_ok hs
        obtain ⟨k, k1, k2, k3, k4⟩ := ih st' (hI.step hlt' hso) hr
        have := potential_step hlt' hso
        refine ⟨k + 1, by omega, by simp; omega, ?_, ?_⟩
        · simp only [List.take_succ_cons]
          unfold mnRun
          rw [if_neg hlt]
          simp only [hs]
          exact k3
        · intro H hH
          simp [k4 H hH]

theorem potential_init_le (cfg : MnCfg) :
    potential cfg (mnInit cfg) ≤ (cfg.ncols + 1) * (cfg.backtrackTrials + 1) + cfg.girthTrials + 1 := by
  simp only [potential, mnInit, Nat.mul_succ]
  omega

/-! ### cycles under a change of the matrix -/

theorem getD_mem_of_lt {α : Type} (c : List α) (i : Nat) (d : α) (hi : i < c.length) : c.getD i d ∈ c := by
  rw [List.getD_eq_getElem?_getD, List.getElem?_eq_getElem hi]
  exact List.getElem_mem hi

theorem isCycle_mono {h1 h2 : SM} {c : List Node} (hc : IsCycle h1 c)
    (hadj : ∀ a b, a ∈ c → b ∈ c → Adj h1 a b → Adj h2 a b) : IsCycle h2 c := by
  refine ⟨hc.1, hc.2.1, fun i hi => ?_⟩
  have hpos : 0 < c.length := by omega
  exact hadj _ _ (getD_mem_of_lt c i _ hi) (getD_mem_of_lt c _ _ (Nat.mod_lt _ hpos)) (hc.2.2 i hi)

theorem adj_mono {h1 h2 : SM} (P : Node → Prop)
    (hm : ∀ r x, P (.row r) → P (.col x) → x ∈ h1.row r → x ∈ h2.row r) :
    ∀ a b, P a → P b → Adj h1 a b → Adj h2 a b := by
  intro a b ha hb hab
  cases a <;> cases b <;> simp only [Adj, mem_iff] at hab ⊢
  · exact hm _ _ ha hb hab
  · exact hm _ _ hb ha hab

/-! ### girth invariant -/

def GirthOk (cfg : MnCfg) (st : MnSt) : Prop :=
  ∀ g, cfg.minGirth = some g → ∀ c, IsCycle st.h c → g ≤ c.length

theorem girthOk_init (cfg : MnCfg) : GirthOk cfg (mnInit cfg) := by
  intro g _ c hc
  exfalso
  have := hc.2.2 0 (by have := hc.1; omega)
  generalize c.getD 0 (.row 0) = a at this
  generalize c.getD ((0 + 1) % c.length) (.row 0) = b at this
  cases a <;> cases b <;> simp [Adj, mnInit, new_mem, PosSet.empty] at this

theorem tooSmall_false {cfg : MnCfg} {h' : SM} {col g : Nat} (hinv : h'.Inv) (hcol : col < h'.ncols)
    (hg : cfg.minGirth = some g) (hts : tooSmall cfg h' col = false) :
    ∀ c, IsCycle h' c → Node.col col ∈ c → g ≤ c.length := by
  intro c hc hmem
  have hr : Graph.inRange h' (.col col) = true := by simpa [Graph.inRange] using hcol
  simp only [tooSmall, hg] at hts
  rw [C11.local_girth_bounded h' hinv _ hr] at hts
  obtain ⟨r, h1, h2, h3⟩ := C11.local_girth_exact h' hinv (.col col) hr
  rw [h1] at hts
  cases r with
  | none => exact ((h3.1 rfl) c hc hmem).elim
  | some v =>
    have hv := ((h2 v).1 rfl).2 c hc hmem
    simp only [Option.map_some, Option.getD_some, cutAt] at hts
    split at hts
    · simp at hts
    · omega

theorem GirthOk.step {cfg : MnCfg} {st st' : MnSt} {rows : List Nat} (hI : MnInv cfg st)
    (hlt : st.col < cfg.ncols) (hG : GirthOk cfg st) (hs : MnStepOk cfg st rows st') : GirthOk cfg st' := by
  intro g hg c hc
  cases hs with
  | backtrack hav hb =>
    obtain ⟨_, _, _, _, a5⟩ := clearCols_spec st.h hI.inv (st.col - min st.col cfg.backtrackCols) st.col
    refine hG g hg c (isCycle_mono hc (fun a b _ _ => adj_mono (fun _ => True) ?_ a b trivial trivial))
    intro r x _ _ hx
    simp only at hx
    rw [a5 r] at hx
    exact (List.mem_filter.1 hx).1
  | reject h' hadm hins hts hg' =>
    obtain ⟨b1, _, _, _, b5⟩ := hI.insert_facts hadm hins
    refine hG g hg c (isCycle_mono hc (fun a b _ _ => adj_mono (fun _ => True) ?_ a b trivial trivial))
    intro r x _ _ hx
    simp only at hx
    rw [row_clearColRaw_inv h' b1, b5 r, List.mem_filter] at hx
    obtain ⟨hx1, hx2⟩ := hx
    simp only [bne_iff_ne, ne_eq] at hx2
    split at hx1
    · simpa [hx2] using hx1
    · exact hx1
  | accept h' hadm hins hts =>
    obtain ⟨b1, _, b3, _, b5⟩ := hI.insert_facts hadm hins
    simp only at hc
    by_cases hmem : Node.col st.col ∈ c
    · exact tooSmall_false b1 (by omega) hg hts c hc hmem
    · refine hG g hg c (isCycle_mono hc (fun a b ha hb => adj_mono (fun n => n ≠ Node.col st.col) ?_ a b ?_ ?_))
      · intro r x _ hx1 hx
        rw [b5 r] at hx
        split at hx
        · rw [List.mem_append, List.mem_singleton] at hx
          rcases hx with hx | hx
          · exact hx
          · subst hx; exact (hx1 rfl).elim
        · exact hx
      · rintro rfl; exact hmem ha
      · rintro rfl; exact hmem hb

/-! ### balance invariant (uniform policy) -/

/-- the matrix restricted to its first `k` columns has row weights differing by at most one, for every `k ≤ col` -/
def Balanced (cfg : MnCfg) (st : MnSt) : Prop :=
  ∀ k, k ≤ st.col → ∀ r r', r < cfg.nrows → r' < cfg.nrows →
    ((st.h.row r).filter (· < k)).length ≤ ((st.h.row r').filter (· < k)).length + 1

theorem balanced_init (cfg : MnCfg) : Balanced cfg (mnInit cfg) := by
  intro k _ r r' _ _
  simp [mnInit, new_row]

theorem MnInv.row_lt {cfg : MnCfg} {st : MnSt} (hI : MnInv cfg st) {r x : Nat} (hx : x ∈ st.h.row r) :
    x < st.col := by
  apply Nat.lt_of_not_le
  intro hle
  have := (hI.inv.1 r x hx).2.2
  rw [hI.empty x hle] at this
  cases this

theorem MnInv.filter_col {cfg : MnCfg} {st : MnSt} (hI : MnInv cfg st) (r : Nat) :
    (st.h.row r).filter (· < st.col) = st.h.row r := by
  rw [List.filter_eq_self]
  intro x hx
  simpa using hI.row_lt hx

theorem Balanced.step {cfg : MnCfg} {st st' : MnSt} {rows : List Nat} (hI : MnInv cfg st)
    (hp : cfg.policy = .uniform) (hB : Balanced cfg st) (hs : MnStepOk cfg st rows st') : Balanced cfg st' := by
  cases hs with
  | backtrack hav hb =>
    obtain ⟨_, _, _, _, a5⟩ := clearCols_spec st.h hI.inv (st.col - min st.col cfg.backtrackCols) st.col
    intro k hk r r' hr hr'
    simp only at hk ⊢
    have e : ∀ j, ((clearCols st.h (st.col - min st.col cfg.backtrackCols) st.col).row j).filter (· < k) =
        (st.h.row j).filter (· < k) := by
      intro j
      rw [a5 j, List.filter_filter]
      apply List.filter_congr
      intro x _
      by_cases hxk : x < k
      · have : ¬ (st.col - min st.col cfg.backtrackCols ≤ x) := by omega
        simp [hxk, this]
      · simp [hxk]
    rw [e r, e r']
    exact hB k (by omega) r r' hr hr'
  | reject h' hadm hins hts hg =>
    obtain ⟨b1, _, _, _, b5⟩ := hI.insert_facts hadm hins
    intro k hk r r' hr hr'
    simp only at hk ⊢
    have e : ∀ j, ((h'.clearColRaw st.col).row j).filter (· < k) = (st.h.row j).filter (· < k) := by
      intro j
      rw [row_clearColRaw_inv h' b1, b5 j, List.filter_filter]
      have hc : ∀ l : List Nat, l.filter (fun a => decide (a < k) && (a != st.col)) = l.filter (· < k) := by
        intro l
        apply List.filter_congr
        intro x _
        by_cases hxk : x < k
        · have : x ≠ st.col := by omega
          simp [hxk, this]
        · simp [hxk]
      split
      · rw [List.filter_append, hc]
        simp
      · exact hc _
    rw [e r, e r']
    exact hB k hk r r' hr hr'
  | accept h' hadm hins hts =>
    obtain ⟨b1, _, _, _, b5⟩ := hI.insert_facts hadm hins
    rw [admissibleRows_iff] at hadm
    obtain ⟨_, _, hav, hun⟩ := hadm
    have hun := hun hp
    intro k hk r r' hr hr'
    simp only at hk ⊢
    by_cases hk' : k ≤ st.col
    · have e : ∀ j, (h'.row j).filter (· < k) = (st.h.row j).filter (· < k) := by
        intro j
        rw [b5 j]
        split
        · rw [List.filter_append]
          have : ¬ st.col < k := by omega
          simp [this]
        · rfl
      rw [e r, e r']
      exact hB k hk' r r' hr hr'
    · have hk'' : k = st.col + 1 := by omega
      subst hk''
      have e : ∀ j, ((h'.row j).filter (· < st.col + 1)).length =
          (st.h.row j).length + if j ∈ rows then 1 else 0 := by
        intro j
        have : (h'.row j).filter (· < st.col + 1) = h'.row j := by
          rw [List.filter_eq_self]
          intro x hx
          rw [b5 j] at hx
          have : x ∈ st.h.row j ∨ x = st.col := by
            split at hx
            · simpa using hx
            · exact Or.inl hx
          rcases this with hx | hx
          · have := hI.row_lt hx
            simp; omega
          · simp [hx]
        rw [this, b5 j]
        split <;> simp
      rw [e r, e r']
      have hb := hB st.col (Nat.le_refl _) r r' hr hr'
      rw [hI.filter_col, hI.filter_col] at hb
      have hwr' := hI.wr r'
      by_cases h1 : r ∈ rows
      · by_cases h2 : r' ∈ rows
        · simp only [h1, h2, if_true]; omega
        · simp only [h1, h2, if_true, if_false]
          have hra := (hav r h1).2
          by_cases h3 : (st.h.row r').length < cfg.wr
          · rcases hun r h1 r' (by rw [hI.nrows]; exact hr') h3 with h4 | h4
            · exact (h2 h4).elim
            · omega
          · omega
      · simp only [h1, if_false]
        split <;> omega

end LdpcV.Constr
