/-
Helper development for C03Tree, part 4: the sum of the local factors of a computation tree over the variables strictly
below its root variable is the partition function `Zv` — provided no variable occurs twice in the tree.
-/
import LdpcV.Lemmas.TreeBP2
import LdpcV.Lemmas.TreeBP3
namespace LdpcV.TreeBP
open LdpcV

/-! ### list bookkeeping -/

theorem perm_flatMap_cons (K : List Nat) (D : Nat → List Nat) :
    (K.flatMap (fun x => x :: D x)).Perm (K ++ K.flatMap D) := by
  induction K with
  | nil => simp
  | cons x K ih =>
    simp only [List.flatMap_cons, List.cons_append]
    apply List.Perm.cons
    have h1 : (D x ++ K.flatMap (fun x => x :: D x)).Perm (D x ++ (K ++ K.flatMap D)) := ih.append_left _
    have h2 : (D x ++ (K ++ K.flatMap D)).Perm (K ++ (D x ++ K.flatMap D)) := by
      rw [← List.append_assoc, ← List.append_assoc]
      exact List.perm_append_comm.append_right _
    exact h1.trans h2

theorem mem_Dv_succ (h : SM) (s u c x : Nat) :
    x ∈ Dv h (s + 1) u c ↔ ∃ c' ∈ oth (h.col u) c, ∃ u' ∈ oth (h.row c') u, x = u' ∨ x ∈ Dv h s u' c' := by
  simp [Dv, List.mem_flatMap]

theorem Dv_succ (h : SM) (s u c : Nat) : Dv h (s + 1) u c =
    (oth (h.col u) c).flatMap (fun c' => (oth (h.row c') u).flatMap (fun u' => u' :: Dv h s u' c')) := rfl

theorem Fv_succ (h : SM) (lam : List ℝ) (s u c : Nat) (a : Nat → Bool) : Fv h lam (s + 1) u c a =
    W lam u (a u) * ((oth (h.col u) c).map (fun c' => ind (!xr a (h.row c')) *
      ((oth (h.row c') u).map (fun u' => Fv h lam s u' c' a)).prod)).prod := rfl

/-! ### the local factor of a tree depends only on the variables of the tree -/

theorem Fv_dep (h : SM) (lam : List ℝ) (s u c : Nat) : DepOn (Fv h lam s u c) (u :: Dv h s u c) := by
  induction s generalizing u c with
  | zero =>
    intro a a' haa
    simp only [Fv]
    rw [haa u (by simp)]
  | succ s ih =>
    intro a a' haa
    rw [Fv_succ, Fv_succ, haa u (by simp)]
    congr 2
    apply List.map_congr_left
    intro c' hc'
    have hx : xr a (h.row c') = xr a' (h.row c') := by
      apply xr_congr
      intro x hx
      by_cases hxu : x = u
      · subst hxu; exact haa x (by simp)
      · apply haa
        rw [List.mem_cons]; right
        rw [mem_Dv_succ]
        exact ⟨c', hc', x, mem_oth.2 ⟨hx, hxu⟩, Or.inl rfl⟩
    rw [hx]
    congr 2
    apply List.map_congr_left
    intro u' hu'
    apply ih
    intro x hx
    apply haa
    rw [List.mem_cons]; right
    rw [mem_Dv_succ]
    refine ⟨c', hc', u', hu', ?_⟩
    simpa using hx

/-! ### one check: sum over its subtree -/

theorem check_sum (K : List Nat) (D : Nat → List Nat) (R : List Nat) (u : Nat) (G : Nat → (Nat → Bool) → ℝ)
    (z : Nat → Bool → ℝ) (hR : R.Perm (u :: K))
    (hN : (u :: K.flatMap (fun x => x :: D x)).Nodup)
    (hG : ∀ x ∈ K, DepOn (G x) (x :: D x))
    (hsum : ∀ x ∈ K, ∀ a, sumOver (D x) (G x) a = z x (a x)) (a : Nat → Bool) :
    sumOver (K.flatMap (fun x => x :: D x)) (fun a => ind (!xr a R) * (K.map (fun x => G x a)).prod) a =
      conv z K (a u) := by
  rw [List.nodup_cons] at hN
  obtain ⟨huB, hB⟩ := hN
  have hB' : (K ++ K.flatMap D).Nodup := (perm_flatMap_cons K D).nodup_iff.1 hB
  have huB' : u ∉ K ++ K.flatMap D := fun hm => huB ((perm_flatMap_cons K D).mem_iff.2 hm)
  obtain ⟨hKn, hDn, hKD⟩ := List.nodup_append.1 hB'
  have huK : u ∉ K := fun hm => huB' (List.mem_append_left _ hm)
  have huD : u ∉ K.flatMap D := fun hm => huB' (List.mem_append_right _ hm)
  obtain ⟨_, hpair⟩ := List.nodup_flatMap.1 hB
  rw [sumOver_perm (perm_flatMap_cons K D), sumOver_append]
  -- the inner sum, over the strict descendants of the children
  have inner : ∀ a1, sumOver (K.flatMap D) (fun a => ind (!xr a R) * (K.map (fun x => G x a)).prod) a1 =
      ind (!xr a1 R) * (K.map (fun x => z x (a1 x))).prod := by
    intro a1
    rw [sumOver_mul_left]
    · congr 1
      rw [sumOver_flatMap_prod K D (fun x => x :: D x) G hG]
      · apply congrArg
        apply List.map_congr_left
        intro x hx
        exact hsum x hx a1
      · apply hpair.imp_of_mem
        intro x y hx hy hxy
        constructor
        · intro w hw hwy
          exact hxy hw (List.mem_cons_of_mem _ hwy)
        · intro w hw hwx
          exact hxy (List.mem_cons_of_mem _ hwx) hw
    · intro a' ha'
      congr 2
      apply xr_congr
      intro w hw
      apply ha'
      have hw' := hR.mem_iff.1 hw
      rcases List.mem_cons.1 hw' with e | hwK
      · subst e; exact huD
      · exact fun hm => hKD w hwK w hm rfl
  have e1 : sumOver (K.flatMap D) (fun a => ind (!xr a R) * (K.map (fun x => G x a)).prod) =
      fun a1 => ind (!xr a1 R) * (K.map (fun x => z x (a1 x))).prod := funext inner
  rw [e1, ← sumOver_conv z K hKn (a u) a]
  apply sumOver_congr
  intro a' ha'
  have hu : a' u = a u := ha' u huK
  rw [xr_perm a' hR, xr_cons, hu]
  congr 2
  cases a u <;> cases xr a' K <;> rfl

/-! ### the whole tree -/

theorem tree_sum {h : SM} (hinv : h.Inv) (lam : List ℝ) (s u c : Nat) (hN : (u :: Dv h s u c).Nodup)
    (a : Nat → Bool) : sumOver (Dv h s u c) (Fv h lam s u c) a = Zv h lam s u c (a u) := by
  induction s generalizing u c a with
  | zero => simp [Dv, Fv, Zv, sumOver]
  | succ s ih =>
    rw [List.nodup_cons] at hN
    obtain ⟨huD, hD⟩ := hN
    rw [Dv_succ] at hD
    obtain ⟨hblocks, hpair⟩ := List.nodup_flatMap.1 hD
    have hFv : Fv h lam (s + 1) u c = fun a => W lam u (a u) *
        ((oth (h.col u) c).map (fun c' => ind (!xr a (h.row c')) *
          ((oth (h.row c') u).map (fun u' => Fv h lam s u' c' a)).prod)).prod := funext (Fv_succ h lam s u c)
    rw [hFv, sumOver_mul_left, Zv_succ]
    · congr 1
      rw [Dv_succ, sumOver_flatMap_prod (oth (h.col u) c)
        (fun c' => (oth (h.row c') u).flatMap (fun u' => u' :: Dv h s u' c'))
        (fun c' => u :: (oth (h.row c') u).flatMap (fun u' => u' :: Dv h s u' c'))
        (fun c' a => ind (!xr a (h.row c')) * ((oth (h.row c') u).map (fun u' => Fv h lam s u' c' a)).prod)]
      · -- every check of the column: its subtree sum is `Zc`
        apply congrArg
        apply List.map_congr_left
        intro c' hc'
        have hcu : c' ∈ h.col u := (mem_oth.1 hc').1
        have hblock := hblocks c' hc'
        have huB : u ∉ (oth (h.row c') u).flatMap (fun u' => u' :: Dv h s u' c') := by
          intro hm
          apply huD
          rw [Dv_succ, List.mem_flatMap]
          exact ⟨c', hc', hm⟩
        unfold Zc
        apply check_sum (oth (h.row c') u) (fun u' => Dv h s u' c') (h.row c') u
          (fun u' => Fv h lam s u' c') (fun u' => Zv h lam s u' c')
          (perm_cons_oth (hinv.2.2.1 c') (row_of_col hinv hcu)) (List.nodup_cons.2 ⟨huB, hblock⟩)
          (fun u' _ => Fv_dep h lam s u' c')
        intro u' hu' a1
        apply ih
        exact ((List.nodup_flatMap.1 hblock).1 u' hu')
      · -- each factor depends only on the parent and the block
        intro c' hc' a1 a2 h12
        have hx : xr a1 (h.row c') = xr a2 (h.row c') := by
          apply xr_congr
          intro x hx
          by_cases hxu : x = u
          · subst hxu; exact h12 x (by simp)
          · apply h12
            rw [List.mem_cons]; right
            rw [List.mem_flatMap]
            exact ⟨x, mem_oth.2 ⟨hx, hxu⟩, by simp⟩
        simp only
        rw [hx]
        congr 2
        apply List.map_congr_left
        intro u' hu'
        apply Fv_dep
        intro x hx
        apply h12
        rw [List.mem_cons]; right
        rw [List.mem_flatMap]
        exact ⟨u', hu', hx⟩
      · -- the blocks are disjoint and none contains the parent
        apply hpair.imp_of_mem
        intro c1 c2 h1 h2 h12
        have hu : ∀ c' ∈ oth (h.col u) c, u ∉ (oth (h.row c') u).flatMap (fun u' => u' :: Dv h s u' c') := by
          intro c' hc' hm
          apply huD
          rw [Dv_succ, List.mem_flatMap]
          exact ⟨c', hc', hm⟩
        constructor
        · intro w hw hw2
          rcases List.mem_cons.1 hw with e | hw1
          · subst e; exact hu c2 h2 hw2
          · exact h12 hw1 hw2
        · intro w hw hw1
          rcases List.mem_cons.1 hw with e | hw2
          · subst e; exact hu c1 h1 hw1
          · exact h12 hw1 hw2
    · intro a' ha'
      rw [ha' u huD]

end LdpcV.TreeBP
