/-
Specification vocabulary for C11: the Tanner graph of a sparse matrix, walks, distances, cycles.
Core only.
-/
import LdpcV.Model.Graph
import LdpcV.Lemmas.SparseLemmas
namespace LdpcV.Graph

/-- adjacency in the Tanner graph: row node `r` — column node `c` iff the matrix has a one at `(r, c)` -/
def Adj (h : SM) : Node → Node → Prop
  | .row r, .col c => h.mem r c = true
  | .col c, .row r => h.mem r c = true
  | _, _ => False

/-- `Walk h a b n`: there is a walk with `n` edges from `a` to `b` -/
inductive Walk (h : SM) : Node → Node → Nat → Prop
  | nil (a : Node) : inRange h a = true → Walk h a a 0
  | cons {a b c : Node} {n : Nat} : Adj h a b → Walk h b c n → Walk h a c (n + 1)

/-- `d` is the length of a shortest path from `a` to `b` -/
def IsDist (h : SM) (a b : Node) (d : Nat) : Prop := Walk h a b d ∧ ∀ d', Walk h a b d' → d ≤ d'

def Reachable (h : SM) (a b : Node) : Prop := ∃ d, Walk h a b d

/-- a (simple) cycle: at least 3 distinct nodes, consecutive ones adjacent, last adjacent to first -/
def IsCycle (h : SM) (c : List Node) : Prop :=
  3 ≤ c.length ∧ c.Nodup ∧ ∀ i, i < c.length → Adj h (c.getD i (.row 0)) (c.getD ((i + 1) % c.length) (.row 0))

/-- `g` is the length of a shortest cycle (of the whole graph) -/
def IsGirth (h : SM) (g : Nat) : Prop :=
  (∃ c, IsCycle h c ∧ c.length = g) ∧ ∀ c, IsCycle h c → g ≤ c.length

def IsForest (h : SM) : Prop := ∀ c, ¬ IsCycle h c

/-- `g` is the length of a shortest cycle through node `x` -/
def IsLocalGirth (h : SM) (x : Node) (g : Nat) : Prop :=
  (∃ c, IsCycle h c ∧ x ∈ c ∧ c.length = g) ∧ ∀ c, IsCycle h c → x ∈ c → g ≤ c.length

def OnNoCycle (h : SM) (x : Node) : Prop := ∀ c, IsCycle h c → x ∉ c

/-- bounded variants report the value exactly when it does not exceed the bound -/
def cutAt (max : Option Nat) (g : Option Nat) : Option Nat :=
  match g, max with
  | some v, some m => if v ≤ m then some v else none
  | g, _ => g

end LdpcV.Graph
