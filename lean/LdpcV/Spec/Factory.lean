/-
C18: the 36 decoder implementation names, written from the documentation of
`DecoderImplementation` (name, arithmetic family, precision / 8-bit variant, schedule).
`HL` prefix ⇔ horizontal layered.
-/
import LdpcV.Model.ArithI8
import LdpcV.Model.ArithFloat
namespace LdpcV.Factory

inductive Family where
  | phi | tanh | minstarapprox | aminstar
deriving Repr, DecidableEq

inductive Num where
  | f64 | f32
  | i8 (cfg : I8.Cfg)
deriving Repr, DecidableEq

structure Impl where
  family : Family
  num : Num
  sched : Sched
deriving Repr, DecidableEq

def familyName : Family → String
  | .phi => "Phi" | .tanh => "Tanh" | .minstarapprox => "Minstarapprox" | .aminstar => "Aminstar"

def numName : Num → String
  | .f64 => "f64" | .f32 => "f32"
  | .i8 cfg => "i8" ++ (if cfg.jones then "Jones" else "") ++ (if cfg.hardLimit then "PartialHardLimit" else "")
                    ++ (if cfg.deg1 then "Deg1Clip" else "")

/-- the naming convention: `[HL]<Family><numeric type and options>` -/
def Impl.name (i : Impl) : String :=
  (if i.sched == .layered then "HL" else "") ++ familyName i.family ++ numName i.num

def allCfgs : List I8.Cfg :=
  [⟨false,false,false⟩, ⟨true,false,false⟩, ⟨false,true,false⟩, ⟨true,true,false⟩,
   ⟨false,false,true⟩, ⟨true,false,true⟩, ⟨false,true,true⟩, ⟨true,true,true⟩]

/-- the 36 implementations in the order of the Rust enum -/
def all : List Impl :=
  [⟨.phi,.f64,.flooding⟩, ⟨.phi,.f32,.flooding⟩, ⟨.tanh,.f64,.flooding⟩, ⟨.tanh,.f32,.flooding⟩,
   ⟨.minstarapprox,.f64,.flooding⟩, ⟨.minstarapprox,.f32,.flooding⟩]
  ++ allCfgs.map (fun c => ⟨.minstarapprox, .i8 c, .flooding⟩)
  ++ [⟨.aminstar,.f64,.flooding⟩, ⟨.aminstar,.f32,.flooding⟩]
  ++ allCfgs.map (fun c => ⟨.aminstar, .i8 c, .flooding⟩)
  ++ [⟨.phi,.f64,.layered⟩, ⟨.phi,.f32,.layered⟩, ⟨.tanh,.f64,.layered⟩, ⟨.tanh,.f32,.layered⟩,
      ⟨.minstarapprox,.f64,.layered⟩, ⟨.minstarapprox,.f32,.layered⟩,
      ⟨.minstarapprox,.i8 ⟨false,false,false⟩,.layered⟩, ⟨.minstarapprox,.i8 ⟨false,true,false⟩,.layered⟩,
      ⟨.aminstar,.f64,.layered⟩, ⟨.aminstar,.f32,.layered⟩,
      ⟨.aminstar,.i8 ⟨false,false,false⟩,.layered⟩, ⟨.aminstar,.i8 ⟨false,true,false⟩,.layered⟩]

def names : List String := all.map Impl.name

/-- `FromStr` -/
def parse (s : String) : Option Impl := all.find? (fun i => i.name == s)

/-- `Display` -/
def print (i : Impl) : String := i.name

/-- exact arithmetic model of an 8-bit implementation -/
def Impl.arith? (i : Impl) : Option Arith :=
  match i.family, i.num with
  | .minstarapprox, .i8 cfg => some (I8.mkArith false cfg)
  | .aminstar, .i8 cfg => some (I8.mkArith true cfg)
  | _, _ => none

def Family.kind : Family → ArithFloat.Kind
  | .phi => .phi | .tanh => .tanh | .minstarapprox => .approx | .aminstar => .amin

/-- arithmetic model of EVERY implementation: exact for the 8-bit ones, the generic float formulas at `Float` /
`Float32` for the others (rounding of the elementary functions is the platform's, so the float models are compared
with the code numerically, not bit for bit) -/
def Impl.model (i : Impl) : Arith :=
  match i.num with
  | .i8 cfg => I8.mkArith (i.family == .aminstar) cfg
  | .f64 => ArithFloat.f64Arith i.family.kind
  | .f32 => ArithFloat.f32Arith i.family.kind

end LdpcV.Factory
