/-
Specification vocabulary for the standard-code theorems (C06, C07).  Core only.
-/
import LdpcV.Model.Dvbs2
import LdpcV.Model.Ccsds
import LdpcV.Spec.Dvbs2Tables
import LdpcV.Spec.CcsdsTables
import LdpcV.Spec.GraphSpec
import LdpcV.Spec.GF2Spec
namespace LdpcV.Dvbs2

/-- a DVB-S2 parameter set is well formed: `m = 360 q`, `k = n - m = 360 · (number of address rows)`,
every address is below `m` and the addresses of one row are pairwise distinct -/
def WellFormed (n m q : Nat) (addr : List (List Nat)) : Bool :=
  m == 360 * q && (n - m == 360 * addr.length) && decide (m < n) && decide (0 < q) &&
  addr.all (fun row => row.all (· < m) && decide row.Nodup)

/-- k from ETSI EN 302 307-1 Tables 5a / 5b -/
def standardK : String → Option Nat
  | "R1_4" => some 16200 | "R1_3" => some 21600 | "R2_5" => some 25920 | "R1_2" => some 32400
  | "R3_5" => some 38880 | "R2_3" => some 43200 | "R3_4" => some 48600 | "R4_5" => some 51840
  | "R5_6" => some 54000 | "R8_9" => some 57600 | "R9_10" => some 58320
  | "R1_4short" => some 3240 | "R1_3short" => some 5400 | "R2_5short" => some 6480 | "R1_2short" => some 7200
  | "R3_5short" => some 9720 | "R2_3short" => some 10800 | "R3_4short" => some 11880 | "R4_5short" => some 12600
  | "R5_6short" => some 13320 | "R8_9short" => some 14400
  | _ => none

def standardN (name : String) : Nat := if name.endsWith "short" then 16200 else 64800

/-- column-degree profile of the information part read off the address table: runs of (degree, number of columns) -/
def tableProfile (addr : List (List Nat)) : List (Nat × Nat) :=
  (addr.map List.length).foldl (fun acc d => match acc.getLast? with
    | some (d', c) => if d' = d then acc.dropLast ++ [(d', c + 360)] else acc ++ [(d, 360)]
    | none => [(d, 360)]) []

/-- the standard's column-degree profiles of the information part (degree, number of columns) — pinned -/
def standardProfile : String → List (Nat × Nat)
  | "R1_4" => [(12, 5400), (3, 10800)] | "R1_3" => [(12, 7200), (3, 14400)] | "R2_5" => [(12, 8640), (3, 17280)]
  | "R1_2" => [(8, 12960), (3, 19440)] | "R3_5" => [(12, 12960), (3, 25920)] | "R2_3" => [(13, 4320), (3, 38880)]
  | "R3_4" => [(12, 5400), (3, 43200)] | "R4_5" => [(11, 6480), (3, 45360)] | "R5_6" => [(13, 5400), (3, 48600)]
  | "R8_9" => [(4, 7200), (3, 50400)] | "R9_10" => [(4, 6480), (3, 51840)]
  | "R1_4short" => [(12, 1440), (3, 1800)] | "R1_3short" => [(12, 1800), (3, 3600)] | "R2_5short" => [(12, 2160), (3, 4320)]
  | "R1_2short" => [(8, 1800), (3, 5400)] | "R3_5short" => [(12, 3240), (3, 6480)] | "R2_3short" => [(13, 1080), (3, 9720)]
  | "R3_4short" => [(12, 360), (3, 11520)] | "R4_5short" => [(3, 12600)] | "R5_6short" => [(13, 360), (3, 12960)]
  | "R8_9short" => [(4, 1800), (3, 12600)]
  | _ => []

end LdpcV.Dvbs2

namespace LdpcV.Ccsds

def tables : Tables := ⟨CcsdsTables.theta, CcsdsTables.phi⟩

/-- M from CCSDS 131.0-B Table 7-2, as `(rate index, k, log2 M)`; rate index 0 = 1/2, 1 = 2/3, 2 = 4/5 -/
def standardCodes : List (Nat × Nat × Nat) :=
  [(0, 1024, 9), (1, 1024, 8), (2, 1024, 7), (0, 4096, 11), (1, 4096, 10), (2, 4096, 9),
   (0, 16384, 13), (1, 16384, 12), (2, 16384, 11)]

/-- AR4JA protograph block-column degrees: extra information blocks 4, base blocks 2, 3, 1, 3 and the punctured block 6 -/
def protographDegrees (rate : Nat) : List Nat := List.replicate (extraBlocks rate) 4 ++ [2, 3, 1, 3, 6]

/-- the degree of every column of block-column `b`, if they all agree -/
def blockDegrees (m ncols : Nat) (rows : List (List Nat)) : List (List Nat) :=
  let cols := colsOfRows ncols rows
  (List.range (ncols / m)).map (fun b => ((List.range m).map (fun i => (cols.getD (b * m + i) []).length)).eraseDups)

/-- a set of rows (as bitsets) is linearly independent over GF(2): no non-empty sub-family xors to 0 -/
def IndepBits (rows : List Nat) : Prop :=
  ∀ sel : List Bool, sel.length = rows.length → sel.contains true →
    ((rows.zip sel).foldl (fun acc p => if p.2 then acc ^^^ p.1 else acc) 0) ≠ 0

end LdpcV.Ccsds
