/-
Specification vocabulary for the GF(2) linear-algebra theorems (C02, C09).  Core only.
Vectors are `List Bool`; a missing coordinate reads as 0.
-/
import LdpcV.Model.Linalg
import LdpcV.Model.Decoder
import LdpcV.Lemmas.SparseLemmas
namespace LdpcV.Lin

def vxor (a b : List Bool) : List Bool := (a.zip b).map (fun p => xor p.1 p.2)

def isZero (v : List Bool) : Prop := ∀ b ∈ v, b = false

/-- inner product over GF(2) of a dense row with a vector -/
def dot (row x : List Bool) : Bool := xorAll ((row.zip x).map (fun p => p.1 && p.2))

/-- dense matrix times vector -/
def Mat.mulVec (a : Mat) (x : List Bool) : List Bool := a.map (fun row => dot row x)

/-- sparse matrix times vector: one parity bit per row -/
def smMulVec (h : SM) (x : List Bool) : List Bool :=
  h.rows.map (fun row => xorAll (row.map (fun c => x.getD c false)))

/-- the square matrix formed by the last `nrows` columns of `h`, dense -/
def tailMat (h : SM) : Mat :=
  (List.range h.nrows).map (fun r => (List.range h.nrows).map (fun j => h.mem r (h.ncols - h.nrows + j)))

/-- the whole matrix, dense -/
def denseOf (h : SM) : Mat :=
  (List.range h.nrows).map (fun r => (List.range h.ncols).map (fun c => h.mem r c))

/-- a square matrix is invertible over GF(2): only the zero vector is mapped to zero -/
def Nonsingular (a : Mat) : Prop :=
  ∀ x : List Bool, x.length = a.length → isZero (a.mulVec x) → isZero x

/-- linear combination of the rows of `a` selected by `y` -/
def rowComb (a : Mat) (y : List Bool) (width : Nat) : List Bool :=
  (a.zip y).foldl (fun acc p => if p.2 then vxor acc p.1 else acc) (List.replicate width false)

/-- the rows of an `n × m` matrix are linearly independent -/
def RowsIndep (a : Mat) (width : Nat) : Prop :=
  ∀ y : List Bool, y.length = a.length → isZero (rowComb a y width) → isZero y

end LdpcV.Lin
