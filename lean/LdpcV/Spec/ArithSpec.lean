/-
Specification vocabulary for the 8-bit arithmetic theorems (C04, C05).  Core only.
-/
import LdpcV.Model.ArithI8
import LdpcV.Spec.DecoderSpec
namespace LdpcV.I8

/-- all message values are proper 8-bit LLRs: in [-127, 127] (never -128) -/
def Bounded (msgs : List (Nat × Int)) : Prop := ∀ m ∈ msgs, -127 ≤ m.2 ∧ m.2 ≤ 127

/-- the values arriving from all neighbours other than `d` -/
def othersOf (msgs : List (Nat × Int)) (d : Nat) : List Int := (msgs.filter (fun m => m.1 != d)).map (·.2)

/-- `|x| ≤ |y|` for every `y` in the list -/
def LeAllAbs (x : Int) (ys : List Int) : Prop := ∀ y ∈ ys, x.natAbs ≤ y.natAbs

/-- decoded finite f64: `(negative, num, den)` with `|8·x| = num / den` exactly; `none` for NaN/∞ -/
def times8 (bits : UInt64) : Option (Bool × Nat × Nat) :=
  let b := bits.toNat
  let neg := b / 2^63 == 1
  let e : Nat := (b / 2^52) % 2048
  let frac : Nat := b % 2^52
  if e == 2047 then none else
  let m : Nat := if e == 0 then frac else frac + 2^52
  let ex : Int := (if e == 0 then (-1074 : Int) else (e : Int) - 1075) + 3
  some (neg, m * 2^ex.toNat, 2^(-ex).toNat)

def isNaN (bits : UInt64) : Bool :=
  let b := bits.toNat
  ((b / 2^52) % 2048 == 2047) && (b % 2^52 != 0)

end LdpcV.I8
