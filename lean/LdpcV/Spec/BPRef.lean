/-
Textbook belief propagation, both schedules, as a stateless reference (C03).  Core only, executable.

No buffers, no slots, no routing by search: a node's rule is applied to the list of messages on its
incident edges (in the adjacency order of the parity-check matrix), and the value travelling on edge
(c, v) is looked up by name in the list the sending node emitted.

Flooding:   all check→variable messages are computed from the previous variable→check messages, then
            all variable updates; syndrome test after every full iteration.
Layered:    checks one by one in row order, each seeing the variable values already updated; syndrome
            test after every full iteration.
The reference also produces the *call trace* (which rule was applied to which incoming list, in which
order, and what it emitted) so that the implementation's trace can be compared with it.
-/
import LdpcV.Model.Decoder
namespace LdpcV.BPRef

variable {A : Arith}

/-- value addressed to `dst` in an emitted list (`none` if the node sent nothing to `dst`) -/
def sentTo {β : Type} (emitted : List (Nat × β)) (dst : Nat) : Option β :=
  (emitted.find? (fun p => p.1 == dst)).map (·.2)

inductive Call (A : Arith) where
  | check (c : Nat) (incoming : List (Nat × A.VarMsg)) (emitted : List (Nat × A.CheckMsg))
  | var (v : Nat) (input : A.Llr) (incoming : List (Nat × A.CheckMsg)) (llr : A.Llr) (emitted : List (Nat × A.VarMsg))
  | layer (c : Nat) (before : List (Nat × A.CheckMsg)) (after : List (Nat × A.CheckMsg)) (vars : List A.VarLlr)

/-! ### flooding -/

/-- what every variable node emitted last (index = variable), initially the channel LLR on every edge -/
def initEmitted (h : SM) (input : List A.Llr) : List (List (Nat × A.VarMsg)) :=
  (List.range input.length).map (fun v => (h.col v).map (fun c => (c, A.toVarMsg (input.getD v A.dLlr))))

/-- incoming messages of check `c`: one per variable of row `c`, in row order.
`none` if some variable has not addressed a message to `c`. -/
def checkIncoming (h : SM) (varEmitted : List (List (Nat × A.VarMsg))) (c : Nat) : Option (List (Nat × A.VarMsg)) :=
  (h.row c).mapM (fun v => (sentTo (varEmitted.getD v []) c).map (fun x => (v, x)))

def varIncoming (h : SM) (checkEmitted : List (List (Nat × A.CheckMsg))) (v : Nat) : Option (List (Nat × A.CheckMsg)) :=
  (h.col v).mapM (fun c => (sentTo (checkEmitted.getD c []) v).map (fun x => (c, x)))

/-- one flooding iteration: returns the new per-variable emitted lists, the new LLRs and the call trace -/
def floodIter (h : SM) (input : List A.Llr) (varEmitted : List (List (Nat × A.VarMsg))) :
    Option (List (List (Nat × A.VarMsg)) × List A.Llr × List (Call A)) := do
  -- all check nodes, from the previous variable messages
  let checks ← (List.range h.nrows).mapM (fun c => do
    let inc ← checkIncoming h varEmitted c
    let out ← A.checkRule inc
    pure (inc, out))
  let checkEmitted := checks.map (·.2)
  -- then all variable nodes
  let vars ← (List.range h.ncols).mapM (fun v => do
    let inc ← varIncoming h checkEmitted v
    let r ← A.varRule (input.getD v A.dLlr) inc
    pure (inc, r))
  let trace : List (Call A) :=
    (checks.zipIdx.map (fun p => Call.check p.2 p.1.1 p.1.2)) ++
    (vars.zipIdx.map (fun p => Call.var p.2 (input.getD p.2 A.dLlr) p.1.1 p.1.2.1 p.1.2.2))
  pure (vars.map (·.2.2), vars.map (·.2.1), trace)

def floodLoop (h : SM) (input : List A.Llr) (n : Nat) :
    Nat → List (List (Nat × A.VarMsg)) → List A.Llr → List (Call A) → Option (Verdict × List (Call A))
  | 0, _, llrs, tr => some (.failure (llrs.map A.hard) n, tr)
  | rem+1, em, _, tr =>
    match floodIter h input em with
    | none => none
    | some (em', llrs', t) =>
      let w := llrs'.map A.hard
      if syndromeOK h w then some (.success w (n - rem), tr ++ t)
      else floodLoop h input n rem em' llrs' (tr ++ t)

/-- textbook flooding decoder: a function of (H, channel LLRs, limit) only -/
def floodRefTraced (A : Arith) (h : SM) (llrs : List UInt64) (n : Nat) : Option (Verdict × List (Call A)) :=
  if llrs.length ≠ h.ncols then none
  else if syndromeOK h (llrs.map f64LeZero) then some (.success (llrs.map f64LeZero) 0, [])
  else
    let input := llrs.map A.quantize
    floodLoop h input n n (initEmitted h input) input []

def floodRef (A : Arith) (h : SM) (llrs : List UInt64) (n : Nat) : Option Verdict :=
  (floodRefTraced A h llrs n).map (·.1)

/-! ### horizontal layered -/

/-- one layered iteration: rows in order, immediate updates -/
def layerIter : Nat → List (List (Nat × A.CheckMsg)) → List A.VarLlr →
    Option (List (List (Nat × A.CheckMsg)) × List A.VarLlr × List (Call A))
  | _, [], vars => some ([], vars, [])
  | c, msgs :: rest, vars =>
    match A.layerRule msgs vars with
    | none => none
    | some (msgs', vars') =>
      match layerIter (c+1) rest vars' with
      | none => none
      | some (rest', vars'', tr) => some (msgs' :: rest', vars'', Call.layer c msgs msgs' vars' :: tr)

def layerLoop (h : SM) (n : Nat) :
    Nat → List (List (Nat × A.CheckMsg)) → List A.VarLlr → List (Call A) → Option (Verdict × List (Call A))
  | 0, _, vars, tr => some (.failure (vars.map (fun x => A.hard (A.ofVarLlr x))) n, tr)
  | rem+1, rcv, vars, tr =>
    match layerIter 0 rcv vars with
    | none => none
    | some (rcv', vars', t) =>
      let w := vars'.map (fun x => A.hard (A.ofVarLlr x))
      if syndromeOK h w then some (.success w (n - rem), tr ++ t)
      else layerLoop h n rem rcv' vars' (tr ++ t)

/-- textbook layered decoder: a function of (H, channel LLRs, limit) only -/
def layerRefTraced (A : Arith) (h : SM) (llrs : List UInt64) (n : Nat) : Option (Verdict × List (Call A)) :=
  if llrs.length ≠ h.ncols then none
  else if syndromeOK h (llrs.map f64LeZero) then some (.success (llrs.map f64LeZero) 0, [])
  else
    layerLoop h n n (Store.blank A.dCheck h.rows) (llrs.map (fun y => A.toVarLlr (A.quantize y))) []

def layerRef (A : Arith) (h : SM) (llrs : List UInt64) (n : Nat) : Option Verdict :=
  (layerRefTraced A h llrs n).map (·.1)

def decodeRef (A : Arith) (s : Sched) (h : SM) (llrs : List UInt64) (n : Nat) : Option Verdict :=
  match s with
  | .flooding => floodRef A h llrs n
  | .layered => layerRef A h llrs n

end LdpcV.BPRef
