/-
Specification vocabulary for the decoder theorems (C01, C03, C10): shapes of decoder states and
the contract an arithmetic has to honour ("well behaved").  Core only.
-/
import LdpcV.Spec.BPRef
import LdpcV.Lemmas.SparseLemmas
namespace LdpcV

/-- the slots of a message store are exactly the given adjacency lists (values arbitrary) -/
def Store.HasShape {β : Type} (s : Store β) (adj : List (List Nat)) : Prop :=
  s.map (fun l => l.map Prod.fst) = adj

/-- a flooding decoder state that belongs to a decoder built for `h` (any buffer *contents*) -/
structure Flood.Shape {A : Arith} (h : SM) (st : FloodSt A) : Prop where
  input : st.input.length = h.ncols
  output : st.output.length = h.ncols
  checkMsgs : st.checkMsgs.HasShape h.cols
  varMsgs : st.varMsgs.HasShape h.rows

/-- a layered decoder state that belongs to a decoder built for `h` (any buffer *contents*) -/
structure Hl.Shape {A : Arith} (h : SM) (st : HlSt A) : Prop where
  llrs : st.llrs.length = h.ncols
  checkMsgs : st.checkMsgs.HasShape h.rows

def DecSt.Shape {A : Arith} (h : SM) : DecSt A → Prop
  | .flood st => Flood.Shape h st
  | .hl st => Hl.Shape h st

/-- Contract between the generic decoders and an arithmetic, relative to a matrix `h`:
there are invariants `okLlr / okVar / okCheck / okVarLlr` on the values in flight such that, on the
message lists that can arise at the nodes of `h`, every rule succeeds (does not panic), emits
**exactly one message per incoming message, addressed to its source** (as a permutation — the
emission order is free) and re-establishes the invariants. -/
structure WellBehaved (A : Arith) (h : SM) where
  okLlr : A.Llr → Prop
  okVar : A.VarMsg → Prop
  okCheck : A.CheckMsg → Prop
  quant_ok : ∀ b, okLlr (A.quantize b)
  toVar_ok : ∀ x, okLlr x → okVar (A.toVarMsg x)
  dCheck_ok : okCheck A.dCheck
  check_ok : ∀ c, c < h.nrows → ∀ msgs : List (Nat × A.VarMsg), msgs.map Prod.fst = h.row c →
    (∀ m ∈ msgs, okVar m.2) →
    ∃ out, A.checkRule msgs = some out ∧ (out.map Prod.fst).Perm (msgs.map Prod.fst) ∧ ∀ m ∈ out, okCheck m.2
  var_ok : ∀ v, v < h.ncols → ∀ (llr : A.Llr) (msgs : List (Nat × A.CheckMsg)), okLlr llr →
    msgs.map Prod.fst = h.col v → (∀ m ∈ msgs, okCheck m.2) →
    ∃ l out, A.varRule llr msgs = some (l, out) ∧ (out.map Prod.fst).Perm (msgs.map Prod.fst) ∧ ∀ m ∈ out, okVar m.2

/-- Contract for the layered primitive: it keeps the destinations of the check's messages and the
number of variables, and does not panic on states satisfying an invariant `okState` that the
initial state satisfies and every update preserves. -/
structure WellBehavedLayer (A : Arith) (h : SM) where
  okState : List (List (Nat × A.CheckMsg)) → List A.VarLlr → Prop
  /-- the state right after `initialize` -/
  init_ok : ∀ llrs : List UInt64, llrs.length = h.ncols →
    okState (Store.blank A.dCheck h.rows) (llrs.map (fun y => A.toVarLlr (A.quantize y)))
  /-- updating row `c` (with the rows before it already updated) succeeds and preserves everything -/
  layer_ok : ∀ (rcv : List (List (Nat × A.CheckMsg))) (vars : List A.VarLlr) (c : Nat),
    okState rcv vars → Store.HasShape rcv h.rows → vars.length = h.ncols → c < h.nrows →
    ∃ msgs' vars', A.layerRule (rcv.getD c []) vars = some (msgs', vars') ∧
      msgs'.map Prod.fst = h.row c ∧ vars'.length = vars.length ∧ okState (rcv.set c msgs') vars'

/-- The weakest contract under which a decoder object still carries no state: on the message lists that can arise at
the nodes of `h`, a rule either PANICS or emits exactly one message per incoming message, addressed to its source (as
a permutation).  No invariant on the values, no promise of success — met by all 36 implementations' models, including
the float A-Min* rules that panic on NaN. -/
structure PanicOrBehaved (A : Arith) (h : SM) : Prop where
  check_ok : ∀ c, c < h.nrows → ∀ msgs : List (Nat × A.VarMsg), msgs.map Prod.fst = h.row c →
    ∀ out, A.checkRule msgs = some out → (out.map Prod.fst).Perm (msgs.map Prod.fst)
  var_ok : ∀ v, v < h.ncols → ∀ (llr : A.Llr) (msgs : List (Nat × A.CheckMsg)), msgs.map Prod.fst = h.col v →
    ∀ l out, A.varRule llr msgs = some (l, out) → (out.map Prod.fst).Perm (msgs.map Prod.fst)

end LdpcV
