import LdpcV.Driver.C17
import LdpcV.Driver.C15
import LdpcV.Driver.Dec
import LdpcV.Driver.C04
import LdpcV.Driver.C08
import LdpcV.Driver.C02
import LdpcV.Driver.C11
import LdpcV.Driver.C06
import LdpcV.Driver.C14
import LdpcV.Driver.C04F
import LdpcV.Driver.C13
import LdpcV.Driver.C12
import LdpcV.Driver.C16
import LdpcV.Driver.C19
import LdpcV.Driver.C20
open LdpcV

def dispatch (line : String) : String :=
  let (inp, out) := Proto.splitCase line
  match inp with
  | "c17" :: rest => Driver.C17.handle rest out
  | "c15" :: rest => Driver.C15.handle rest out
  | "c01" :: rest => Driver.Dec.handleC01 rest out
  | "c10" :: rest => Driver.Dec.handleC10 rest out
  | "c18" :: rest => Driver.Dec.handleC18 rest out
  | "c03" :: rest => Driver.Dec.handleC03 rest out
  | "c04" :: "fs" :: ty :: calls => Driver.C04F.handleC04FS ty calls out
  | "c04" :: "f" :: ty :: m :: [] => Driver.C04F.handleC04F ty m out
  | "c04" :: rest => Driver.C04.handleC04 rest out
  | "c05" :: "lf" :: ty :: calls => Driver.C04F.handleC05LF ty calls out
  | "c05" :: "vf" :: ty :: i :: m :: [] => Driver.C04F.handleC05VF ty i m out
  | "c05" :: rest => Driver.C04.handleC05 rest out
  | "c08" :: rest => Driver.C08.handle rest out
  | "c02" :: rest => Driver.C02.handleC02 rest out
  | "c09" :: rest => Driver.C02.handleC09 rest out
  | "c11" :: rest => Driver.C11.handle rest out
  | "c06" :: rest => Driver.C06.handle rest out
  | "c07" :: rest => Driver.C07.handle rest out
  | "c14" :: rest => Driver.C14.handle rest out
  | "c13" :: rest => Driver.C13.handle rest out
  | "c12" :: rest => Driver.C12.handle rest out
  | "c16" :: rest => Driver.C16.handle rest out
  | "c19" :: rest => Driver.C19.handle rest out
  | "c20" :: rest => Driver.C20.handle rest out
  | _ => "BADLINE unknown-tag"

partial def loop (h : IO.FS.Stream) (o : IO.FS.Stream) : IO Unit := do
  let line ← h.getLine
  if line.isEmpty then return ()
  if line.trimAscii.toString.isEmpty then loop h o else
  o.putStrLn (dispatch line)
  loop h o

def main : IO Unit := do
  loop (← IO.getStdin) (← IO.getStdout)
