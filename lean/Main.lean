import LdpcV.Driver.C17
import LdpcV.Driver.C15
open LdpcV

def dispatch (line : String) : String :=
  let (inp, out) := Proto.splitCase line
  match inp with
  | "c17" :: rest => Driver.C17.handle rest out
  | "c15" :: rest => Driver.C15.handle rest out
  | _ => "BADLINE unknown-tag"

partial def loop (h : IO.FS.Stream) (o : IO.FS.Stream) : IO Unit := do
  let line ← h.getLine
  if line.isEmpty then return ()
  if line.trimAscii.toString.isEmpty then loop h o else
  o.putStrLn (dispatch line)
  loop h o

def main : IO Unit := do
  loop (← IO.getStdin) (← IO.getStdout)
