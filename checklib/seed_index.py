#!/usr/bin/env python3
"""seed_index.py — regenerate seeded/INDEX.md from seeded/*/meta.json (+ seeded/history.json: hand-written notes on what was strengthened)."""
import json, os, glob
ROOT = os.path.dirname(os.path.dirname(os.path.abspath(__file__)))
hist = {}
hp = os.path.join(ROOT, "seeded", "history.json")
if os.path.exists(hp):
    hist = json.load(open(hp))
rows = []
for d in sorted(glob.glob(os.path.join(ROOT, "seeded", "C*-m*"))):
    m = json.load(open(os.path.join(d, "meta.json")))
    name = os.path.basename(d)
    first = m.get("caught_by", [])
    after = m.get("caught_by_after_strengthening", first)
    own = m["property"]
    if name in hist:
        h = hist[name]
    elif own in first:
        h = "caught by the first version of the check"
    elif first:
        h = f"first caught only by {', '.join(first)}"
    else:
        h = "MISSED by the first version"
    what = " ".join(m.get("needs_to_manifest", "").split())[:230]
    rows.append((name, own, "yes" if m.get("confirmed") else "NO", ", ".join(after) or "—", h, what))
with open(os.path.join(ROOT, "seeded", "INDEX.md"), "w") as f:
    f.write("# Seeded breaking changes\n\nWritten by fresh sub-agents that were given only the text of one property and their own scratch worktree (nothing from /verif;\n"
            "the second round additionally got a one-line list of the first round's mutation sites of that property, to avoid repeats).\n"
            "Each was confirmed independently by `checklib/seed_verify.py` (patch applies; `cargo build` ok; the full existing test suite still passes; the agent's\n"
            "demonstration passes on the unmodified code and fails with the patch) and then applied to /repo, checked, and undone; `checklib/seed_recheck.py`\n"
            "re-runs checks after a strengthening.\n\n| seed | property | confirmed | caught by (current checks) | history | what it is (from the agent's notes) |\n|---|---|---|---|---|---|\n")
    for r in rows:
        f.write("| " + " | ".join(x.replace("|", "/") for x in r) + " |\n")
    n = len(rows)
    caught = sum(1 for r in rows if r[3] != "—")
    own = sum(1 for r in rows if r[1] in r[3].split(", "))
    f.write(f"\n{n} seeded changes; {caught} caught by the current checks ({own} by the check of the property they were written for).\n")
print(len(rows), "seeds indexed")
