"""Per-property configuration of ./check (levels, trusted base, rules, partial clauses)."""

KERNEL = "Lean 4.33.0 kernel (type-checks every proof term); axioms propext, Classical.choice, Quot.sound only unless listed"
CORR = ("correspondence check: Rust harness /verif/harness (calls the real code in-process, catch_unwind as panic observer, "
        "dev profile with overflow-checks and debug-assertions ON), canonical printers on both sides, executable Lean model "
        "`vmodel` compiled from the same definitions the theorems are about; coverage is sampling except where marked exhaustive")
COMMON_ASSUME = [
    "the theorems are about the hand-written Lean model; the tie to /repo is the differential correspondence run on every check",
    "harness build (opt-level 2, overflow checks on) and the release build execute the same source semantics",
]

PROPS = {
    "C17": dict(
        level="proof",
        shrinkable=3,
        trusted_base=[KERNEL, CORR,
                      "modelled, not verified: Vec<Vec<usize>> as List (List Nat); usize as unbounded Nat (sizes far below 2^64); "
                      "an indexing panic as `none`"],
        rule=("editing histories of 1-60 operations (all 9 mutators, ~30 % redundant single-entry edits, 2 % of histories end in an "
              "out-of-range operation) on shapes up to 8x8 (14x14 thorough); after EVERY operation the full observable state (row lists, "
              "column lists in order, contains-grid, weights, iter_all, == with the previous state) is compared with the model and "
              "judged against the set specification; non-trivial = at least two operations changed the matrix; distinct = distinct "
              "canonical history text"),
        assumptions=COMMON_ASSUME,
        partial=[],
    ),
    "C15": dict(
        level="proof",
        trusted_base=[KERNEL, CORR,
                      "modelled, not verified: ndarray reshape/transpose/invert_axis/assign replaced by their index laws; "
                      "Array1/Vec as List; the uninitialised output buffer of puncture() (unsafe assume_init) is not modelled"],
        rule=("interleaver: every shape C,R <= 8 (12 thorough) x both read directions with index-valued vectors (exhaustive), plus random "
              "shapes up to 40x40 over i64/f64/GF2/u8 elements incl. indivisible lengths and C = 0; puncturer: every pattern of length <= 6 "
              "(9 thorough, incl. empty and all-false) x block sizes 0..5 for puncture, depuncture and rate (exhaustive), plus random "
              "patterns up to length 12 with divisible and indivisible lengths; non-trivial = a genuine permutation (C,R > 1) / a pattern "
              "with both kept and removed blocks and non-empty blocks; distinct = distinct canonical input"),
        assumptions=COMMON_ASSUME,
        partial=[],
    ),
    "C01": dict(
        level="proof",
        trusted_base=[KERNEL, CORR,
                      "modelled, not verified: the generic decoders flooding::Decoder<A> / horizontal_layered::Decoder<A> as the state machines "
                      "of lean/LdpcV/Model/Decoder.lean over an arbitrary pure `Arith` record (the &mut-self scratch vectors of the built-in "
                      "arithmetics are not modelled); f64 `x <= 0.0` on the bit pattern; the 20 8-bit implementations additionally have an exact "
                      "executable model (lean/LdpcV/Model/ArithI8.lean) compared bit-for-bit",
                      "outside C01 (which constrains results): termination without panic of the 16 float implementations. It does NOT hold: on graphs with 4-cycles the f32 messages can double every iteration, overflow to inf, and inf - inf = NaN reaches partial_cmp().unwrap() in the Aminstarf32 layered rule (replays/observed/HLAminstarf32-nan-panic.txt). Such a call returns no result; it is counted under the tag result-panic, not judged"],
        rule=("all 36 names built by DecoderImplementation::build_decoder x 120 (3000 thorough) cases each: matrices with row weight >= 2 from 6 families "
              "(staircase, column-regular, dense, forest-like, mixed-degree, row-random; up to 40 / 200 columns), LLR vectors from 9 magnitude classes "
              "(subnormal ... 1e30, exact zeros, 8-bit rounding boundaries +- ulp, punctured zero blocks, -0.0; signs from codewords with 0-5 flips or random), "
              "limits {0,1,2,3,5,50}; the C01 predicate is evaluated on every result by the Lean driver, and the 20 8-bit names are compared exactly "
              "with the model; non-trivial = the decoder actually iterated (input signs not already a codeword); distinct = distinct canonical input"),
        assumptions=COMMON_ASSUME,
        partial=["a decode call of a float implementation that panics (f32 overflow -> NaN -> partial_cmp().unwrap(), observed for HLAminstarf32 with |LLR| = 1e30, 50 iterations, 4-cycles) yields no result and is outside what C01 states; for the 20 8-bit names a panic is a mismatch with the total model and is reported"],
    ),
    "C18": dict(
        level="proof",
        exhaustive=True,
        trusted_base=[KERNEL, CORR,
                      "the model table lean/LdpcV/Spec/Factory.lean is written from the documentation of DecoderImplementation; the Rust macro table is tied "
                      "to it by exhaustive translation validation over the 36 variants (Debug / Display / clap value name / from_str round trip) and by "
                      "behavioural comparison with directly constructed generic decoders for the expected (arithmetic, schedule)"],
        rule=("exhaustive over the 36 enum variants (value_variants): Debug, Display, clap possible-value name, from_str(Display); behaviour: for every name, "
              "the factory-built decoder vs flooding::Decoder::new(h, A::new()) / horizontal_layered::Decoder::new(h, A::new()) for the EXPECTED (A, schedule) "
              "(table written independently in harness/src/c01.rs from the documentation) on a common separating family (40 matrices x 3 calls; pairwise "
              "separation of the 36 names is measured and reported in harness_extra) plus 25 (400 thorough) random (matrix, 2 calls) per name; 2000 (20000) "
              "mutated non-member strings; non-trivial = every name row / behaviour case, and non-member strings; distinct = distinct canonical input"),
        assumptions=COMMON_ASSUME,
        partial=[],
    ),
    "C03": dict(
        level="proof",
        extra_lean_targets=["LdpcV.Props.C03Tree", "LdpcV.Props.C03Code"],
        extra_prop_files=["LdpcV/Props/C03Tree.lean", "LdpcV/Props/C03Code.lean"],
        trusted_base=[KERNEL, CORR,
                      "the textbook reference lean/LdpcV/Spec/BPRef.lean (stateless flooding / layered schedules with name-based message lookup) is the "
                      "specification; the posterior of the exactness clause is the brute-force marginal over all codewords (lean/LdpcV/Model/ArithIdeal.lean: mass, posterior); the contract `WellBehaved` / `WellBehavedLayer` (lean/LdpcV/Spec/DecoderSpec.lean) is what 'any arithmetic' means: rules emit "
                      "exactly one message per incoming message, addressed to its source (any order) — proved for the 16 8-bit arithmetics (C05.i8_wellBehaved)",
                      "checker-supplied arithmetics IntMinSum and Affine exist twice (harness/src/arith_test.rs, lean/LdpcV/Model/ArithTest.lean); their agreement is "
                      "itself checked by the trace comparison"],
        rule=("the generic Rust decoders flooding::Decoder<Trace<A>> / horizontal_layered::Decoder<Trace<A>> with checker-supplied arithmetics A in {IntMinSum, "
              "Affine (asymmetric: every value depends on source index, slot position and degree; emits in reverse order)}: 1500 (40000 thorough) (matrix <= 30/120 "
              "columns — a quarter of them with checks of weight 1 or 0 —, LLR vector, limit) triples; compared exactly: the FULL call trace (order of check / variable / layer rule calls, every incoming list with "
              "sources, every emitted list, returned LLRs) and the final verdict/word/iterations against the textbook reference, plus the buffer model against the "
              "reference; non-trivial = at least one full iteration executed; distinct = distinct canonical input. Exactness clause: 400 (6000 thorough) random "
              "forests (3-12 bits, checks of weight 2-4 joining distinct components) x the 8 exact sum-product names (Phi/Tanh, f64/f32, flooding/HL), random-sign "
              "LLRs of magnitude 0.25-6 (f32 names: 0.25-3, below every saturation; a third of the Tanhf64 cases 8-30, where the reference is the tanh rule WITH its "
              "clamp), limits 1-20; a third of the trace cases run one or two earlier decodes on the same traced decoder object first: the driver runs the ideal arithmetic (lean/LdpcV/Model/ArithIdeal.lean at Float) through the same textbook "
              "schedules, checks its LLRs after ncols iterations against the brute-force posterior over all codewords (1e-6), and compares the implementation's "
              "verdict/word/iterations with the ideal schedule's whenever every hard decision on the way is outside the rounding margin (1e-7 f64, 1e-2 f32; "
              "count of non-compared cases in correspondence.not_compared)"),
        assumptions=COMMON_ASSUME,
        partial=["exactness clause: proved over the reals for the ideal sum-product arithmetic plugged into the same textbook schedules (C03Tree: sharp bound 2t >= "
                 "distance to the farthest bit of the tree, both schedules, hence 'at least diameter iterations'); C03Code carries it over to the rule TEXT of the code for the tanh "
                 "arithmetic (clamped tanh, product of the others, 2 atanh; both schedules) at real semantics whenever sum |LLR| <= 2 * clamp, i.e. the clamp cannot act; "
                 "the phi rule (1e-30 guard) and IEEE rounding are tied to it numerically only (forest family above), not by a theorem"],
    ),
    "C10": dict(
        level="proof",
        extra_lean_targets=["LdpcV.Props.C10All"],
        extra_prop_files=["LdpcV/Props/C10All.lean"],
        trusted_base=[KERNEL, CORR,
                      "arithmetic scratch vectors (phis/tanhs/minstars) are not in the model (pure `Arith` record); their statelessness is covered by the "
                      "implementation-vs-implementation comparison (reused object vs fresh object, exact, all 36 names) and, for the 20 8-bit names, by the exact model",
                      "C10All: every one of the 36 names has an arithmetic model (Factory.Impl.model: exact for the 8-bit names; the float formulas of "
                      "lean/LdpcV/Model/ArithFloat.lean over an arbitrary scalar record for the others, with the partial_cmp().unwrap() panic of float A-Min* on NaN); the "
                      "float models are tied to the code numerically (C04/C05), not bit for bit"],
        rule=("all 36 names x 40 (1200 thorough) histories of 2-20 decode calls on ONE decoder object mixing successes, failures, limits {0,1,2,3,5,50}, all LLR "
              "classes, matrices incl. the mixed-degree family (high-degree then low-degree checks); every call's result is compared with a freshly built decoder's "
              "result for the same arguments (exact) and, for the 20 8-bit names, with the model run as one history; non-trivial = the history contains both a "
              "success and a failure; distinct = distinct canonical input"),
        assumptions=COMMON_ASSUME,
        partial=[],
    ),
    "C04": dict(
        level="proof",
        search_seeds=3,
        model_timeout=3600,
        extra_lean_targets=["LdpcV.Props.C04Real", "LdpcV.Props.C04Table", "LdpcV.Props.C04Track", "LdpcV.Props.C04Round"],
        extra_prop_files=["LdpcV/Props/C04Real.lean", "LdpcV/Props/C04Table.lean", "LdpcV/Props/C04Track.lean", "LdpcV/Props/C04Round.lean"],
        trusted_base=[KERNEL, CORR,
                      "8-bit rules: exact integer model lean/LdpcV/Model/ArithI8.lean (i8/i16 as Int with explicit overflow checks); the correction table is a "
                      "literal in the model and is compared entry by entry with the table read from the Debug text of every Rust arithmetic object",
                      "float rules (phi, tanh, min*-approx, A-Min* in f32/f64): real-number semantics (C04Real) and, for all four rule families, the STANDARD MODEL "
                      "of floating-point arithmetic (C04Round: every + - * / returns the exact result times (1+d), |d| <= u; exp / ln_1p relative accuracy e; "
                      "negation, abs, max, min, comparisons exact; FpModel is a hypothesis structure, no axiom). That IEEE-754 round-to-nearest satisfies this model away "
                      "from overflow / subnormal underflow / NaN, and the accuracy e of the platform's libm, are TRUSTED, not proved"],
        rule=("8-bit: all 16 types: degree 2 EXHAUSTIVE (255^2 vectors each), degree 3 sampled 1e5 (2e6 thorough), degrees 4-30 random incl. boundary vectors "
              "(all +-127, ties, zeros, hard-limit thresholds 99/100/101), degrees 0/1 (documented panic); exact comparison of the emitted (dest, value) sequence "
              "with the model and evaluation of the C04 predicate (one message per neighbour, sign rule, magnitude <= smallest other, hard-limit promotion, range, and "
              "tracking of the real-valued rule evaluated at Float on inputs/8 within the proved constants (d-2)/2 resp. d-1; a promoted value needs a real "
              "counterpart >= 100 - bound) on "
              "the implementation output; float: the 8 float types on 24000 (400000 thorough) working-range vectors (|x| <= 30 f64 / 14 f32, plus 0, 1e-300, 1e-30), "
              "degrees 2-30: every comparison in the tanh domain (tolerance 1e-11 f64, 2e-5 f32) against the Float instance of the generic model and against the "
              "box-plus product: phi / tanh / A-Min*-to-argmin exact, A-Min* others = box-plus of all inputs, min*-approx between exact-(d-2)ln2 and exact, sign "
              "rule, <= smallest other; plus 6000 (100000) SEQUENCES of 2-5 check-node calls on ONE float arithmetic object with alternating high / low degrees; "
              "non-trivial = degree >= 2; distinct = distinct canonical input"),
        assumptions=COMMON_ASSUME,
        partial=["IEEE rounding: bounded by theorems (C04Round, standard model, no overflow/underflow) for the min*-approx rule (one message per neighbour, exact sign "
                 "rule, magnitude <= b^(d-2) x smallest other, value within (d-2)*eta(B) of the real rule), the A-Min* rule (within (d-1)*etaF(B+1)) and the tanh rule "
                 "(tanh domain, under the hypothesis that the rounded product stays below 1) and the phi rule (tanh domain, inputs and partial sums above the 1e-30 guard); "
                 "overflow / underflow / NaN regimes and whole-decoder float runs are outside these theorems",
                 "'within accumulated table rounding' is proved with explicit constants (C04Track): (steps)/2 units for the approximate fold, (steps) units for the "
                 "exact-form fold, (d-2)/2 resp. (d-1) units for the emitted messages of the whole rules against the same rule text at R on inputs / 8; with "
                 "partial hard limiting the bound is stated for emitted magnitudes below 100 only (the documented promotion)"],
    ),
    "C05": dict(
        level="proof",
        extra_lean_targets=["LdpcV.Props.C05HL", "LdpcV.Props.C05Round"],
        extra_prop_files=["LdpcV/Props/C05HL.lean", "LdpcV/Props/C05Round.lean"],
        trusted_base=[KERNEL, CORR,
                      "f64 inputs of the quantiser are modelled exactly on the IEEE-754 bit pattern (8*x exact, round half away from zero, saturating `as i8`, NaN -> 0)",
                      "float variable rule: modelled by ArithF.varRule over the scalar record (compared bit for bit at Float / Float32); C05Round bounds its total under "
                      "the standard model of floating-point arithmetic (|fl(x op y) - (x op y)| <= u |x op y|; trusted for IEEE-754 away from overflow / underflow)"],
        rule=("all 16 8-bit types: quantiser on special values (+-0, +-inf, NaN payloads, subnormals, 1e300, MAX), the six doubles around k/8 and (k+1/2)/8 for "
              "k in [-131,131], random magnitudes of every class and arbitrary random bit patterns; clip on ~9600 i16 values incl. all |x| <= 130; variable rule "
              "with degrees 0..200 (257 thorough) incl. all-127 / all--127 / alternating vectors and the overflow boundary (257 ok, 258+ must panic on both sides); "
              "layered primitive on random states inside the envelope and on envelope-boundary states; exact comparison with the model + the saturating-sum and "
              "layered-equals-flooding predicates evaluated on the implementation output; float types: variable rule (degrees 0-40) bit for bit, and 6000 (100000) "
              "SEQUENCES of 2-5 layered updates on ONE arithmetic object with alternating high / low check degrees (exposes stale scratch buffers), each update "
              "compared with the flooding rule on the extrinsic values; non-trivial = degree >= 1 (var) / >= 2 (layer); distinct = distinct input"),
        assumptions=COMMON_ASSUME,
        partial=["float rules: the variable rule is compared bit for bit (Float / Float32 instances) and the layered primitive against 'flooding rule on the "
                 "extrinsic values, then add' (sequences of updates on one arithmetic object, tanh-domain tolerance) — both without a theorem beyond the real-semantics "
                 "identities of C04Real",
                 "the whole-iteration envelope |var| <= 127*(deg+1) and the end-to-end no-overflow / history-independence of the layered 8-bit decoders are "
                 "proved for variable degree <= 254 (C05HL), the property asks for 200"],
    ),
    "C08": dict(
        level="proof",
        trusted_base=[KERNEL, CORR,
                      "modelled, not verified: std::fmt decimal printing as Nat.toDigits 10, str::split('\\n') / split_whitespace (Unicode White_Space list) / "
                      "usize::from_str (optional '+', ASCII digits, <= 2^64-1) as the list functions of lean/LdpcV/Model/Alist.lean; usize as Nat",
                      "declared dimensions above 5000 are outside the property ('moderate declared dimensions') and are skipped by harness and driver"],
        rule=("writer: 1500 (30000 thorough) matrices of all shapes >= 1x1 up to 10x10 (24x24) and densities incl. zero (plus the all-zero corpus matrices of "
              "defect D1): alist() and alist_no_padding() text compared character by character with the model, parsed back (same dimensions and ones) and "
              "checked against the prescribed format; parser: the written texts, 2 mutations of each (token deletion/duplication, index +- nrows, truncation at "
              "a line, non-numeric / '+3' / overflow-length / Arabic-digit tokens, tab / NBSP / CR / EM-space separators) and 1500 (30000) token soups; outcomes "
              "ok(matrix with both adjacency lists in order) / err / panic compared with the model; predicate: never a panic; non-trivial = non-zero matrix / any "
              "parser input; distinct = distinct canonical input"),
        assumptions=COMMON_ASSUME,
        partial=[],
    ),
    "C02": dict(
        level="proof",
        trusted_base=[KERNEL, CORR,
                      "modelled, not verified: Array2<GF2> as List (List Bool) (xor / and; division by a non-zero element is the identity), ndarray slicing / "
                      "dot / concatenate by their index laws; the Gauss-Jordan loops of linalg.rs are mirrored loop for loop including the partial-row updates"],
        rule=("3000 (40000 thorough) matrices with 1 <= r <= n, r <= 12 (60), n <= 24 (90) from 8 families (staircase, near-staircase with one entry toggled in "
              "the parity part, dense, square dense, singular tail: zero / duplicate / dependent column, pivots at the far right, rank-deficient rows, sparse "
              "with zero and duplicate columns; every 20th matrix has a single row); ALL messages for k <= 3, else 3 random triples (m1, m2, m1 xor m2); compared "
              "exactly: Ok/Err/panic, encoder kind parsed from the Debug text (Staircase / DenseGenerator), every codeword; predicate on the implementation output: "
              "prefix = message, H c = 0, linearity on the triples, Err <=> independent GF(2) rank of the tail < r; non-trivial = k >= 1 or the build fails; "
              "distinct = distinct canonical input"),
        assumptions=COMMON_ASSUME,
        partial=[],
    ),
    "C09": dict(
        level="proof",
        trusted_base=[KERNEL, CORR,
                      "modelled, not verified: Array2<GF2> as List (List Bool); row_echelon_form mirrored loop for loop (partial-row updates, fuel = number of "
                      "columns); the column-placement loop with both assertions as explicit panic branches; SparseMatrix as in C17"],
        rule=("the repaired-defect corpus (D3: pivots after all free columns; square identity) plus 4000 (60000 thorough) matrices with 1 <= r <= n, r <= 10 (40), "
              "n <= 20 (70) from 8 families (full rank, rank deficient, square, zero / duplicate columns, pivots at the far right, staircase, near-staircase, "
              "singular tail); compared exactly: Ok(matrix with both adjacency lists in order) / NotFullRank / panic and whether Encoder::from_h accepts the result; "
              "predicate on the implementation output: Err <=> independent GF(2) rank < r, multiset of columns preserved, rank of the last r columns = r, encoder "
              "accepts; non-trivial = at least 2 rows; distinct = distinct canonical input"),
        assumptions=COMMON_ASSUME,
        partial=[],
    ),
    "C11": dict(
        level="proof",
        trusted_base=[KERNEL, CORR,
                      "modelled, not verified: VecDeque as List with push at the back; the queue loops take fuel nrows+ncols+1 (proved sufficient); "
                      "usize::MAX as 2(nrows+ncols)+2 (larger than any path length); the branch labels of the repaired local_girth (defect D5)"],
        rule=("the D5 corpus plus 400 (6000 thorough) graphs up to 12x12 (20x20) from 10 families (forest, unicyclic with pendant paths/trees, dense, disconnected, "
              "theta with pendant, sparse random, pendant path on a 4-cycle, root cycle with short cycles on its arms, two clusters joined through the root and one cross edge, two arms each ending in a 4-cycle joined at the far corners; half of all graphs rebuilt with a random insertion order); for EVERY root (all row and column nodes) and a bound drawn from {0..14, even 2..12, "
              "unbounded}: bfs() distance vectors, girth_at_node[_with_max], girth[_with_max] compared exactly with the model and, as property predicate, with an "
              "independent oracle (level-synchronous BFS; shortest cycle through r = min over edges (r,a) of 1 + dist(a,r) without that edge); non-trivial = at "
              "least 2 edges; distinct = distinct canonical input"),
        assumptions=COMMON_ASSUME,
        partial=[],
    ),
    "C06": dict(
        level="proof",
        exhaustive=True,
        tables="dvbs2",
        native_decide_theorems=["no_four_cycles_native", "girth_R1_2"],
        harness_timeout=3600, model_timeout=3600,
        trusted_base=[KERNEL + "; PLUS for the theorems no_four_cycles_native and girth_R1_2 (which cites it) the axiom introduced by `native_decide` "
                      "(`no_four_cycles_native._native.native_decide.ax_*`): the Lean compiler, IR interpreter and runtime are trusted for the evaluation of the "
                      "4-cycle test on the 21 expanded matrices (kernel evaluation is infeasible at that size)", CORR,
                      "the standards documents are not available offline: the 'standard' side is the pinned table file lean/LdpcV/Spec/Dvbs2Tables.lean (generated by "
                      "checklib/gen_tables.py from the repaired source and committed) plus (n, k) from Tables 5a/5b, q from Tables 7a/7b and the column-degree "
                      "profiles, written into lean/LdpcV/Spec/CodesSpec.lean from memory of ETSI EN 302 307-1; the pins are cross-checked by structure (rows x 360 = k, "
                      "addresses < n-k, distinct per row, degree profiles, 4-cycle freedom); a transcription error surviving all of those would be trusted"],
        rule=("EXHAUSTIVE over the 21 code identifiers (enum_iterator::all): Code::h() of every variant is dumped (dimensions, every column list and every row "
              "list in insertion order, ~32 MB) and compared entry by entry with the model matrix built from the pinned tables; the structural predicates "
              "(standard n and k, quasi-cyclic law, dual-diagonal parity part, index range, 4-cycle freedom) are re-evaluated on the DUMPED matrix; in addition the "
              "table text is regenerated from the current source and diffed against the pinned file; Encoder::from_h must take the Staircase branch and encode 3 "
              "random messages to codewords (reported in harness_extra together with girth_with_max(6) of the rate 1/2 code); non-trivial = every code; distinct = 21"),
        assumptions=COMMON_ASSUME,
        partial=[],
    ),
    "C07": dict(
        level="proof",
        exhaustive=True,
        tables="ccsds",
        native_decide_theorems=["ar4ja_profile_native", "ar4ja_tail_rank_native", "c2_facts_native", "ar4ja_r12_k1024_no_four_cycles_native",
                                "ar4ja_profile_big_native", "ar4ja_tail_rank_big_native",
                                # cite c2_facts_native / ar4ja_r12_k1024_no_four_cycles_native (no native_decide of their own)
                                "c2_girth_six", "ar4ja_r12_k1024_girth_six",
                                # cites ar4ja_tail_rank_native
                                "ar4ja_encoder_accepts"],
        extra_lean_targets=["LdpcV.Props.C07Rank", "LdpcV.Props.C07Girth", "LdpcV.Props.C07Enc"],
        extra_prop_files=["LdpcV/Props/C07Rank.lean", "LdpcV/Props/C07Girth.lean", "LdpcV/Props/C07Enc.lean"],
        extra_lean_targets_thorough=["LdpcV.Props.C07Big"],
        extra_prop_files_thorough=["LdpcV/Props/C07Big.lean"],
        harness_timeout=7200, model_timeout=7200,
        trusted_base=[KERNEL + "; PLUS for the six theorems named *_native the axiom introduced by `native_decide` (`<theorem>._native.native_decide.ax_*`): the Lean "
                      "compiler, IR interpreter and runtime are trusted for the evaluation of degree profiles, GF(2) ranks (up to 24576 x 24576 in the thorough tier) "
                      "and 4-cycle tests on the expanded matrices (kernel evaluation is infeasible: 1022 x 8176 rank did not finish in 15 min with decide +kernel)", CORR,
                      "the Blue Book is not available offline: the 'standard' side is the pinned table file lean/LdpcV/Spec/CcsdsTables.lean (theta, phi, M table, C2 "
                      "circulants; generated by checklib/gen_tables.py from the source and committed) plus the M values of Table 7-2 and the AR4JA protograph degrees "
                      "(extra blocks 4; base blocks 2,3,1,3 and the punctured block 6) written into the spec from memory; cross-checked by structure "
                      "(permutation property of every pi_k, degree profile, invertible tail, C2 weights / rank 1020 / 4-cycle freedom)",
                      "C2 'rank exactly 1020' is `rankBits = 1020`; that rankBits IS the GF(2) rank (an independent spanning family of that size exists and no independent "
                      "sub-family of the rows is larger) is proved in C07Rank"],
        rule=("EXHAUSTIVE over the codes: the six AR4JA codes with k <= 4096 and C2 in the quick tier, all nine AR4JA codes in the thorough tier: AR4JACode::new(rate,k).h() "
              "and C2Code::new().h() are dumped (every row list in insertion order, every column as a sorted set) and compared entry by entry with the model built "
              "from the pinned tables (toggle cancellation modelled); structural predicates re-evaluated on the dumped matrix (3M x (k+3M) with the Blue Book M, "
              "protograph block-column degrees, rank of the last 3M columns = 3M; C2: 1022 x 8176, row weight 32, column weight 4, rank 1020, no 4-cycle); the table "
              "text is regenerated from the current source and diffed against the pinned file; Encoder::from_h on the k = 1024 (thorough: 4096) matrices must succeed "
              "and encode to codewords, girth_with_max(6) of rate 1/2 k=1024 and of C2 is reported (harness_extra); non-trivial = every code; distinct = 7 (10)"),
        assumptions=COMMON_ASSUME,
        partial=["the k = 16384 codes are only in the thorough tier (9 min native evaluation)"],
    ),
    "C14": dict(
        level="proof",
        extra_lean_targets=["LdpcV.Props.C14Round"],
        extra_prop_files=["LdpcV/Props/C14Round.lean"],
        trusted_base=[KERNEL + " (Mathlib real analysis: Real.exp/log/tanh/sqrt/cos/sin)", CORR,
                      "the theorems are about the REAL-NUMBER semantics of the formula text of lean/LdpcV/Model/Modulation.lean (the same generic definitions are "
                      "instantiated at Float for the comparison with Rust); BPSK additionally under the standard model of floating-point arithmetic (C14Round.bpsk_rounded: "
                      "relative error <= 4u/(1-4u), hard decision exact); that IEEE-754 satisfies that model away from overflow / underflow is trusted; the 8PSK "
                      "demodulator's rounding (exp / ln_1p) is not bounded by any theorem"],
        rule=("modulators: all 8 bit triples, the empty string and 200 (4000 thorough) random bit strings of length 1-40 incl. lengths not divisible by 3 (documented "
              "panic), symbols compared bit for bit; demodulators: BPSK and 8PSK on a grid (|re|,|im| <= 6, step 0.5) x 9 noise levels in [0.05, 10] and 6000 "
              "(200000) random points with log-uniform sigma: Rust vs the Float instance of the generic model and vs a direct stabilised log-sum-exp evaluation of "
              "the posterior log-ratio the property states (1e-9 relative + 1e-12 / 1e-9 absolute); every BPSK output additionally against the exact value -2r/sigma^2 "
              "within the PROVED bound of four roundings, decided in exact integer arithmetic; noiseless hard decisions of modulated random strings; "
              "non-trivial = every demodulator case, modulator strings of >= 3 bits; distinct = distinct canonical input"),
        assumptions=COMMON_ASSUME,
        partial=["IEEE rounding: BPSK is bounded by a theorem under the standard model (C14Round) and the bound is DECIDED EXACTLY (integer arithmetic on the f64 bit "
                 "patterns, u = 2^-53) on every BPSK output of the implementation; 8PSK rounding is covered only by the numeric comparison"],
    ),
    "C12": dict(
        level="proof",
        search_seeds=3,
        extra_lean_targets=["LdpcV.Props.C12Round"],
        extra_prop_files=["LdpcV/Props/C12Round.lean"],
        trusted_base=[KERNEL + " (Mathlib real analysis)", CORR,
                      "the chain theorem is about the REAL-NUMBER semantics of lean/LdpcV/Model/Chain.lean (composition of the C15 block re-orderings and the C14 "
                      "modulators / demodulators); the implementation is observed through an injected DecoderFactory whose decoder records every LLR vector it is handed",
                      "NOT modelled / only observed statistically: rand_distr::Normal, the ChaCha/thread RNG, independence and Gaussianity of the noise samples",
                      "C12Round: the standard model of floating-point arithmetic (FpModel hypotheses: relative error u per operation, e per exp / ln) for the noise level"],
        rule=("chain: 3 (5 thorough) encodable matrices (4x12, 6x18, 12x24, ...) x every fitting puncturing pattern of length 2,3,4,6 with one removed block (tail / middle / "
              "systematic) or none x BPSK / 8PSK x interleaver {none, +-2, +-3, +-4} that fits, at Eb/N0 = 60 dB: Ber::{n, n_cw, k, rate} compared exactly with the "
              "model (plus a bookkeeping sweep over n_cw <= 72, every pattern length <= 12 dividing it and every number of kept blocks) and up to 24 recorded LLR vectors per configuration judged: length n_cw, exact zeros exactly at the punctured positions, the signs complete to "
              "a codeword of H (punctured bits solved by enumeration) and equal the sign pattern of the generic chain model for that codeword; noise: BPSK at 12 / "
              "15 dB with and without puncturing, >= 1.6e5 (1.6e6) noise samples recovered from the LLRs with the MODEL's sigma: mean, variance, lag-1 correlation "
              "within 6 standard errors of 0, sigma^2, 0; LLR scale: for every chain configuration (BPSK and 8PSK) the first LLR vector at 60 dB is compared value by value "
              "(4 %) with the noiseless chain model evaluated with sigma = sqrt(0.5 / (rate_after_puncturing * bits_per_symbol * Eb/N0)) (a 0.5 dB error in sigma^2 is "
              "detected); AWGN channel directly: AwgnChannel::add_noise on 2e5 (2e6) complex and real non-zero symbols for sigma in {0.05, 0.7, 3}: mean, variance, "
              "lag-1 covariance, 4th central moment (3 sigma^4) of Re, Im and the real channel, Re/Im covariance, Im(j)/Re(j+1) covariance, all within 6 standard "
              "errors; non-trivial = a configuration with puncturing or interleaving; distinct = distinct configuration"),
        assumptions=COMMON_ASSUME,
        partial=["noise distribution: Gaussianity and independence are statistical observations (moments up to order 4, lag-1 and Re/Im covariances within 6 s.e.), "
                 "not established by any theorem; rand_distr::Normal and the ChaCha generator are trusted",
                 "IEEE rounding: sigma(Eb/N0, rate, bits/symbol), the BPSK LLR and the 8PSK LLRs are bounded by theorems under the standard model of floating-point "
                 "arithmetic (C12Round.sigma_rounded, C14Round); that IEEE-754 satisfies that model away from overflow / underflow is trusted"],
    ),
    "C13": dict(
        level="proof",
        extra_lean_targets=["LdpcV.Props.C13Proto"],
        extra_prop_files=["LdpcV/Props/C13Proto.lean"],
        harness_timeout=3600,
        trusted_base=[KERNEL, CORR,
                      "statistics: the accumulator lean/LdpcV/Model/BerStats.lean mirrors the body of the consumption loop of do_run; the consumed sequence is "
                      "reconstructed from the zero-interval Reporter stream (one Statistics per consumed result) using a scripted injected decoder whose frames carry a "
                      "unique id in their iteration count",
                      "protocol: lean/LdpcV/Model/BerProto.lean is a hand-written labelled transition system of the collector / worker protocol (std::sync::mpsc and "
                      "thread scheduling are NOT modelled beyond it); it is tied to the code only through observable behaviour (worker counts, Finished last, failure "
                      "injection outcomes, watchdog)",
                      "liveness ('eventually done') needs scheduler fairness and is not proved: deadlock-freedom + all-joined + error propagation are"],
        rule=("worker counts {1, 2, 16} (1..16 thorough) set through sched_setaffinity (the number of built decoders is checked to be workers x points) x error targets "
              "{1, 3, 20} x outer-code threshold {none, 1, 2} x 2 (10) repetitions with random modulation / puncturing / interleaving, 2 Eb/N0 points, scripted decoder "
              "with seeded random delays 0-300 us: EVERY intermediate and final Statistics (integers exactly, the four ratios bit for bit) is replayed through the "
              "model accumulator; checked: frames are whole scripted frames, each consumed at most once, no frame after the target was reached, the point stops "
              "exactly at the target, reports ordered by point, Finished is last and unique, returned statistics = last report; failure injection (puncturer error, "
              "interleaver panic, modulator panic, decoder panic in every / every 2nd / every 3rd worker) at 1, 4, 16 workers under a 20 s watchdog: run() must return "
              "Err; non-trivial = target >= 3; distinct = distinct (configuration, reported stream)"),
        assumptions=COMMON_ASSUME,
        partial=["real OS scheduling is sampled (randomised delays), not enumerated; liveness under fairness is not proved"],
    ),
    "C16": dict(
        level="proof",
        extra_lean_targets=["LdpcV.Props.C16V"],
        extra_prop_files=["LdpcV/Props/C16V.lean"],
        trusted_base=[KERNEL, CORR,
                      "the pseudorandom generator (ChaCha8, rand's choose / choose_multiple) is NOT modelled: lean/LdpcV/Model/Constructions.lean takes the sequence of "
                      "random picks as an argument and rejects picks the Rust selection rule could not have produced; theorems quantify over every pick sequence. "
                      "There is therefore no model output to compare with: the tie is that the executable validators (mnAccepts / pegAccepts: 'this matrix is the "
                      "outcome of some run of the modelled algorithm', replaying the per-column insertion order visible through iter_col) and the promised properties "
                      "are evaluated on every matrix the implementation returns",
                      "observed only: same (configuration, seed) gives the same matrix (re-run in a fresh thread), different seeds differ, Config::search under the rayon "
                      "global pool returns a seed in range with run(seed)'s matrix / None only if all seeds fail"],
        rule=("400 (6000 thorough) MacKay-Neal configurations x seeds (rows <= 12/30, cols <= 24/60, wc 1-4, wr tight to roomy, both fill policies, min girth none/4/6/8, "
              "backtracking on/off) and 300 (4000) PEG configurations (rows <= 10/30, cols <= 20/60, wc 1-5 incl. wc > rows): every Ok matrix must satisfy mnProps / "
              "pegProps and be accepted by mnAccepts / pegAccepts, and be reproduced by a second run in a fresh thread; 16 seeds on roomy configurations must give "
              ">= 2 distinct matrices; 60 (600) Config::search calls (ranges of 1-64 seeds): result in range and equal to run(seed), None only if every seed fails; "
              "non-trivial = an Ok construction; distinct = distinct (configuration, seed)"),
        assumptions=COMMON_ASSUME,
        partial=["RNG reproducibility, 'different seeds explore different choices' and the rayon seed search are observed, not proved",
                 "Err outcomes cannot be replayed without the choice trace",
                 "validators vs models (C16V): completeness proved for both (every model run, whatever the picks, backtracking and girth retries, is accepted); soundness "
                 "proved as `_partial` with exactly the missing hypothesis (PEG: not the degenerate 0-row case; MacKay-Neal: row lists increasing - the validator ignores "
                 "adjacency order), the two original statements are kept as NOT-A-THEOREM with their counterexamples"],
    ),
    "C19": dict(
        level="proof",
        extra_lean_targets=["LdpcV.Props.C19H"],
        extra_prop_files=["LdpcV/Props/C19H.lean"],
        trusted_base=[KERNEL, CORR,
                      "modelled: the wrapper logic only (lean/LdpcV/Model/Capi.lean: pattern parsing, constructor error mapping, depuncture -> decode -> prefix copy -> "
                      "iterations / -1, encode -> puncture -> exact-length copy), on top of the models of C08 (alist), C18 (names), C15 (puncturer), C02 (encoder) and "
                      "the decoders; NOT modelled: memory safety of the unsafe shims, CStr / lossy UTF-8 decoding, file reading, slice construction from raw pointers",
                      "independence of repeated calls on one handle is C10's theorem (the handle owns one decoder object); here it is observed on call sequences",
                      "an alist with more rows than columns makes Encoder::from_h panic (abort across the FFI boundary); the stated constructor contract does not list "
                      "that case and the check does not judge it (see DESIGN.md)"],
        rule=("through extern \"C\" declarations of the exported ldpc_toolbox_* symbols: constructors on 7 alist texts (valid padded / unpadded, row index out of range = "
              "repaired defect D2, truncated, empty, non-numeric, singular tail) x 7 implementation strings x 10 pattern strings, via string and via file, each in a "
              "forked child so that an abort is an observable outcome, plus unreadable file paths; decode: all 36 names x 12 (300 thorough) (matrix, pattern, output "
              "length, f64/f32, 1-5 calls on one handle) compared with the Rust LdpcDecoder on the depunctured LLRs and, for the 20 8-bit names, with the exact "
              "model; encode: 300 (6000) encodable matrices x patterns x messages with bytes other than 0/1, compared with Rust Encoder + Puncturer and the model; "
              "non-trivial = every constructor case, decode sequences of >= 2 calls, k >= 1; distinct = distinct canonical input"),
        assumptions=COMMON_ASSUME,
        partial=["memory safety of the unsafe shims and process-level behaviour (abort on panic across FFI) are observed only"],
    ),
    "C20": dict(
        level="proof",
        search_seeds=2,
        needs_binary=True,
        harness_timeout=3600,
        trusted_base=[KERNEL, CORR,
                      "modelled: the logic only (lean/LdpcV/Model/Cli.lean: the two argument tables, the framing of `encode`, the Eb/N0 list); NOT modelled: clap "
                      "parsing, file I/O, process exit status, terminal output — those are observed on the binary built from /repo's working tree "
                      "(cargo build --release into harness/target/repo) and run as a subprocess",
                      "the matrices printed by the code-generation subcommands are compared with the LIBRARY's alist() of the same code (itself tied to the models by "
                      "C06 / C07 / C08), not re-derived from the model"],
        rule=("the built binary as a subprocess: dvbs2: every (rate, --short) pair of the table in the thorough tier (quick: the 10 short codes, 2 normal codes) plus "
              "invalid rate strings, stdout identified among the library alists of the 21 codes; ccsds: 5 rate strings x 5 block sizes (k = 16384 thorough), ccsds-c2; "
              "--girth for DVB-S2 1/2 normal and CCSDS 1/2 1024 (must print 'Code girth = 6'); systematic on 30 (300) alist files (stdout = library result, "
              "rank-deficient ones must fail cleanly); peg / mackay-neal on 20 (200) configurations (stdout = run(seed).alist()); encode on 60 (600) (matrix, pattern, "
              "0-4 whole words + partial word, bytes other than 0/1) compared byte for byte with the model framing; 12 invalid inputs (missing files, the D2 alist, "
              "junk, bad / non-dividing patterns, unknown decoder, bad block size): non-zero exit, message on stderr, no 'panicked at'; ber: 4 Eb/N0 grids, one result "
              "line per point with frame errors = target, BER = bit errors /(k frames), FER = errors / frames to printed precision; non-trivial = every case; "
              "distinct = distinct canonical input"),
        assumptions=COMMON_ASSUME,
        partial=["exit status, stderr text and file I/O are observed only; the ber result-line rule of Progress::work is checked on the output file, not modelled"],
    ),
}

# ---------------------------------------------------------------------------------------------------------------------------------
# Generator families added after the seeded rounds and the coverage report (DESIGN.md 5.1-5.3); appended to the rule texts above.
_ADDED = {
    "C01": "matrix families also include more rows than columns and matrices built by insert_row / insert_col from index lists with repeated entries; "
           "the dumped matrix object must be a set of positions (consistent, duplicate-free adjacency lists); a panic of a float implementation is counted, not judged",
    "C02": "a third of the matrices are rebuilt with their ones inserted in random order; staircase codes with 250-700 systematic bits on one check and dense messages; "
           "near-staircase matrices with a moved one (same number of ones); messages passed as owned arrays, reversed (stride -1) views and strided views",
    "C03": "a quarter of the converging trace cases decoded again with limit usize::MAX; forests with erasures (exact-zero LLRs); the robustness margin looks at computed LLRs only",
    "C04": "arithmetic objects built alternately with new() and Default::default(); the predicate also evaluates the proved tracking bound against the real rule (C04Track)",
    "C05": "a quarter of the float layered updates with exact magnitude ties, exact-zero and negative-zero extrinsic values",
    "C06": "codes with equal n - k generated right after each other (both orders); one judged line per code: Encoder::from_h (in a forked child with a CPU-time alarm) must return the Staircase encoder and encode to codewords; girth_with_max(6) of rate 1/2 must be 6",
    "C07": "judged lines: Encoder::from_h accepts every k <= 4096 (quick: 1024) matrix and encodes to codewords; girth_with_max(6) = 6 for C2 and rate 1/2 k = 1024",
    "C08": "alist mutations that respell numbers (leading '+', leading zeros) and repeat a token at a non-adjacent position",
    "C09": "random insertion orders (shared generator with C02); 60 (600) matrices with more rows than columns (ParityOverdetermined branch)",
    "C10": "matrix families as in C01; reused-and-fresh both panicking counts as agreement",
    "C11": "bounds also 2^32 + small and usize::MAX - small",
    "C12": "runs with three Eb/N0 points (the last frame must have the last point's LLR scale); interleaver settings +-n (n = frame length) and +-1; count of bit-identical LLR frames among all frames handed to the decoders; AWGN sample count not a multiple of 8 "
           "and a count of samples that received exactly zero noise",
    "C13": "half of the runs with an undelayed scripted decoder (workers outrun the collector); half of the failure-injection runs attach a reporter and require exactly one final Finished report; sequential single-worker single-point runs replayed in id order "
           "with small iteration counts and zero-iteration frames (also with wrong bits)",
    "C14": "BPSK with sigma in [1e-4, 1e4] and |r| in [1e-6, 1e6]; modulators called on owned arrays, reversed and strided views; 8PSK samples very close to the origin / far away "
           "at sigma in [1e-5, 10] (tolerance floor = rounding of the squared distances times 1/sigma^2)",
    "C15": "one Interleaver object (and a clone) used on blocks of other lengths first; puncture / interleave on reversed and strided views",
    "C16": "odd girth requests (3, 5, 7); infeasible configurations (wr * nrows < wc * ncols), for which C16V.mn_infeasible_never_succeeds proves that no run succeeds",
    "C17": "bulk operations through lazy iterator adaptors for lists of odd length; matrices with 262145+ rows judged by membership / weight queries; every 15th history in a tall (66-100 x 2-6) or wide matrix starting with a full column / row",
    "C19": "constructor arguments with invalid UTF-8 bytes; constructor patterns '01,1,0', '1,1,00', '+1,1,0', ...; names with non-ASCII bytes (NBSP, BOM, full-width digit); an alist file with an invalid UTF-8 byte in a line the "
           "parser ignores; the Rust reference decoder runs first and a call sequence ends when it panics; predicates: constructor accepts a malformed pattern / an unknown name",
    "C20": "encode on code lengths that are multiples of 7, 9, 11 with patterns up to length 14; invalid block sizes 1025, 4097, 17000; mackay-neal with every option on tight shapes (backtracking and girth retries really happen; --search compared by re-running the reported seed); peg --girth; "
           "ber with puncturing + interleaving + 8PSK (detail lines) and with the outer code (main file vs LDPC-only file, strictly more errors per line); ccsds k = 16384 for rate 4/5 "
           "in the quick tier; invalid inputs: patterns '01,1,1,0', '+1,...', '1,1,1,00', trailing comma, empty string; alist with a row index between nrows + 1 and ncols",
}
for _k, _v in _ADDED.items():
    PROPS[_k]["rule"] = PROPS[_k]["rule"] + "; ADDED LATER: " + _v
