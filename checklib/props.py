"""Per-property configuration of ./check (levels, trusted base, rules, partial clauses)."""

KERNEL = "Lean 4.33.0 kernel (type-checks every proof term); axioms propext, Classical.choice, Quot.sound only unless listed"
CORR = ("correspondence check: Rust harness /verif/harness (calls the real code in-process, catch_unwind as panic observer, "
        "dev profile with overflow-checks and debug-assertions ON), canonical printers on both sides, executable Lean model "
        "`vmodel` compiled from the same definitions the theorems are about; coverage is sampling except where marked exhaustive")
COMMON_ASSUME = [
    "the theorems are about the hand-written Lean model; the tie to /repo is the differential correspondence run on every check",
    "harness build (opt-level 2, overflow checks on) and the release build execute the same source semantics",
]

PROPS = {
    "C17": dict(
        level="proof",
        shrinkable=3,
        trusted_base=[KERNEL, CORR,
                      "modelled, not verified: Vec<Vec<usize>> as List (List Nat); usize as unbounded Nat (sizes far below 2^64); "
                      "an indexing panic as `none`"],
        rule=("editing histories of 1-60 operations (all 9 mutators, ~30 % redundant single-entry edits, 2 % of histories end in an "
              "out-of-range operation) on shapes up to 8x8 (14x14 thorough); after EVERY operation the full observable state (row lists, "
              "column lists in order, contains-grid, weights, iter_all, == with the previous state) is compared with the model and "
              "judged against the set specification; non-trivial = at least two operations changed the matrix; distinct = distinct "
              "canonical history text"),
        assumptions=COMMON_ASSUME,
        partial=[],
    ),
    "C15": dict(
        level="proof",
        trusted_base=[KERNEL, CORR,
                      "modelled, not verified: ndarray reshape/transpose/invert_axis/assign replaced by their index laws; "
                      "Array1/Vec as List; the uninitialised output buffer of puncture() (unsafe assume_init) is not modelled"],
        rule=("interleaver: every shape C,R <= 8 (12 thorough) x both read directions with index-valued vectors (exhaustive), plus random "
              "shapes up to 40x40 over i64/f64/GF2/u8 elements incl. indivisible lengths and C = 0; puncturer: every pattern of length <= 6 "
              "(9 thorough, incl. empty and all-false) x block sizes 0..5 for puncture, depuncture and rate (exhaustive), plus random "
              "patterns up to length 12 with divisible and indivisible lengths; non-trivial = a genuine permutation (C,R > 1) / a pattern "
              "with both kept and removed blocks and non-empty blocks; distinct = distinct canonical input"),
        assumptions=COMMON_ASSUME,
        partial=[],
    ),
}
