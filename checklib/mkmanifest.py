#!/usr/bin/env python3
"""Regenerates /verif/MANIFEST.json from checklib/props.py (claimed checks) — run after editing props.py."""
import json, os, sys
ROOT = os.path.dirname(os.path.dirname(os.path.abspath(__file__)))
sys.path.insert(0, os.path.join(ROOT, "checklib"))
from props import PROPS
ALL = ["C%02d" % i for i in range(1, 21)]
checks = []
for pid in ALL:
    if pid not in PROPS or PROPS[pid].get('disabled'):
        continue
    c = PROPS[pid]
    checks.append({
        "property_id": pid,
        "quick_cmd": f"./check {pid} --tier quick",
        "thorough_cmd": f"./check {pid} --tier thorough",
        "evidence_file": f"evidence/{pid}.json",
        "replay_cmd_template": f"./check {pid} --replay {{path}}",
        "engine": "lean4-proof+correspondence",
        "level_claimed": {
            "category": c["level"],
            "text": c.get("level_text", ""),
            "design_ref": c.get("design_ref", "DESIGN.md §4 " + pid),
        },
        "level_note": c.get("level_note", "Trusted: " + "; ".join(c["trusted_base"])),
        "technique": c.get("technique", "Lean 4 theorems about an executable model + differential correspondence model vs implementation"),
    })
na = [{"property_id": pid, "reason": "not yet claimed in this revision: its model/theorems/correspondence are still being built (see DESIGN.md §6); no check is registered rather than registering an unsound one"}
      for pid in ALL if pid not in PROPS or PROPS[pid].get('disabled')]
m = {
    "version": 1,
    "setup_cmd": "./setup.sh",
    "hooks": {
        "guard": "ldpc_toolbox_verif",
        "enable": "none needed: every observation goes through public API (no source hooks); checks build /repo as a path dependency of /verif/harness",
        "baseline_off_cmd": "cd /repo && cargo test --offline --no-fail-fast",
        "source_commits": [],
        "add_only": True,
    },
    "engines": [
        {"name": "lean4-proof+correspondence", "path": "lean/ harness/ check",
         "serves_properties": [c["property_id"] for c in checks],
         "kind_free_text": "Lean 4 (kernel-checked theorems about a hand-written executable model) + Rust differential harness tying the model to /repo on every run"}
    ],
    "checks": checks,
    "not_applicable": na,
    "notes": "See DESIGN.md. known_findings.txt records the eight defects found and repaired with fix: commits in /repo.",
}
json.dump(m, open(os.path.join(ROOT, "MANIFEST.json"), "w"), indent=1)
print("MANIFEST.json:", len(checks), "checks,", len(na), "not yet claimed")
