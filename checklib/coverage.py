#!/usr/bin/env python3
"""
coverage.py [--tier quick|thorough]  — how much of /repo's source the correspondence runs actually execute.

A diagnostic, not a check: it measures the reach of the generators behind the tie between the Lean model and the code
(the brief's "generator quality bounds what it sees").  It
  1. builds the harness and /repo's command-line binary with `-C instrument-coverage` (nightly toolchain, offline) into
     harness/target/cov*,
  2. runs every property's harness once (same seed and tier as the checks) with LLVM_PROFILE_FILE set,
  3. merges the profiles per property and overall, and
  4. writes coverage/REPORT.md: line coverage of every file of /repo/src per property (its anchored files marked) and
     overall, and the list of library lines no property run executes.
Macro-generated code (decoder arithmetics) is counted once per source line over all expansions.
"""
import json, os, subprocess, sys, glob, shutil

ROOT = os.path.dirname(os.path.dirname(os.path.abspath(__file__)))
TOOLBIN = None
for tc in sorted(glob.glob(os.path.expanduser("~/.rustup/toolchains/nightly-x86_64*/lib/rustlib/x86_64-unknown-linux-gnu/bin"))):
    if os.path.exists(os.path.join(tc, "llvm-profdata")):
        TOOLBIN = tc
# build scripts and proc macros are instrumented too and would drop default_*.profraw into their package directory (/repo!): send those to the scratch dir
ENV = dict(os.environ, CARGO_NET_OFFLINE="true", RUSTFLAGS="-C instrument-coverage",
           LLVM_PROFILE_FILE=os.path.join(ROOT, "harness", "target", "cov", "build-%p-%m.profraw"))


def sh(cmd, **kw):
    return subprocess.run(cmd, stdout=subprocess.PIPE, stderr=subprocess.STDOUT, text=True, **kw)


def main():
    tier = "quick"
    if "--tier" in sys.argv:
        tier = sys.argv[sys.argv.index("--tier") + 1]
    if TOOLBIN is None:
        print("no nightly llvm-tools found; coverage not available"); return 2
    cov = os.path.join(ROOT, "harness", "target", "cov")
    prof = os.path.join(cov, "prof")
    shutil.rmtree(prof, ignore_errors=True)
    os.makedirs(prof, exist_ok=True)
    p = sh(["cargo", "+nightly", "build", "--offline", "--target-dir", cov], cwd=os.path.join(ROOT, "harness"), env=ENV)
    if p.returncode != 0:
        print(p.stdout[-3000:]); return 2
    p = sh(["cargo", "+nightly", "build", "--release", "--offline", "--manifest-path", "/repo/Cargo.toml", "--bin", "ldpc-toolbox",
            "--target-dir", os.path.join(cov, "repo")], env=ENV)
    if p.returncode != 0:
        print(p.stdout[-3000:]); return 2
    vh = os.path.join(cov, "debug", "vh")
    cli = os.path.join(cov, "repo", "release", "ldpc-toolbox")
    props = [json.loads(l) for l in open(os.path.join(ROOT, "properties.jsonl"))]
    srcs = sorted(glob.glob("/repo/src/**/*.rs", recursive=True))
    per = {}
    for pr in props:
        pid = pr["id"]
        env = dict(os.environ, LLVM_PROFILE_FILE=os.path.join(prof, f"{pid}-%p-%m.profraw"), VERIF_BIN=cli)
        r = subprocess.run([vh, pid.lower(), "--seed", "1", "--tier", tier, "--out", os.path.join(prof, pid + ".cases"),
                            "--stats", os.path.join(prof, pid + ".json")], env=env, stdout=subprocess.DEVNULL, stderr=subprocess.DEVNULL)
        raws = glob.glob(os.path.join(prof, f"{pid}-*.profraw"))
        pd = os.path.join(prof, pid + ".profdata")
        sh([os.path.join(TOOLBIN, "llvm-profdata"), "merge", "-sparse", "-o", pd] + raws)
        per[pid] = (pd, r.returncode)
        print(pid, "harness exit", r.returncode, len(raws), "profiles", flush=True)
    allpd = os.path.join(prof, "all.profdata")
    sh([os.path.join(TOOLBIN, "llvm-profdata"), "merge", "-sparse", "-o", allpd] + [v[0] for v in per.values()])

    def summary(pd):
        cmd = [os.path.join(TOOLBIN, "llvm-cov"), "export", "-summary-only", "-instr-profile", pd, vh, "-object", cli]
        for s in srcs:
            cmd += ["--sources", s]
        out = subprocess.run(cmd, stdout=subprocess.PIPE, stderr=subprocess.DEVNULL, text=True).stdout
        res = {}
        try:
            for f in json.loads(out)["data"][0]["files"]:
                res[f["filename"].replace("/repo/", "")] = (f["summary"]["lines"]["covered"], f["summary"]["lines"]["count"])
        except Exception as e:
            print("llvm-cov export failed", e)
        return res

    def uncovered(pd, f):
        cmd = [os.path.join(TOOLBIN, "llvm-cov"), "show", "-instr-profile", pd, vh, "-object", cli, "--sources", "/repo/" + f]
        out = subprocess.run(cmd, stdout=subprocess.PIPE, stderr=subprocess.DEVNULL, text=True).stdout
        lines = []
        for l in out.splitlines():
            parts = l.split("|", 2)
            if len(parts) == 3 and parts[0].strip().isdigit() and parts[1].strip() == "0":
                lines.append((int(parts[0]), parts[2].rstrip()))
        return lines

    tot = summary(allpd)
    os.makedirs(os.path.join(ROOT, "coverage"), exist_ok=True)
    with open(os.path.join(ROOT, "coverage", "REPORT.md"), "w") as f:
        f.write(f"# Source lines of /repo executed by the correspondence runs ({tier} tier, seed 1)\n\n")
        f.write("Generated by `checklib/coverage.py` (instrumented harness + instrumented command-line binary, llvm-cov). A diagnostic of generator reach,\n"
                "not a check; regenerate after changing a generator.\n\n## Overall\n\n| file | lines | executed | % |\n|---|---|---|---|\n")
        c = n = 0
        for k in sorted(tot):
            a, b = tot[k]
            c += a; n += b
            f.write(f"| {k} | {b} | {a} | {100.0 * a / max(b, 1):.1f} |\n")
        f.write(f"| **total** | {n} | {c} | {100.0 * c / max(n, 1):.1f} |\n\n## Per property (anchored files)\n\n| property | anchored file | executed / lines |\n|---|---|---|\n")
        for pr in props:
            s = summary(per[pr["id"]][0])
            anchors = pr.get("anchors", {})
            for fn in (anchors.get("files", []) if isinstance(anchors, dict) else anchors):
                if fn in s:
                    f.write(f"| {pr['id']} | {fn} | {s[fn][0]} / {s[fn][1]} |\n")
        f.write("\n## Lines no correspondence run executes\n\n")
        for k in sorted(tot):
            if tot[k][0] < tot[k][1]:
                u = uncovered(allpd, k)
                if u:
                    f.write(f"### {k}\n\n```\n" + "\n".join(f"{ln:5d}  {tx}" for ln, tx in u[:80]) + "\n```\n\n")
    print(f"coverage/REPORT.md written: {c}/{n} lines = {100.0 * c / max(n, 1):.1f}%")
    return 0


if __name__ == "__main__":
    sys.exit(main())
