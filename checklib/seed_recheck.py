#!/usr/bin/env python3
"""
seed_recheck.py <seed name> <check id> [<check id> ...]
Re-runs checks (quick tier) against an already confirmed seeded change of /verif/seeded/<seed name>: applies its patch to /repo, runs the
checks, undoes the patch, and records the outcome in meta.json under "recheck" (the first results stay under "checks").
Evidence files are preserved (they describe the unchanged tree).
"""
import json, os, subprocess, sys, time
ROOT = os.path.dirname(os.path.dirname(os.path.abspath(__file__)))
ENV = dict(os.environ, CARGO_NET_OFFLINE="true")

def sh(cmd, cwd=None, timeout=7200):
    p = subprocess.run(cmd, cwd=cwd, stdout=subprocess.PIPE, stderr=subprocess.STDOUT, text=True, timeout=timeout, env=ENV)
    return p.returncode, p.stdout

def main():
    name, checks = sys.argv[1], sys.argv[2:]
    d = os.path.join(ROOT, "seeded", name)
    meta = json.load(open(os.path.join(d, "meta.json")))
    rc, out = sh(["git", "status", "--porcelain"], cwd="/repo")
    if out.strip():
        print("/repo is not clean; refusing", out); sys.exit(2)
    res = {}
    try:
        rc, out = sh(["git", "apply", os.path.join(d, "patch.diff")], cwd="/repo")
        if rc != 0:
            print("patch does not apply", out); sys.exit(2)
        for chk in checks:
            evf = os.path.join(ROOT, "evidence", chk + ".json")
            saved = open(evf).read() if os.path.exists(evf) else None
            t0 = time.time()
            rc, out = sh([os.path.join(ROOT, "check"), chk, "--tier", "quick"], cwd=ROOT)
            if saved is not None:
                open(evf, "w").write(saved)
            vio = [l for l in out.splitlines() if l.startswith("VIOLATION") or l.startswith("# ")]
            res[chk] = {"exit": rc, "lines": vio[:6], "seconds": round(time.time() - t0)}
            for l in vio:
                if "replay=" in l:
                    rp = os.path.join(ROOT, l.split("replay=")[1].split()[0])
                    if os.path.exists(rp):
                        txt = open(rp).read().splitlines()
                        why = [x for x in txt if x.startswith("# PROPFAIL") or x.startswith("# MISMATCH") or "no longer checks" in x or "differs" in x]
                        res[chk]["why"] = [w[:300] for w in why[:2]]
            print(f"  ./check {chk}: exit {rc} {vio[:2]} {res[chk].get('why', [''])[:1]}", flush=True)
    finally:
        sh(["git", "checkout", "--", "."], cwd="/repo")
    meta.setdefault("recheck", {}).update(res)
    meta["caught_by_after_strengthening"] = sorted(set(meta.get("caught_by", [])) | {c for c, r in meta["recheck"].items() if r["exit"] != 0})
    json.dump(meta, open(os.path.join(d, "meta.json"), "w"), indent=1)
    print(f"{name}: caught_by_after_strengthening={meta['caught_by_after_strengthening']}")

if __name__ == "__main__":
    main()
