#!/usr/bin/env python3
"""
seed_verify.py <property id> <dir with patch.diff, demo.rs, meta.txt> <seed name> [<worktree>]

Confirms a seeded breaking change independently and records it under /verif/seeded/<seed name>/:
  1. in a scratch worktree of /repo (default /tmp/mut/<property id>): the demonstration passes on the unmodified
     code; with the patch: `cargo build` ok, the full existing test suite passes, the demonstration FAILS;
  2. applies the patch to /repo itself (git apply), runs `./check <property>` (quick tier) and every extra check named
     with --also, records exit status and VIOLATION lines, and undoes the patch (git checkout -- .) straight afterwards.
Nothing is ever committed to /repo.
"""
import json, os, shutil, subprocess, sys, time

ROOT = os.path.dirname(os.path.dirname(os.path.abspath(__file__)))
ENV = dict(os.environ, CARGO_NET_OFFLINE="true")


def sh(cmd, cwd=None, timeout=3600):
    p = subprocess.run(cmd, cwd=cwd, stdout=subprocess.PIPE, stderr=subprocess.STDOUT, text=True, timeout=timeout, env=ENV)
    return p.returncode, p.stdout


def main():
    args = sys.argv[1:]
    also = []
    while "--also" in args:
        i = args.index("--also")
        also.append(args[i + 1])
        del args[i:i + 2]
    confirm_only = "--confirm-only" in args
    if confirm_only:
        args.remove("--confirm-only")
    pid, src, name = args[0], args[1], args[2]
    wt = args[3] if len(args) > 3 else f"/tmp/mut/{pid}"
    patch = os.path.join(src, "patch.diff")
    demo = os.path.join(src, "demo.rs")
    meta = {"property": pid, "seed": name, "ran": [], "confirmed": False}
    def note(k, v):
        meta["ran"].append({k: v})
        print(f"  {k}: {v}", flush=True)
    # ---- 1. scratch worktree (may have been done in advance, in parallel for many seeds: --confirm-only writes confirm.json)
    cj = os.path.join(src, "confirm.json")
    if os.path.exists(cj) and not confirm_only:
        meta = json.load(open(cj))
        ok = meta["confirmed"]
        print("  (scratch-worktree confirmation taken from confirm.json)", flush=True)
        return finish(meta, ok, pid, also, src, name, patch, demo)
    sh(["git", "checkout", "--", "."], cwd=wt)
    os.makedirs(os.path.join(wt, "tests"), exist_ok=True)
    shutil.copy(demo, os.path.join(wt, "tests", "demo.rs"))
    rc, out = sh(["cargo", "test", "--offline", "--test", "demo"], cwd=wt)
    note("demo on unmodified code", "passes" if rc == 0 else "FAILS")
    ok = rc == 0
    rc, out = sh(["git", "apply", patch], cwd=wt)
    note("patch applies to scratch worktree", rc == 0)
    ok = ok and rc == 0
    rc, out = sh(["cargo", "build", "--offline"], cwd=wt)
    note("cargo build with patch", "ok" if rc == 0 else "FAILS")
    ok = ok and rc == 0
    os.remove(os.path.join(wt, "tests", "demo.rs"))
    rc, out = sh(["cargo", "test", "--offline"], cwd=wt)
    passed = sum(int(x.split(" passed")[0].split()[-1]) for x in out.splitlines() if "test result: ok" in x)
    note("existing test suite with patch", f"exit {rc}, {passed} passed")
    ok = ok and rc == 0
    shutil.copy(demo, os.path.join(wt, "tests", "demo.rs"))
    rc, out = sh(["cargo", "test", "--offline", "--test", "demo"], cwd=wt)
    note("demo with patch", "FAILS (as required)" if rc != 0 else "passes (NOT a demonstration)")
    ok = ok and rc != 0
    os.remove(os.path.join(wt, "tests", "demo.rs"))
    sh(["git", "checkout", "--", "."], cwd=wt)
    meta["confirmed"] = ok
    if confirm_only:
        json.dump(meta, open(cj, "w"), indent=1)
        print(f"{name}: confirmed={ok} (scratch only)")
        return
    return finish(meta, ok, pid, also, src, name, patch, demo)


def finish(meta, ok, pid, also, src, name, patch, demo):
    def note(k, v):
        meta["ran"].append({k: v})
        print(f"  {k}: {v}", flush=True)
    # ---- 2. my checks against /repo with the patch applied
    rc, out = sh(["git", "status", "--porcelain"], cwd="/repo")
    if out.strip():
        print("/repo is not clean; refusing", out); sys.exit(2)
    results = {}
    try:
        rc, out = sh(["git", "apply", patch], cwd="/repo")
        if rc != 0:
            note("patch applies to /repo", False)
        else:
            for chk in [pid] + also:
                t0 = time.time()
                # the evidence files describe the UNCHANGED tree: keep them as they were
                evf = os.path.join(ROOT, "evidence", chk + ".json")
                saved = open(evf).read() if os.path.exists(evf) else None
                rc, out = sh([os.path.join(ROOT, "check"), chk, "--tier", "quick"], cwd=ROOT, timeout=7200)
                if saved is not None:
                    open(evf, "w").write(saved)
                vio = [l for l in out.splitlines() if l.startswith("VIOLATION") or l.startswith("# ")]
                results[chk] = {"exit": rc, "lines": vio[:6], "seconds": round(time.time() - t0)}
                # keep the reason from the replay file
                for l in vio:
                    if "replay=" in l:
                        rp = os.path.join(ROOT, l.split("replay=")[1].split()[0])
                        if os.path.exists(rp):
                            txt = open(rp).read().splitlines()
                            why = [x for x in txt if x.startswith("# PROPFAIL") or x.startswith("# MISMATCH") or "no longer checks" in x or "differs" in x]
                            results[chk]["why"] = [w[:300] for w in why[:2]]
                print(f"  ./check {chk}: exit {rc} {vio[:2]}", flush=True)
    finally:
        sh(["git", "checkout", "--", "."], cwd="/repo")
    meta["checks"] = results
    meta["caught_by"] = [c for c, r in results.items() if r["exit"] != 0]
    # ---- 3. record
    dst = os.path.join(ROOT, "seeded", name)
    os.makedirs(dst, exist_ok=True)
    shutil.copy(patch, os.path.join(dst, "patch.diff"))
    shutil.copy(demo, os.path.join(dst, "demo.rs"))
    mt = os.path.join(src, "meta.txt")
    meta["needs_to_manifest"] = open(mt).read() if os.path.exists(mt) else ""
    json.dump(meta, open(os.path.join(dst, "meta.json"), "w"), indent=1)
    print(f"{name}: confirmed={ok} caught_by={meta['caught_by']}")


if __name__ == "__main__":
    main()
