//! C15: interleaver and puncturer, exhaustive small shapes + sampled larger ones, three element types.
use crate::fmt::*;
use crate::rng::Rng;
use crate::{Ctx, guarded};
use ldpc_toolbox::gf2::GF2;
use ldpc_toolbox::simulation::interleaving::Interleaver;
use ldpc_toolbox::simulation::puncturing::Puncturer;
use ndarray::Array1;
use num_traits::{One, Zero};

fn res(r: Result<Result<Vec<i64>, ()>, String>) -> String {
    match r {
        Ok(Ok(v)) => format!("ok {}", int_list(&v)),
        Ok(Err(())) => "err".to_string(),
        Err(_) => "panic".to_string(),
    }
}

#[derive(Clone, Copy, PartialEq)]
enum Ty {
    I64,
    F64,
    Gf2,
    U8,
}

fn interleave(c: usize, bw: bool, xs: &[i64], ty: Ty) -> String {
    let xs = xs.to_vec();
    res(guarded(move || {
        let il = Interleaver::new(c, bw);
        Ok(match ty {
            Ty::I64 => if xs.len() % 2 == 0 { il.interleave(&Array1::from_vec(xs)).to_vec() } else {
                let rev: Vec<i64> = xs.iter().rev().copied().collect();
                let a = Array1::from_vec(rev);
                il.interleave(&a.slice(ndarray::s![..;-1])).to_vec()
            },
            Ty::U8 => il
                .interleave(&Array1::from_iter(xs.iter().map(|&x| x as u8)))
                .iter()
                .map(|&x| x as i64)
                .collect(),
            Ty::F64 => il
                .interleave(&Array1::from_iter(xs.iter().map(|&x| x as f64)))
                .iter()
                .map(|&x| x as i64)
                .collect(),
            Ty::Gf2 => il
                .interleave(&Array1::from_iter(xs.iter().map(|&x| if x != 0 { GF2::one() } else { GF2::zero() })))
                .iter()
                .map(|x| if x.is_one() { 1 } else { 0 })
                .collect(),
        })
    }))
}

fn deinterleave(c: usize, bw: bool, ys: &[i64], ty: Ty) -> String {
    let ys = ys.to_vec();
    res(guarded(move || {
        let il = Interleaver::new(c, bw);
        Ok(match ty {
            Ty::I64 => il.deinterleave(&ys),
            Ty::U8 => il
                .deinterleave(&ys.iter().map(|&x| x as u8).collect::<Vec<_>>())
                .iter()
                .map(|&x| x as i64)
                .collect(),
            Ty::F64 => il
                .deinterleave(&ys.iter().map(|&x| x as f64).collect::<Vec<_>>())
                .iter()
                .map(|&x| x as i64)
                .collect(),
            Ty::Gf2 => il
                .deinterleave(&ys.iter().map(|&x| if x != 0 { GF2::one() } else { GF2::zero() }).collect::<Vec<_>>())
                .iter()
                .map(|x| if x.is_one() { 1 } else { 0 })
                .collect(),
        })
    }))
}

/// the puncturer under test: built directly, or a clone (of a clone) of a built and already used object —
/// the BER simulation hands `puncturer.clone()` to every worker
fn mk_puncturer(p: &[bool], variant: usize) -> Puncturer {
    let pu = Puncturer::new(p);
    match variant % 3 {
        0 => pu,
        1 => pu.clone(),
        _ => { let _ = pu.rate(); let c = pu.clone(); drop(pu); c.clone() }
    }
}

fn puncture(p: &[bool], xs: &[i64], ty: Ty) -> String {
    let (p, xs) = (p.to_vec(), xs.to_vec());
    res(guarded(move || {
        let pu = mk_puncturer(&p, xs.len() / p.len().max(1) + p.len());
        match ty {
            Ty::Gf2 => pu
                .puncture(&Array1::from_iter(xs.iter().map(|&x| if x != 0 { GF2::one() } else { GF2::zero() })))
                .map(|a| a.iter().map(|x| if x.is_one() { 1 } else { 0 }).collect())
                .map_err(|_| ()),
            Ty::F64 => pu
                .puncture(&Array1::from_iter(xs.iter().map(|&x| x as f64)))
                .map(|a| a.iter().map(|&x| x as i64).collect())
                .map_err(|_| ()),
            // i64 / u8 elements: the codeword arrives as an owned array, as a reversed view of the reversed array (stride -1), or strided
            _ => match xs.len() % 3 {
                0 => pu.puncture(&Array1::from_vec(xs)).map(|a| a.to_vec()).map_err(|_| ()),
                1 => { let rev: Vec<i64> = xs.iter().rev().copied().collect(); let a = Array1::from_vec(rev);
                       pu.puncture(&a.slice(ndarray::s![..;-1])).map(|a| a.to_vec()).map_err(|_| ()) }
                _ => { let pad: Vec<i64> = xs.iter().flat_map(|&x| [x, -7]).collect(); let a = Array1::from_vec(pad);
                       pu.puncture(&a.slice(ndarray::s![..;2])).map(|a| a.to_vec()).map_err(|_| ()) }
            },
        }
    }))
}

fn depuncture(p: &[bool], ys: &[i64], ty: Ty) -> String {
    let (p, ys) = (p.to_vec(), ys.to_vec());
    res(guarded(move || {
        let pu = mk_puncturer(&p, ys.len() + p.len() + 1);
        match ty {
            Ty::F64 => pu
                .depuncture(&ys.iter().map(|&x| x as f64).collect::<Vec<_>>())
                .map(|v| v.iter().map(|&x| x as i64).collect())
                .map_err(|_| ()),
            _ => pu.depuncture(&ys).map_err(|_| ()),
        }
    }))
}

/// One `Interleaver` object (and a clone taken after its first use) applied to blocks of OTHER lengths first
/// (`warm`: row counts), alternating interleave / deinterleave, then the judged call on `xs`.
fn reused(c: usize, bw: bool, warm: &[usize], xs: &[i64], de: bool) -> String {
    let (warm, xs) = (warm.to_vec(), xs.to_vec());
    res(guarded(move || {
        let il = Interleaver::new(c, bw);
        let mut cl = il.clone();
        for (i, &r) in warm.iter().enumerate() {
            let v: Vec<i64> = (0..(c * r) as i64).collect();
            if i % 2 == 0 { let _ = il.interleave(&Array1::from_vec(v)); } else { let _ = il.deinterleave(&v); }
            if i == 0 { cl = il.clone(); }
        }
        let obj = if warm.len() % 2 == 0 { &il } else { &cl };
        Ok(if de { obj.deinterleave(&xs) } else { obj.interleave(&Array1::from_vec(xs)).to_vec() })
    }))
}

fn values(rng: &mut Rng, len: usize, ty: Ty, index_valued: bool) -> Vec<i64> {
    (0..len)
        .map(|i| match ty {
            Ty::Gf2 => rng.below(2) as i64,
            Ty::U8 => if index_valued { (i % 256) as i64 } else { rng.below(256) as i64 },
            _ => if index_valued { i as i64 } else { rng.below(2001) as i64 - 1000 },
        })
        .collect()
}

fn pat(p: &[bool]) -> String {
    bools(p.iter().copied())
}

pub fn run(ctx: &mut Ctx, replay: Option<&[String]>) {
    if let Some(lines) = replay {
        for line in lines {
            let t: Vec<&str> = line.split_whitespace().take_while(|t| *t != "=>").collect();
            if t.len() < 3 || t[0] != "c15" {
                continue;
            }
            let ints = |s: &str| -> Vec<i64> {
                if s == "." { vec![] } else { s.split(',').map(|x| x.parse().unwrap()).collect() }
            };
            let pb = |s: &str| -> Vec<bool> { if s == "-" { vec![] } else { s.chars().map(|c| c == '1').collect() } };
            let input = t.join(" ");
            let out = match t[1] {
                "il" => interleave(t[2].parse().unwrap(), t[3] == "1", &ints(t[4]), Ty::I64),
                "dil" => deinterleave(t[2].parse().unwrap(), t[3] == "1", &ints(t[4]), Ty::I64),
                "ilw" | "dilw" => {
                    let warm: Vec<usize> = t[4].split(',').filter_map(|x| x.parse().ok()).collect();
                    reused(t[2].parse().unwrap(), t[3] == "1", &warm, &ints(t[5]), t[1] == "dilw")
                }
                "pu" => puncture(&pb(t[2]), &ints(t[3]), Ty::I64),
                "dp" => depuncture(&pb(t[2]), &ints(t[3]), Ty::I64),
                _ => continue,
            };
            ctx.emit(&input, &out, true, &["replay"]);
        }
        return;
    }
    let mut rng = Rng::new(ctx.seed, 15);
    let maxs = ctx.scale(8, 12);
    // (a) every shape C,R <= maxs, both directions, index-valued vectors (the permutation itself is observed)
    for c in 1..=maxs {
        for r in 1..=maxs {
            for bw in [false, true] {
                let xs = values(&mut rng, c * r, Ty::I64, true);
                let o = interleave(c, bw, &xs, Ty::I64);
                ctx.emit(&format!("c15 il {} {} {}", c, bw as u8, int_list(&xs)), &o, c > 1 && r > 1, &["interleave-exhaustive-shape"]);
                let o = deinterleave(c, bw, &xs, Ty::I64);
                ctx.emit(&format!("c15 dil {} {} {}", c, bw as u8, int_list(&xs)), &o, c > 1 && r > 1, &["deinterleave-exhaustive-shape"]);
            }
        }
    }
    ctx.extra.insert("interleaver_shapes_exhaustive_up_to".into(), format!("{}x{} x both directions", maxs, maxs));
    // (b) random larger shapes, all element types, random values; indivisible lengths; C = 0
    for _ in 0..ctx.scale(600, 150000) {
        let ty = *rng.pick(&[Ty::I64, Ty::F64, Ty::Gf2, Ty::U8]);
        let c = if rng.chance(1, 40) { 0 } else { rng.range(1, 40) };
        let r = rng.range(1, 40);
        let mut len = c.max(1) * r;
        let indiv = rng.chance(1, 8);
        if indiv {
            len += rng.range(1, c.max(2) - 1).max(1);
        }
        let bw = rng.chance(1, 2);
        let idxv = rng.chance(1, 2);
        let xs = values(&mut rng, len, ty, idxv);
        let tyn = match ty { Ty::I64 => "elem-i64", Ty::F64 => "elem-f64", Ty::Gf2 => "elem-gf2", Ty::U8 => "elem-u8" };
        let kind = if c == 0 { "columns-zero" } else if len % c != 0 { "length-indivisible" } else { "length-divisible" };
        if rng.chance(1, 2) {
            let o = interleave(c, bw, &xs, ty);
            ctx.emit(&format!("c15 il {} {} {}", c, bw as u8, int_list(&xs)), &o, true, &["interleave-random", tyn, kind]);
        } else {
            let o = deinterleave(c, bw, &xs, ty);
            ctx.emit(&format!("c15 dil {} {} {}", c, bw as u8, int_list(&xs)), &o, true, &["deinterleave-random", tyn, kind]);
        }
    }
    // (b'') many columns: 255 ... 1030 (the column count must not be kept in an 8-bit field), a few rows
    for _ in 0..ctx.scale(24, 400) {
        let c = *rng.pick(&[255usize, 256, 257, 258, 300, 511, 512, 513, 768, 1000, 1024, 1030]);
        let r = rng.range(1, 3);
        let bw = rng.chance(1, 2);
        let extra = if rng.chance(1, 6) { rng.range(1, 7) } else { 0 };
        let xs = values(&mut rng, c * r + extra, Ty::I64, true);
        let kind = if xs.len() % c != 0 { "length-indivisible" } else { "length-divisible" };
        if rng.chance(1, 2) {
            let o = interleave(c, bw, &xs, Ty::I64);
            ctx.emit(&format!("c15 il {} {} {}", c, bw as u8, int_list(&xs)), &o, true, &["interleave-255-or-more-columns", kind]);
        } else {
            let o = deinterleave(c, bw, &xs, Ty::I64);
            ctx.emit(&format!("c15 dil {} {} {}", c, bw as u8, int_list(&xs)), &o, true, &["deinterleave-255-or-more-columns", kind]);
        }
    }
    // (b') one interleaver object used for several block lengths in a row ("for every block length divisible by the column count")
    for _ in 0..ctx.scale(300, 30000) {
        let c = rng.range(1, 12);
        let bw = rng.chance(1, 2);
        let warm: Vec<usize> = (0..rng.range(1, 3)).map(|_| rng.range(1, 12)).collect();
        let r = rng.range(1, 12);
        let idxv = rng.chance(1, 2);
        let xs = values(&mut rng, c * r, Ty::I64, idxv);
        let de = rng.chance(1, 2);
        let o = reused(c, bw, &warm, &xs, de);
        ctx.emit(&format!("c15 {} {} {} {} {}", if de { "dilw" } else { "ilw" }, c, bw as u8,
            warm.iter().map(|w| w.to_string()).collect::<Vec<_>>().join(","), int_list(&xs)), &o, c > 1 && r > 1, &["interleaver-object-reused-for-other-lengths"]);
    }
    // (c) all patterns of length <= 6 (incl. all-false and empty) x block sizes <= 5
    let maxp = ctx.scale(6, 9);
    for plen in 0..=maxp {
        for bits in 0..(1u32 << plen) {
            let p: Vec<bool> = (0..plen).map(|i| bits >> i & 1 == 1).collect();
            let trues = p.iter().filter(|&&b| b).count();
            ctx.emit(&format!("c15 rate {}", pat(&p)), &match guarded({ let p = p.clone(); move || mk_puncturer(&p, bits as usize).rate().to_bits() }) {
                Ok(b) => b.to_string(),
                Err(_) => "panic".into(),
            }, trues > 0, &["rate"]);
            for b in 0..=5usize {
                let xs = values(&mut rng, plen * b, Ty::I64, true);
                let o = puncture(&p, &xs, Ty::I64);
                ctx.emit(&format!("c15 pu {} {}", pat(&p), int_list(&xs)), &o, trues > 0 && trues < plen && b > 0, &["puncture-exhaustive-pattern"]);
                let ys: Vec<i64> = (0..trues * b).map(|i| 1 + i as i64).collect();
                let o = depuncture(&p, &ys, Ty::I64);
                ctx.emit(&format!("c15 dp {} {}", pat(&p), int_list(&ys)), &o, trues > 0 && trues < plen && b > 0, &["depuncture-exhaustive-pattern"]);
            }
        }
    }
    ctx.extra.insert("patterns_exhaustive_up_to_length".into(), format!("{} x block sizes 0..=5", maxp));
    // (d) random patterns/lengths incl. indivisible lengths, other element types
    for _ in 0..ctx.scale(800, 150000) {
        // one case in eight: a long pattern (21 ... 100 blocks: beyond the sizes at which sorting / searching helpers change their algorithm)
        // ... and one in forty: 255 ... 600 blocks, with runs of 256 and more kept blocks (block indices and run lengths beyond 8 bits)
        let long = rng.chance(1, 8);
        let huge = rng.chance(1, 40);
        let plen = if huge { *rng.pick(&[255usize, 256, 257, 258, 300, 320, 511, 512, 513, 600]) } else if long { rng.range(21, 100) } else { rng.range(1, 12) };
        let dense = huge && rng.chance(1, 2);
        let mut p: Vec<bool> = (0..plen).map(|_| if dense { rng.chance(99, 100) } else { rng.chance(2, 3) }).collect();
        if huge { p[plen - 1] = true; }
        if !p.iter().any(|&b| b) {
            p[0] = true;
        }
        let trues = p.iter().filter(|&&b| b).count();
        let b = if huge { rng.range(1, 2) } else if long { rng.range(0, 4) } else { rng.range(0, 30) };
        let indiv = rng.chance(1, 4);
        let ty = *rng.pick(&[Ty::I64, Ty::F64, Ty::Gf2]);
        if rng.chance(1, 2) {
            let len = plen * b + if indiv { rng.range(1, plen) } else { 0 };
            let xs = values(&mut rng, len, ty, false);
            let o = puncture(&p, &xs, ty);
            ctx.emit(&format!("c15 pu {} {}", pat(&p), int_list(&xs)), &o, true,
                &["puncture-random", if len % plen == 0 { "length-divisible" } else { "length-indivisible" }]);
        } else {
            let len = trues * b + if indiv { rng.range(1, trues) } else { 0 };
            let ty = if ty == Ty::Gf2 { Ty::I64 } else { ty };
            let ys: Vec<i64> = values(&mut rng, len, ty, false).iter().map(|&x| if x == 0 { 7 } else { x }).collect();
            let o = depuncture(&p, &ys, ty);
            ctx.emit(&format!("c15 dp {} {}", pat(&p), int_list(&ys)), &o, true,
                &["depuncture-random", if len % trues == 0 { "length-divisible" } else { "length-indivisible" }]);
        }
    }
}
