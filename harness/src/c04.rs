//! C04 / C05: direct calls of the arithmetic rules of all 24 arithmetic types.
//!   c04 i8 <type> <src.val,…> => <dest.val,…> | panic          check rule, 8-bit
//!   c04 table <type> => <table entries>
//!   c04 f <type> <src.bits,…> => <dest.bits,…> | panic          check rule, float (bit patterns, hex)
//!   c05 q <type> <f64 bits hex> => <i8>                          quantiser
//!   c05 v <type> <input> <src.val,…> => <llr> <dest.val,…> | panic      variable rule, 8-bit
//!   c05 l <type> <dest.val,…> <vars> => <dest.val,…> <vars> | panic      layered primitive, 8-bit
//!   c05 vf/lf …                                                   float variants (bit patterns)
use crate::rng::Rng;
use crate::{Ctx, guarded};
use ldpc_toolbox::decoder::arithmetic::*;
use ldpc_toolbox::decoder::{Message, SentMessage};

pub const I8_TYPES: [&str; 16] = [
    "Minstarapproxi8", "Minstarapproxi8Jones", "Minstarapproxi8PartialHardLimit", "Minstarapproxi8JonesPartialHardLimit",
    "Minstarapproxi8Deg1Clip", "Minstarapproxi8JonesDeg1Clip", "Minstarapproxi8PartialHardLimitDeg1Clip",
    "Minstarapproxi8JonesPartialHardLimitDeg1Clip",
    "Aminstari8", "Aminstari8Jones", "Aminstari8PartialHardLimit", "Aminstari8JonesPartialHardLimit",
    "Aminstari8Deg1Clip", "Aminstari8JonesDeg1Clip", "Aminstari8PartialHardLimitDeg1Clip",
    "Aminstari8JonesPartialHardLimitDeg1Clip",
];
pub const F_TYPES: [&str; 8] = ["Phif64", "Phif32", "Tanhf64", "Tanhf32", "Minstarapproxf64", "Minstarapproxf32", "Aminstarf64", "Aminstarf32"];

/// the arithmetic objects are built alternately with `new()` and with `Default::default()` (both are public ways to get one)
fn flip() -> bool {
    use std::sync::atomic::{AtomicBool, Ordering};
    static F: AtomicBool = AtomicBool::new(false);
    F.fetch_xor(true, Ordering::Relaxed)
}

macro_rules! with_i8 {
    ($name:expr, $a:ident => $body:expr) => {
        match $name {
            "Minstarapproxi8" => { let mut $a = if flip() { Minstarapproxi8::new() } else { <Minstarapproxi8 as Default>::default() }; $body }
            "Minstarapproxi8Jones" => { let mut $a = if flip() { Minstarapproxi8Jones::new() } else { <Minstarapproxi8Jones as Default>::default() }; $body }
            "Minstarapproxi8PartialHardLimit" => { let mut $a = if flip() { Minstarapproxi8PartialHardLimit::new() } else { <Minstarapproxi8PartialHardLimit as Default>::default() }; $body }
            "Minstarapproxi8JonesPartialHardLimit" => { let mut $a = if flip() { Minstarapproxi8JonesPartialHardLimit::new() } else { <Minstarapproxi8JonesPartialHardLimit as Default>::default() }; $body }
            "Minstarapproxi8Deg1Clip" => { let mut $a = if flip() { Minstarapproxi8Deg1Clip::new() } else { <Minstarapproxi8Deg1Clip as Default>::default() }; $body }
            "Minstarapproxi8JonesDeg1Clip" => { let mut $a = if flip() { Minstarapproxi8JonesDeg1Clip::new() } else { <Minstarapproxi8JonesDeg1Clip as Default>::default() }; $body }
            "Minstarapproxi8PartialHardLimitDeg1Clip" => { let mut $a = if flip() { Minstarapproxi8PartialHardLimitDeg1Clip::new() } else { <Minstarapproxi8PartialHardLimitDeg1Clip as Default>::default() }; $body }
            "Minstarapproxi8JonesPartialHardLimitDeg1Clip" => { let mut $a = if flip() { Minstarapproxi8JonesPartialHardLimitDeg1Clip::new() } else { <Minstarapproxi8JonesPartialHardLimitDeg1Clip as Default>::default() }; $body }
            "Aminstari8" => { let mut $a = if flip() { Aminstari8::new() } else { <Aminstari8 as Default>::default() }; $body }
            "Aminstari8Jones" => { let mut $a = if flip() { Aminstari8Jones::new() } else { <Aminstari8Jones as Default>::default() }; $body }
            "Aminstari8PartialHardLimit" => { let mut $a = if flip() { Aminstari8PartialHardLimit::new() } else { <Aminstari8PartialHardLimit as Default>::default() }; $body }
            "Aminstari8JonesPartialHardLimit" => { let mut $a = if flip() { Aminstari8JonesPartialHardLimit::new() } else { <Aminstari8JonesPartialHardLimit as Default>::default() }; $body }
            "Aminstari8Deg1Clip" => { let mut $a = if flip() { Aminstari8Deg1Clip::new() } else { <Aminstari8Deg1Clip as Default>::default() }; $body }
            "Aminstari8JonesDeg1Clip" => { let mut $a = if flip() { Aminstari8JonesDeg1Clip::new() } else { <Aminstari8JonesDeg1Clip as Default>::default() }; $body }
            "Aminstari8PartialHardLimitDeg1Clip" => { let mut $a = if flip() { Aminstari8PartialHardLimitDeg1Clip::new() } else { <Aminstari8PartialHardLimitDeg1Clip as Default>::default() }; $body }
            "Aminstari8JonesPartialHardLimitDeg1Clip" => { let mut $a = if flip() { Aminstari8JonesPartialHardLimitDeg1Clip::new() } else { <Aminstari8JonesPartialHardLimitDeg1Clip as Default>::default() }; $body }
            other => panic!("unknown i8 type {}", other),
        }
    };
}

macro_rules! with_f64 {
    ($name:expr, $a:ident => $body:expr) => {
        match $name {
            "Phif64" => { let mut $a = if flip() { Phif64::new() } else { <Phif64 as Default>::default() }; $body }
            "Tanhf64" => { let mut $a = if flip() { Tanhf64::new() } else { <Tanhf64 as Default>::default() }; $body }
            "Minstarapproxf64" => { let mut $a = if flip() { Minstarapproxf64::new() } else { <Minstarapproxf64 as Default>::default() }; $body }
            "Aminstarf64" => { let mut $a = if flip() { Aminstarf64::new() } else { <Aminstarf64 as Default>::default() }; $body }
            other => panic!("unknown f64 type {}", other),
        }
    };
}

macro_rules! with_f32 {
    ($name:expr, $a:ident => $body:expr) => {
        match $name {
            "Phif32" => { let mut $a = if flip() { Phif32::new() } else { <Phif32 as Default>::default() }; $body }
            "Tanhf32" => { let mut $a = if flip() { Tanhf32::new() } else { <Tanhf32 as Default>::default() }; $body }
            "Minstarapproxf32" => { let mut $a = if flip() { Minstarapproxf32::new() } else { <Minstarapproxf32 as Default>::default() }; $body }
            "Aminstarf32" => { let mut $a = if flip() { Aminstarf32::new() } else { <Aminstarf32 as Default>::default() }; $body }
            other => panic!("unknown f32 type {}", other),
        }
    };
}

pub fn pairs(v: &[(usize, i64)]) -> String {
    if v.is_empty() { "-".to_string() } else { v.iter().map(|(a, b)| format!("{}.{}", a, b)).collect::<Vec<_>>().join(",") }
}

pub fn ints(v: &[i64]) -> String {
    if v.is_empty() { ".".to_string() } else { v.iter().map(|x| x.to_string()).collect::<Vec<_>>().join(",") }
}

pub fn check_i8(ty: &str, msgs: &[(usize, i8)]) -> String {
    let m: Vec<Message<i8>> = msgs.iter().map(|&(s, v)| Message { source: s, value: v }).collect();
    let ty = ty.to_string();
    match guarded(move || {
        let mut out = Vec::new();
        with_i8!(ty.as_str(), a => a.send_check_messages(&m, |s| out.push((s.dest, s.value as i64))));
        out
    }) {
        Ok(o) => pairs(&o),
        Err(_) => "panic".to_string(),
    }
}

pub fn table_of(ty: &str) -> String {
    // the table is private: read it from the Debug text `… { table: [6, 5, …], _minstars: [] }`
    let dbg = with_i8!(ty, a => { let _ = &mut a; format!("{:?}", a) });
    let start = dbg.find("table: [").map(|i| i + 8).unwrap_or(0);
    let end = dbg[start..].find(']').map(|i| i + start).unwrap_or(start);
    dbg[start..end].replace(' ', "")
}

pub fn var_i8(ty: &str, input: i8, msgs: &[(usize, i8)]) -> String {
    let m: Vec<Message<i8>> = msgs.iter().map(|&(s, v)| Message { source: s, value: v }).collect();
    let ty = ty.to_string();
    match guarded(move || {
        let mut out = Vec::new();
        let llr = with_i8!(ty.as_str(), a => a.send_var_messages(input, &m, |s| out.push((s.dest, s.value as i64))));
        (llr, out)
    }) {
        Ok((llr, o)) => format!("{} {}", llr, pairs(&o)),
        Err(_) => "panic".to_string(),
    }
}

pub fn layer_i8(ty: &str, msgs: &[(usize, i8)], vars: &[i16]) -> String {
    let mut m: Vec<SentMessage<i8>> = msgs.iter().map(|&(d, v)| SentMessage { dest: d, value: v }).collect();
    let mut vars = vars.to_vec();
    let ty = ty.to_string();
    match guarded(move || {
        with_i8!(ty.as_str(), a => a.update_check_messages_and_vars(&mut m, &mut vars));
        (m, vars)
    }) {
        Ok((m, vars)) => format!(
            "{} {}",
            pairs(&m.iter().map(|s| (s.dest, s.value as i64)).collect::<Vec<_>>()),
            ints(&vars.iter().map(|&x| x as i64).collect::<Vec<_>>())
        ),
        Err(_) => "panic".to_string(),
    }
}

pub fn quant_i8(ty: &str, x: f64) -> String {
    with_i8!(ty, a => { let _ = &mut a; a.input_llr_quantize(x).to_string() })
}

pub fn var_llr_to_llr_i8(ty: &str, x: i16) -> String {
    with_i8!(ty, a => { let _ = &mut a; a.var_llr_to_llr(x).to_string() })
}

fn hx(x: f64) -> String {
    format!("{:016x}", x.to_bits())
}

pub fn pairs_f(v: &[(usize, f64)]) -> String {
    if v.is_empty() { "-".to_string() } else { v.iter().map(|(a, b)| format!("{}.{}", a, hx(*b))).collect::<Vec<_>>().join(",") }
}

pub fn check_f(ty: &str, msgs: &[(usize, f64)]) -> String {
    let ty2 = ty.to_string();
    let msgs = msgs.to_vec();
    match guarded(move || {
        let mut out: Vec<(usize, f64)> = Vec::new();
        if ty2.ends_with("f64") {
            let m: Vec<Message<f64>> = msgs.iter().map(|&(s, v)| Message { source: s, value: v }).collect();
            with_f64!(ty2.as_str(), a => a.send_check_messages(&m, |s| out.push((s.dest, s.value))));
        } else {
            let m: Vec<Message<f32>> = msgs.iter().map(|&(s, v)| Message { source: s, value: v as f32 }).collect();
            with_f32!(ty2.as_str(), a => a.send_check_messages(&m, |s| out.push((s.dest, s.value as f64))));
        }
        out
    }) {
        Ok(o) => pairs_f(&o),
        Err(_) => "panic".to_string(),
    }
}

/// a SEQUENCE of check-node calls on ONE arithmetic object (stale scratch buffers would show)
pub fn check_f_seq(ty: &str, calls: &[Vec<(usize, f64)>]) -> String {
    let ty2 = ty.to_string();
    let calls = calls.to_vec();
    match guarded(move || {
        let mut outs: Vec<String> = Vec::new();
        if ty2.ends_with("f64") {
            with_f64!(ty2.as_str(), a => {
                for msgs in &calls {
                    let m: Vec<Message<f64>> = msgs.iter().map(|&(s, v)| Message { source: s, value: v }).collect();
                    let mut out: Vec<(usize, f64)> = Vec::new();
                    a.send_check_messages(&m, |s| out.push((s.dest, s.value)));
                    outs.push(pairs_f(&out));
                }
            });
        } else {
            with_f32!(ty2.as_str(), a => {
                for msgs in &calls {
                    let m: Vec<Message<f32>> = msgs.iter().map(|&(s, v)| Message { source: s, value: v as f32 }).collect();
                    let mut out: Vec<(usize, f64)> = Vec::new();
                    a.send_check_messages(&m, |s| out.push((s.dest, s.value as f64)));
                    outs.push(pairs_f(&out));
                }
            });
        }
        outs.join(" ")
    }) {
        Ok(o) => o,
        Err(_) => "panic".to_string(),
    }
}

pub fn var_f(ty: &str, input: f64, msgs: &[(usize, f64)]) -> String {
    let ty2 = ty.to_string();
    let msgs = msgs.to_vec();
    match guarded(move || {
        let mut out: Vec<(usize, f64)> = Vec::new();
        let llr;
        if ty2.ends_with("f64") {
            let m: Vec<Message<f64>> = msgs.iter().map(|&(s, v)| Message { source: s, value: v }).collect();
            llr = with_f64!(ty2.as_str(), a => a.send_var_messages(input, &m, |s| out.push((s.dest, s.value))));
        } else {
            let m: Vec<Message<f32>> = msgs.iter().map(|&(s, v)| Message { source: s, value: v as f32 }).collect();
            llr = with_f32!(ty2.as_str(), a => a.send_var_messages(input as f32, &m, |s| out.push((s.dest, s.value as f64)))) as f64;
        }
        (llr, out)
    }) {
        Ok((llr, o)) => format!("{} {}", hx(llr), pairs_f(&o)),
        Err(_) => "panic".to_string(),
    }
}

fn fs(v: &[f64]) -> String {
    if v.is_empty() { ".".to_string() } else { v.iter().map(|&x| hx(x)).collect::<Vec<_>>().join(",") }
}

/// a SEQUENCE of layered updates on ONE arithmetic object; returns one "<msgs> <vars>" per call
pub fn layer_f_seq(ty: &str, calls: &[(Vec<(usize, f64)>, Vec<f64>)]) -> String {
    let ty2 = ty.to_string();
    let calls = calls.to_vec();
    match guarded(move || {
        let mut outs: Vec<String> = Vec::new();
        if ty2.ends_with("f64") {
            with_f64!(ty2.as_str(), a => {
                for (msgs, vars) in &calls {
                    let mut m: Vec<SentMessage<f64>> = msgs.iter().map(|&(d, v)| SentMessage { dest: d, value: v }).collect();
                    let mut vs = vars.clone();
                    a.update_check_messages_and_vars(&mut m, &mut vs);
                    outs.push(format!("{} {}", pairs_f(&m.iter().map(|s| (s.dest, s.value)).collect::<Vec<_>>()), fs(&vs)));
                }
            });
        } else {
            with_f32!(ty2.as_str(), a => {
                for (msgs, vars) in &calls {
                    let mut m: Vec<SentMessage<f32>> = msgs.iter().map(|&(d, v)| SentMessage { dest: d, value: v as f32 }).collect();
                    let mut vs: Vec<f32> = vars.iter().map(|&x| x as f32).collect();
                    a.update_check_messages_and_vars(&mut m, &mut vs);
                    outs.push(format!("{} {}", pairs_f(&m.iter().map(|s| (s.dest, s.value as f64)).collect::<Vec<_>>()),
                        fs(&vs.iter().map(|&x| x as f64).collect::<Vec<_>>())));
                }
            });
        }
        outs.join(" ")
    }) {
        Ok(o) => o,
        Err(_) => "panic".to_string(),
    }
}

fn rand_f(rng: &mut Rng, ty: &str, style: usize) -> f64 {
    let range = if ty.ends_with("f64") { 30.0 } else { 14.0 };
    let mag = match style {
        0 => range * rng.f64_unit(),
        1 => 3.0 * rng.f64_unit(),
        2 => *rng.pick(&[0.0, 1e-300, 1e-30, 1e-12, 0.5, 1.0, 2.0]),
        // far outside the working range (exp overflows beyond 88.7 in f32 and 709.8 in f64): a third of the entries of such a vector
        4 => if rng.chance(1, 3) { *rng.pick(&[40.0, 89.0, 100.0, 500.0, 709.0, 710.0, 750.0, 1e3, 1e6, 1e18, 1e30]) } else { range * rng.f64_unit() },
        // (style 5: working-range values; exactly ONE entry of the vector is then replaced by an infinite message, see the caller --
        // two infinite inputs give inf - inf = NaN in the unchanged code, which is outside what C04 can state)
        5 => range * rng.f64_unit(),
        _ => range * rng.f64_unit() * rng.f64_unit(),
    };
    let v = if rng.chance(1, 2) { -mag } else { mag };
    if ty.ends_with("f32") { (v as f32) as f64 } else { v }
}

fn rand_i8(rng: &mut Rng, style: usize) -> i8 {
    match style {
        0 => (rng.below(255) as i64 - 127) as i8,                  // uniform in [-127,127]
        1 => *rng.pick(&[127i8, -127, 126, -126, 100, -100, 99, -99, 101, 116, -116, 0, 1, -1]),
        2 => (rng.below(25) as i64 - 12) as i8,                    // small, many ties
        3 => if rng.chance(1, 2) { 127 } else { -127 },
        _ => (rng.below(255) as i64 - 127) as i8,
    }
}

fn gen_msgs(rng: &mut Rng, deg: usize) -> Vec<(usize, i8)> {
    let style = rng.below(5);
    // distinct sources, not sorted
    let mut srcs: Vec<usize> = (0..deg).map(|i| i * 3 + rng.below(3)).collect();
    if rng.chance(1, 2) {
        for i in (1..srcs.len()).rev() {
            srcs.swap(i, rng.below(i + 1));
        }
    }
    srcs.into_iter().map(|s| { let st = if style == 4 { rng.below(4) } else { style }; (s, rand_i8(rng, st)) }).collect()
}

fn msgs_str(m: &[(usize, i8)]) -> String {
    pairs(&m.iter().map(|&(s, v)| (s, v as i64)).collect::<Vec<_>>())
}

pub fn run_c04(ctx: &mut Ctx, replay: Option<&[String]>) {
    if let Some(lines) = replay {
        for line in lines {
            let t: Vec<&str> = line.split_whitespace().take_while(|t| *t != "=>").collect();
            if t.len() == 4 && t[0] == "c04" && t[1] == "i8" {
                let m: Vec<(usize, i8)> = if t[3] == "-" { vec![] } else {
                    t[3].split(',').map(|p| { let (a, b) = p.split_once('.').unwrap(); (a.parse().unwrap(), b.parse().unwrap()) }).collect()
                };
                ctx.emit(&t.join(" "), &check_i8(t[2], &m), true, &["replay"]);
            }
        }
        return;
    }
    let mut rng = Rng::new(ctx.seed, 4);
    for ty in I8_TYPES {
        ctx.emit(&format!("c04 table {}", ty), &table_of(ty), true, &["table"]);
    }
    // degree 2: exhaustive (255^2) for every 8-bit type
    for ty in I8_TYPES {
        for a in -127i16..=127 {
            for b in -127i16..=127 {
                let m = [(0usize, a as i8), (1usize, b as i8)];
                ctx.emit(&format!("c04 i8 {} {}", ty, msgs_str(&m)), &check_i8(ty, &m), true, &["i8-degree-2-exhaustive"]);
            }
        }
    }
    // degree 3: exhaustive in thorough (255^3 for two representative types, strided for the rest), sampled in quick
    let d3 = ctx.scale(100_000, 2_000_000);
    for k in 0..d3 {
        let ty = I8_TYPES[k % 16];
        let m = [(0usize, rand_i8(&mut rng, 0)), (1usize, rand_i8(&mut rng, 0)), (2usize, rand_i8(&mut rng, k % 3))];
        ctx.emit(&format!("c04 i8 {} {}", ty, msgs_str(&m)), &check_i8(ty, &m), true, &["i8-degree-3-sampled"]);
    }
    // degrees 1, 4..30 random incl. boundary vectors
    for k in 0..ctx.scale(40_000, 800_000) {
        let ty = I8_TYPES[k % 16];
        let deg = if k % 50 == 0 { rng.below(2) } else { rng.range(4, 30) };
        let m = gen_msgs(&mut rng, deg);
        let tag = if deg < 2 { "i8-degree-0-1-panics" } else { "i8-degree-4..30" };
        ctx.emit(&format!("c04 i8 {} {}", ty, msgs_str(&m)), &check_i8(ty, &m), deg >= 2, &[tag]);
    }
    // the 8 float types: working-range vectors, degrees 2..30
    for k in 0..ctx.scale(24_000, 400_000) {
        let ty = F_TYPES[k % 8];
        let deg = if k % 100 == 0 { 1 } else { rng.range(2, if k % 4 == 0 { 30 } else { 8 }) };
        // style 5 (one or more infinite messages) only for the two families in which inf - inf cannot arise from a single infinite input
        let style = rng.below(6);
        let mut srcs: Vec<usize> = (0..deg).map(|i| i * 2 + rng.below(2)).collect();
        if rng.chance(1, 2) {
            srcs.reverse();
        }
        // phi / tanh degree-1 checks do not panic (empty product / sum); min* ones do
        let mut m: Vec<(usize, f64)> = srcs.into_iter().map(|s| (s, rand_f(&mut rng, ty, style))).collect();
        if style == 5 && deg >= 2 { let i = rng.below(m.len()); m[i].1 = if rng.chance(1, 2) { f64::INFINITY } else { f64::NEG_INFINITY }; }
        let tag = if deg < 2 { "float-degree-1" } else if deg <= 8 { "float-degree-2..8" } else { "float-degree-9..30" };
        let tag2 = if style == 4 { "float-magnitudes-up-to-1e30" } else if style == 5 { "float-infinite-message" } else { "float-working-range" };
        ctx.emit(&format!("c04 f {} {}", ty, pairs_f(&m)), &check_f(ty, &m), deg >= 2, &[tag, ty, tag2]);
    }
    // checks of weight 255 ... 513 with mostly negative messages (a count of negative inputs, or any per-check counter, kept in 8 bits wraps or
    // saturates there), all 16 + 8 types
    for k in 0..ctx.scale(96, 2400) {
        let deg = *rng.pick(&[255usize, 256, 257, 258, 259, 300, 511, 512, 513]);
        let negs = *rng.pick(&[deg, deg - 1, deg - 2, 256.min(deg), 255.min(deg), deg / 2]);
        if k % 3 != 0 {
            let ty = I8_TYPES[k % 16];
            let mut m: Vec<(usize, i8)> = (0..deg).map(|i| (i, { let a = 1 + rng.below(if k % 2 == 0 { 127 } else { 20 }) as i8; if i < negs { -a } else { a } })).collect();
            if rng.chance(1, 2) { m.reverse(); }
            ctx.emit(&format!("c04 i8 {} {}", ty, msgs_str(&m)), &check_i8(ty, &m), true, &["i8-degree-255..513"]);
        } else {
            let ty = F_TYPES[(k / 3) % 8];
            let strong = rng.chance(1, 2);
            let mut m: Vec<(usize, f64)> = (0..deg).map(|i| (i, {
                let a = if strong { 6.0 + 6.0 * rng.f64_unit() } else { 0.5 + 2.5 * rng.f64_unit() };
                let v = if i < negs { -a } else { a };
                if ty.ends_with("f32") { (v as f32) as f64 } else { v }
            })).collect();
            if rng.chance(1, 2) { m.reverse(); }
            ctx.emit(&format!("c04 f {} {}", ty, pairs_f(&m)), &check_f(ty, &m), true, &["float-degree-255..513", ty, "float-working-range"]);
        }
    }
    // sequences of 2-5 check-node calls on ONE arithmetic object, high degree then low degree
    for k in 0..ctx.scale(6000, 100_000) {
        let ty = F_TYPES[k % 8];
        let ncalls = rng.range(2, 5);
        let calls: Vec<Vec<(usize, f64)>> = (0..ncalls).map(|c| {
            let deg = if c % 2 == 0 { rng.range(4, 10) } else { rng.range(2, 3) };
            let style = rng.below(4);
            (0..deg).map(|i| (i * 2 + 1, rand_f(&mut rng, ty, style))).collect()
        }).collect();
        let input: Vec<String> = calls.iter().map(|m| pairs_f(m)).collect();
        ctx.emit(&format!("c04 fs {} {}", ty, input.join(" ")), &check_f_seq(ty, &calls), true, &["float-check-rule-sequence-on-one-object", ty]);
    }
}

pub fn run_c05(ctx: &mut Ctx, _replay: Option<&[String]>) {
    let mut rng = Rng::new(ctx.seed, 5);
    // quantiser: special values and all rounding boundaries
    let mut qs: Vec<f64> = vec![0.0, -0.0, f64::INFINITY, f64::NEG_INFINITY, f64::NAN, -f64::NAN, f64::from_bits(0x7ff0000000000001),
        f64::from_bits(0xfff8000000000123), f64::MIN_POSITIVE, -f64::MIN_POSITIVE, f64::from_bits(1), -f64::from_bits(1),
        1e300, -1e300, f64::MAX, f64::MIN, 1e30, -1e30, 15.875, 15.8749999, 15.9375, -15.875, -15.9375];
    for k in -131i64..=131 {
        for base in [k as f64 / 8.0, (k as f64 + 0.5) / 8.0] {
            qs.push(base);
            qs.push(crate::dec::ulp_step(base, true));
            qs.push(crate::dec::ulp_step(base, false));
        }
    }
    for _ in 0..ctx.scale(3000, 100_000) {
        let c = rng.below(9);
        let m = crate::dec::gen_magnitude(&mut rng, c);
        qs.push(if rng.chance(1, 2) { -m } else { m });
        qs.push(f64::from_bits(rng.next())); // arbitrary bit patterns (any f64 whatsoever)
    }
    for (i, &x) in qs.iter().enumerate() {
        // all 16 types share the quantiser text; rotate through them, and run the first 600 on every type
        let tys: Vec<&str> = if i < 600 { I8_TYPES.to_vec() } else { vec![I8_TYPES[i % 16]] };
        for ty in tys {
            let tag = if x.is_nan() { "quantiser-nan" } else if x.is_infinite() { "quantiser-inf" } else if x.abs() * 8.0 >= 127.0 { "quantiser-saturating" } else { "quantiser-in-range" };
            ctx.emit(&format!("c05 q {} {:016x}", ty, x.to_bits()), &quant_i8(ty, x), true, &[tag]);
        }
    }
    // var_llr_to_llr = clip, all i16 values for one type, boundaries for the others
    for x in i16::MIN..=i16::MAX {
        if x % 7 == 0 || (x as i32).abs() <= 130 || (x as i32).abs() >= 32760 {
            let ty = I8_TYPES[(x as i32 + 40000) as usize % 16];
            ctx.emit(&format!("c05 clip {} {}", ty, x), &var_llr_to_llr_i8(ty, x), true, &["clip"]);
        }
    }
    // variable rule: degrees 0..200 (thorough 257), extreme vectors; degree 258 all-127 must overflow on both sides
    let maxdeg = ctx.scale(200, 257);
    for k in 0..ctx.scale(30_000, 600_000) {
        let ty = I8_TYPES[k % 16];
        let deg = match k % 10 { 0 => rng.below(3), 1 => maxdeg, 2 => rng.range(100, maxdeg), _ => rng.range(1, 12) };
        let style = rng.below(6);
        let m: Vec<(usize, i8)> = (0..deg).map(|i| (i, match style {
            0 => 127, 1 => -127, 2 => if i % 2 == 0 { 127 } else { -127 }, _ => rand_i8(&mut rng, style % 3) })).collect();
        let input = match style { 0 => 127, 1 => -127, _ => { let st = rng.below(3); rand_i8(&mut rng, st) } };
        let tag = if deg == 1 { "var-degree-1" } else if deg >= 100 { "var-degree-100+" } else { "var-degree-small" };
        ctx.emit(&format!("c05 v {} {} {}", ty, input, msgs_str(&m)), &var_i8(ty, input, &m), deg >= 1, &[tag]);
    }
    for ty in I8_TYPES {
        for (deg, inp) in [(257usize, 127i8), (258, 127), (258, -127), (259, 127), (300, -127)] {
            let m: Vec<(usize, i8)> = (0..deg).map(|i| (i, inp)).collect();
            ctx.emit(&format!("c05 v {} {} {}", ty, inp, msgs_str(&m)), &var_i8(ty, inp, &m), true, &["var-degree-overflow-boundary"]);
        }
    }
    // degrees 255 ... 257 and 511 ... 513 with messages that nearly cancel (the total stays small, nothing saturates) and a strong channel LLR
    // (117 ... 127): the degree must not be taken modulo 256 anywhere (degree-one clipping is for degree ONE)
    for ty in I8_TYPES {
        for deg in [255usize, 256, 257, 511, 512, 513] {
            let inp = (117 + rng.below(11)) as i8 * if rng.chance(1, 2) { -1 } else { 1 };
            let a = 1 + rng.below(60) as i8;
            let mut m: Vec<(usize, i8)> = (0..deg).map(|i| (i, if i % 2 == 0 { a } else { -a })).collect();
            if deg % 2 == 1 { m[deg - 1].1 = -(rng.below(5) as i8); }
            ctx.emit(&format!("c05 v {} {} {}", ty, inp, msgs_str(&m)), &var_i8(ty, inp, &m), true, &["var-degree-255..513-near-cancelling"]);
        }
    }
    // layered primitive: states inside the reachable envelope |var| <= 127*(deg+1), incl. the boundary
    for k in 0..ctx.scale(40_000, 800_000) {
        let ty = I8_TYPES[k % 16];
        let deg = if k % 40 == 0 { rng.below(2) } else { rng.range(2, 14) };
        let nvars = deg * 2 + 3;
        let mut dests: Vec<usize> = (0..nvars).collect();
        for i in (1..dests.len()).rev() {
            dests.swap(i, rng.below(i + 1));
        }
        dests.truncate(deg);
        let style = rng.below(4);
        let msgs: Vec<(usize, i8)> = dests.iter().map(|&d| (d, rand_i8(&mut rng, style))).collect();
        let env = 127 * (rng.range(1, 6) as i64 + 1);
        let vars: Vec<i16> = (0..nvars).map(|_| match style {
            3 => if rng.chance(1, 2) { env as i16 } else { -env as i16 },
            _ => (rng.below((2 * env + 1) as usize) as i64 - env) as i16,
        }).collect();
        let tag = if deg < 2 { "layer-degree-0-1-panics" } else if style == 3 { "layer-envelope-boundary" } else { "layer-random-state" };
        ctx.emit(&format!("c05 l {} {} {}", ty, msgs_str(&msgs), ints(&vars.iter().map(|&x| x as i64).collect::<Vec<_>>())),
            &layer_i8(ty, &msgs, &vars), deg >= 2, &[tag]);
    }
    // float variable rule: sum-then-subtract, degrees 0..40
    for k in 0..ctx.scale(8000, 100_000) {
        let ty = F_TYPES[k % 8];
        let deg = rng.below(if k % 5 == 0 { 40 } else { 8 });
        let style = rng.below(4);
        let m: Vec<(usize, f64)> = (0..deg).map(|i| (i * 3 + 1, rand_f(&mut rng, ty, style))).collect();
        let input = rand_f(&mut rng, ty, style);
        ctx.emit(&format!("c05 vf {} {} {}", ty, hx(input), pairs_f(&m)), &var_f(ty, input, &m), deg >= 1, &["float-variable-rule", ty]);
    }
    // float layered primitive: sequences of 2-5 updates on ONE arithmetic object with varying check degrees
    // (a high-degree check followed by a low-degree one is what exposes stale scratch buffers)
    for k in 0..ctx.scale(6000, 100_000) {
        let ty = F_TYPES[k % 8];
        let ncalls = rng.range(2, 5);
        let mut calls: Vec<(Vec<(usize, f64)>, Vec<f64>)> = Vec::new();
        for c in 0..ncalls {
            let deg = if c % 2 == 0 { rng.range(4, 9) } else { rng.range(2, 3) };
            let nvars = deg + rng.range(1, 4);
            let mut dests: Vec<usize> = (0..nvars).collect();
            for i in (1..dests.len()).rev() { dests.swap(i, rng.below(i + 1)); }
            dests.truncate(deg);
            let style = rng.below(2);
            // a quarter of the updates with exact magnitude TIES among the extrinsic values (hard-decision-like inputs: the
            // least reliable neighbour of A-Min* is then the FIRST of the tied ones, in the layered rule as in the flooding rule)
            let ties = rng.chance(1, 4);
            let msgs: Vec<(usize, f64)> = dests.iter().map(|&d| (d, if ties { *rng.pick(&[0.0, 0.0, -0.0, 0.5, -0.5]) } else { 0.5 * rand_f(&mut rng, ty, style) })).collect();
            // (the tie variant also produces exact-zero extrinsic values: var 0.5 with old message 0.5, or an erased bit 0.0 - 0.0)
            let vars: Vec<f64> = (0..nvars).map(|_| if ties { *rng.pick(&[1.0, -1.0, 1.5, -1.5, 3.0, -3.0, 0.5, 0.0, -0.0]) } else { rand_f(&mut rng, ty, style) }).collect();
            calls.push((msgs, vars));
        }
        let input: Vec<String> = calls.iter().map(|(m, v)| format!("{} {}", pairs_f(m), fs(v))).collect();
        ctx.emit(&format!("c05 lf {} {}", ty, input.join(" ")), &layer_f_seq(ty, &calls), true, &["float-layered-sequence", ty]);
    }
}

