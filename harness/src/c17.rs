//! C17: editing histories on `SparseMatrix`, full observable state after every operation.
use crate::fmt::*;
use crate::rng::Rng;
use crate::{Ctx, guarded};
use ldpc_toolbox::sparse::SparseMatrix;

#[derive(Clone, Debug)]
pub enum Op {
    Insert(usize, usize),
    Remove(usize, usize),
    Toggle(usize, usize),
    ClearRow(usize),
    ClearCol(usize),
    SetRow(usize, Vec<usize>),
    SetCol(usize, Vec<usize>),
    InsertRow(usize, Vec<usize>),
    InsertCol(usize, Vec<usize>),
}

impl Op {
    fn token(&self) -> String {
        match self {
            Op::Insert(r, c) => format!("i:{}:{}", r, c),
            Op::Remove(r, c) => format!("r:{}:{}", r, c),
            Op::Toggle(r, c) => format!("t:{}:{}", r, c),
            Op::ClearRow(r) => format!("cr:{}", r),
            Op::ClearCol(c) => format!("cc:{}", c),
            Op::SetRow(r, l) => format!("sr:{}:{}", r, nat_list(l)),
            Op::SetCol(c, l) => format!("sc:{}:{}", c, nat_list(l)),
            Op::InsertRow(r, l) => format!("ir:{}:{}", r, nat_list(l)),
            Op::InsertCol(c, l) => format!("ic:{}:{}", c, nat_list(l)),
        }
    }
    fn parse(s: &str) -> Option<Op> {
        let p: Vec<&str> = s.split(':').collect();
        let n = |x: &str| x.parse::<usize>().ok();
        let l = |x: &str| -> Option<Vec<usize>> {
            if x == "-" { Some(vec![]) } else { x.split(',').map(|t| t.parse().ok()).collect() }
        };
        Some(match p.as_slice() {
            ["i", r, c] => Op::Insert(n(r)?, n(c)?),
            ["r", r, c] => Op::Remove(n(r)?, n(c)?),
            ["t", r, c] => Op::Toggle(n(r)?, n(c)?),
            ["cr", r] => Op::ClearRow(n(r)?),
            ["cc", c] => Op::ClearCol(n(c)?),
            ["sr", r, x] => Op::SetRow(n(r)?, l(x)?),
            ["sc", c, x] => Op::SetCol(n(c)?, l(x)?),
            ["ir", r, x] => Op::InsertRow(n(r)?, l(x)?),
            ["ic", c, x] => Op::InsertCol(n(c)?, l(x)?),
            _ => return None,
        })
    }
    fn apply(&self, h: &mut SparseMatrix) {
        match self {
            Op::Insert(r, c) => h.insert(*r, *c),
            Op::Remove(r, c) => h.remove(*r, *c),
            Op::Toggle(r, c) => h.toggle(*r, *c),
            Op::ClearRow(r) => h.clear_row(*r),
            Op::ClearCol(c) => h.clear_col(*c),
            // the bulk operations take any iterator: lists of odd length are passed through a lazy adaptor whose size hint has lower bound 0
            Op::SetRow(r, l) => if l.len() % 2 == 0 { h.set_row(*r, l.iter()) } else { h.set_row(*r, l.iter().filter(|_| true)) },
            Op::SetCol(c, l) => if l.len() % 2 == 0 { h.set_col(*c, l.iter()) } else { h.set_col(*c, l.iter().skip_while(|_| false)) },
            Op::InsertRow(r, l) => if l.len() % 2 == 0 { h.insert_row(*r, l.iter()) } else { h.insert_row(*r, l.iter().filter(|_| true)) },
            Op::InsertCol(c, l) => if l.len() % 2 == 0 { h.insert_col(*c, l.iter()) } else { h.insert_col(*c, l.iter().copied().filter(|_| true)) },
        }
    }
}

fn state(h: &SparseMatrix, eq: bool) -> String {
    let nr = h.num_rows();
    let nc = h.num_cols();
    let grid = bools((0..nr).flat_map(|r| (0..nc).map(move |c| (r, c))).map(|(r, c)| h.contains(r, c)));
    let rw: Vec<usize> = (0..nr).map(|r| h.row_weight(r)).collect();
    let cw: Vec<usize> = (0..nc).map(|c| h.col_weight(c)).collect();
    let ia: Vec<String> = h.iter_all().map(|(r, c)| format!("{}.{}", r, c)).collect();
    format!(
        "S:{}:{}:{}:{}:{}:{}:{}",
        ll(&rows_of(h)),
        ll(&cols_of(h)),
        grid,
        nat_list(&rw),
        nat_list(&cw),
        if ia.is_empty() { "-".to_string() } else { ia.join(",") },
        if eq { "1" } else { "0" }
    )
}

pub fn run_history(nr: usize, nc: usize, ops: &[Op]) -> (String, String, usize) {
    let mut h = SparseMatrix::new(nr, nc);
    let mut outs = Vec::new();
    let mut effective = 0;
    for op in ops {
        let before = h.clone();
        let mut h2 = h.clone();
        let op2 = op.clone();
        match guarded(move || {
            op2.apply(&mut h2);
            h2
        }) {
            Ok(hn) => {
                let eq = hn == before;
                if !eq {
                    effective += 1;
                }
                outs.push(state(&hn, eq));
                h = hn;
            }
            Err(_) => {
                outs.push("panic".to_string());
                break;
            }
        }
    }
    let input = format!(
        "c17 {} {} {}",
        nr,
        nc,
        ops.iter().map(|o| o.token()).collect::<Vec<_>>().join(" ")
    );
    (input, outs.join(" "), effective)
}

fn rand_list(rng: &mut Rng, bound: usize, oor: bool) -> Vec<usize> {
    let len = rng.below(bound + 2);
    let mut v: Vec<usize> = (0..len).map(|_| rng.below(bound)).collect();
    if oor && !v.is_empty() {
        let i = rng.below(v.len());
        v[i] = bound + rng.below(3);
    }
    v
}

pub fn run(ctx: &mut Ctx, replay: Option<&[String]>) {
    if let Some(lines) = replay {
        for line in lines {
            let toks: Vec<&str> = line.split_whitespace().take_while(|t| *t != "=>").collect();
            if toks.len() < 3 || toks[0] != "c17" {
                continue;
            }
            let nr = toks[1].parse().unwrap();
            let nc = toks[2].parse().unwrap();
            let ops: Vec<Op> = toks[3..].iter().filter_map(|t| Op::parse(t)).collect();
            let (i, o, eff) = run_history(nr, nc, &ops);
            ctx.emit(&i, &o, eff >= 2, &["replay"]);
        }
        return;
    }
    let mut rng = Rng::new(ctx.seed, 17);
    // a matrix with several hundred thousand rows: entries at multiples of 2^16, membership and weights queried around them
    for k in 0..ctx.scale(6, 60) {
        let nr = 262_145 + rng.below(70_000);
        let nc = rng.range(2, 4);
        let c = rng.below(nc);
        let rows: Vec<usize> = (1..=4).map(|i| i * 65536 + if k % 3 == 2 { rng.below(3) } else { 0 }).filter(|&r| r < nr).collect();
        let mut ops = vec![Op::InsertCol(c, rows.clone())];
        let probe = [0usize, 1, 65535, 65536, 131072, 196608, 262144, 2, 4096];
        let mut queries: Vec<String> = probe.iter().filter(|&&r| r < nr).map(|r| format!("q:{}:{}", r, c)).collect();
        let extra = *rng.pick(&[0usize, 1, 2, 65535, 131073]);
        ops.push(Op::Insert(extra, c));
        ops.push(Op::Toggle(probe[rng.below(probe.len())], c));
        // one of the later multiples of 2^16 is removed (or toggled away): the entry that must go is NOT the first one of its column list
        // with the same low 16 bits; the column's and one row's iterators are observed too (both views must lose the same entry)
        if !rows.is_empty() && rng.chance(2, 3) {
            let victim = rows[rng.below(rows.len())];
            ops.push(if rng.chance(1, 2) { Op::Remove(victim, c) } else { Op::Toggle(victim, c) });
            queries.push(format!("ir:{}", victim));
        }
        queries.push(format!("ic:{}", c));
        queries.push(format!("w:{}", c));
        queries.push(format!("q:{}:{}", extra, c));
        let mut h = SparseMatrix::new(nr, nc);
        let ans = guarded({ let ops = ops.clone(); let queries = queries.clone(); move || {
            for op in &ops { op.apply(&mut h); }
            queries.iter().map(|q| {
                let t: Vec<&str> = q.split(':').collect();
                match t[0] {
                    "q" => (h.contains(t[1].parse().unwrap(), t[2].parse().unwrap()) as u8).to_string(),
                    "w" => h.col_weight(t[1].parse().unwrap()).to_string(),
                    "ic" | "ir" => {
                        let i: usize = t[1].parse().unwrap();
                        let mut v: Vec<usize> = if t[0] == "ic" { h.iter_col(i).copied().collect() } else { h.iter_row(i).copied().collect() };
                        v.sort_unstable();
                        if v.is_empty() { "-".to_string() } else { v.iter().map(|x| x.to_string()).collect::<Vec<_>>().join(",") }
                    }
                    _ => h.row_weight(t[1].parse().unwrap()).to_string(),
                }
            }).collect::<Vec<_>>().join(" ")
        }}).unwrap_or("panic".into());
        ctx.emit(&format!("c17 big {} {} {} ? {}", nr, nc, ops.iter().map(|o| o.token()).collect::<Vec<_>>().join(" "), queries.join(" ")), &ans, true, &["very-tall-matrix"]);
    }
    // a matrix with more than 2^32 positions (70 000 x 70 000, a handful of ones): two positions whose linear indices r * ncols + c agree
    // modulo 2^32 (and modulo 2^16 of course) must stay different entries
    for _ in 0..ctx.scale(4, 8) {
        let nc = 66_000 + rng.below(8_000);
        let (r1, c1) = (rng.below(3_000), rng.below(nc));
        let t = r1 * nc + c1 + (1usize << 32);
        let (r2, c2) = (t / nc, t % nc);
        let nr = r2 + 1 + rng.below(50);
        let mut ops = vec![Op::Insert(r1, c1)];
        let mut queries = vec![format!("q:{}:{}", r2, c2)];
        match rng.below(3) {
            0 => { ops.push(Op::Insert(r2, c2)); ops.push(Op::Remove(r1, c1)); }
            1 => { ops.push(Op::Toggle(r2, c2)); ops.push(Op::Toggle(r1, c1)); ops.push(Op::Insert(r1, c2)); }
            _ => { ops.push(Op::Remove(r2, c2)); ops.push(Op::Insert(r2, c1)); }
        }
        for (r, c) in [(r1, c1), (r2, c2), (r1, c2), (r2, c1)] { queries.push(format!("q:{}:{}", r, c)); }
        queries.push(format!("ic:{}", c1)); queries.push(format!("ic:{}", c2)); queries.push(format!("ir:{}", r1)); queries.push(format!("ir:{}", r2));
        queries.push(format!("w:{}", c2)); queries.push(format!("v:{}", r2));
        let mut h = SparseMatrix::new(nr, nc);
        let ans = guarded({ let ops = ops.clone(); let queries = queries.clone(); move || {
            let mut first = String::new();
            for (i, op) in ops.iter().enumerate() { op.apply(&mut h); if i == 0 { first = (h.contains(r2, c2) as u8).to_string(); } }
            queries.iter().enumerate().map(|(qi, q)| {
                if qi == 0 { return first.clone(); }
                let t: Vec<&str> = q.split(':').collect();
                match t[0] {
                    "q" => (h.contains(t[1].parse().unwrap(), t[2].parse().unwrap()) as u8).to_string(),
                    "w" => h.col_weight(t[1].parse().unwrap()).to_string(),
                    "ic" | "ir" => {
                        let i: usize = t[1].parse().unwrap();
                        let mut v: Vec<usize> = if t[0] == "ic" { h.iter_col(i).copied().collect() } else { h.iter_row(i).copied().collect() };
                        v.sort_unstable();
                        if v.is_empty() { "-".to_string() } else { v.iter().map(|x| x.to_string()).collect::<Vec<_>>().join(",") }
                    }
                    _ => h.row_weight(t[1].parse().unwrap()).to_string(),
                }
            }).collect::<Vec<_>>().join(" ")
        }}).unwrap_or("panic".into());
        // the first query is answered right after the FIRST op (the colliding position must be absent then); it is sent as its own history
        let a: Vec<&str> = ans.split(' ').collect();
        ctx.emit(&format!("c17 big {} {} {} ? {}", nr, nc, ops[0].token(), queries[0]), a.first().copied().unwrap_or("panic"), true, &["more-than-2^32-positions"]);
        ctx.emit(&format!("c17 big {} {} {} ? {}", nr, nc, ops.iter().map(|o| o.token()).collect::<Vec<_>>().join(" "), queries[1..].join(" ")),
            &a.get(1..).map(|x| x.join(" ")).unwrap_or("panic".into()), true, &["more-than-2^32-positions"]);
    }
    let n = ctx.scale(1500, 40000);
    let maxdim = ctx.scale(8, 14);
    for case in 0..n {
        // every 15th history lives in a tall (resp. wide) matrix and starts by filling one whole column (row): lines of weight 65-100
        let shape = if case % 15 == 7 { 1 } else if case % 15 == 11 { 2 } else { 0 };
        let nr = match shape { 1 => rng.range(66, 100), 2 => rng.range(2, 6), _ => rng.range(1, maxdim) };
        let nc = match shape { 1 => rng.range(2, 6), 2 => rng.range(66, 100), _ => rng.range(1, maxdim) };
        let len = if shape != 0 { rng.range(5, 25) } else if case % 10 == 0 { rng.range(1, 5) } else { rng.range(5, 60) };
        // 2 % of histories end in an out-of-range operation (must panic on both sides)
        let oor_at = if rng.chance(1, 50) { Some(rng.below(len)) } else { None };
        let mut ops = Vec::new();
        let mut shadow: Vec<(usize, usize)> = Vec::new(); // positions known present (approximate)
        if shape == 1 {
            let c = rng.below(nc);
            ops.push(Op::SetCol(c, (0..nr).collect()));
            shadow.extend((0..nr).map(|r| (r, c)));
        } else if shape == 2 {
            let r = rng.below(nr);
            ops.push(Op::InsertRow(r, (0..nc).collect()));
            shadow.extend((0..nc).map(|c| (r, c)));
        }
        for k in 0..len {
            let oor = oor_at == Some(k);
            let kind = rng.below(100);
            let (mut r, mut c) = (rng.below(nr), rng.below(nc));
            // 30 % redundant single-entry ops: insert a present entry / remove an absent one
            let redundant = rng.chance(3, 10);
            if redundant && !shadow.is_empty() && kind < 30 {
                let p = *rng.pick(&shadow);
                r = p.0;
                c = p.1;
            }
            if oor {
                if rng.chance(1, 2) { r = nr + rng.below(3) } else { c = nc + rng.below(3) }
            }
            let op = if kind < 30 {
                Op::Insert(r, c)
            } else if kind < 45 {
                Op::Remove(r, c)
            } else if kind < 60 {
                Op::Toggle(r, c)
            } else if kind < 66 {
                Op::ClearRow(r)
            } else if kind < 72 {
                Op::ClearCol(c)
            } else if kind < 79 {
                Op::SetRow(r, rand_list(&mut rng, nc, oor))
            } else if kind < 86 {
                Op::SetCol(c, rand_list(&mut rng, nr, oor))
            } else if kind < 93 {
                Op::InsertRow(r, rand_list(&mut rng, nc, oor))
            } else {
                Op::InsertCol(c, rand_list(&mut rng, nr, oor))
            };
            if let Op::Insert(r, c) = op {
                shadow.push((r, c));
            }
            ops.push(op);
            if oor {
                break;
            }
        }
        let (i, o, eff) = run_history(nr, nc, &ops);
        let mut tags = vec![if oor_at.is_some() { "history-with-out-of-range-op" } else { "history-in-range" }];
        if o.ends_with("panic") {
            tags.push("impl-panicked");
        }
        for op in &ops {
            tags.push(match op {
                Op::Insert(..) => "op-insert",
                Op::Remove(..) => "op-remove",
                Op::Toggle(..) => "op-toggle",
                Op::ClearRow(..) => "op-clear_row",
                Op::ClearCol(..) => "op-clear_col",
                Op::SetRow(..) => "op-set_row",
                Op::SetCol(..) => "op-set_col",
                Op::InsertRow(..) => "op-insert_row",
                Op::InsertCol(..) => "op-insert_col",
            });
        }
        // non-trivial: at least two operations actually changed the matrix
        ctx.emit(&i, &o, eff >= 2, &tags);
    }
}
