//! Shared generators / printers for the decoder properties (C01, C03, C10, C18, C19).
use crate::fmt::*;
use crate::rng::Rng;
use crate::guarded;
use ldpc_toolbox::decoder::{DecoderOutput, LdpcDecoder};
use ldpc_toolbox::encoder::Encoder;
use ldpc_toolbox::gf2::GF2;
use ldpc_toolbox::sparse::SparseMatrix;
use ndarray::Array1;
use num_traits::{One, Zero};

pub const LIMITS: [usize; 6] = [0, 1, 2, 3, 5, 50];

/// Parity-check matrices whose checks each involve at least two bits.
/// Returns the matrix and the name of its family.
pub fn gen_matrix(rng: &mut Rng, max_cols: usize) -> (SparseMatrix, &'static str) {
    let fam = rng.below(8);
    let n = rng.range(3, max_cols.max(3));
    match fam {
        6 => {
            // more checks than bits (redundant / inconsistent checks): the syndrome test must still look at every row
            let n = n.min(24);
            let r = n + rng.range(1, n);
            let mut h = SparseMatrix::new(r, n);
            for j in 0..r {
                for _ in 0..rng.range(2, 4.min(n)) {
                    h.insert(j, rng.below(n));
                }
            }
            fix_rows(rng, &mut h);
            (h, "more-rows-than-columns")
        }
        7 => {
            // built with the bulk operations from index lists that REPEAT entries and are not sorted (set semantics must absorb them)
            let r = rng.range(1, n);
            let mut h = SparseMatrix::new(r, n);
            for j in 0..r {
                let w = rng.range(2, 5.min(n));
                let mut cols: Vec<usize> = (0..w).map(|_| rng.below(n)).collect();
                let dup = cols[rng.below(cols.len())];
                cols.insert(rng.below(cols.len() + 1), dup);
                h.insert_row(j, cols.iter());
            }
            for _ in 0..rng.below(3) {
                let c = rng.below(n);
                let rows: Vec<usize> = vec![rng.below(r), rng.below(r), rng.below(r)];
                h.insert_col(c, rows.iter());
            }
            fix_rows(rng, &mut h);
            (h, "built-by-bulk-inserts-with-repeated-indices")
        }
        0 => {
            // staircase (repeat-accumulate): H = [H0 | dual diagonal]; encodable, so codewords are available
            let r = rng.range(1, (n - 1).min(n * 2 / 3).max(1));
            let k = n - r;
            let mut h = SparseMatrix::new(r, n);
            for j in 0..r {
                h.insert(j, k + j);
                if j > 0 {
                    h.insert(j, k + j - 1);
                }
            }
            for c in 0..k {
                let w = rng.range(1, 3.min(r));
                for _ in 0..w {
                    h.insert(rng.below(r), c);
                }
            }
            // first row needs a second entry
            if h.row_weight(0) < 2 {
                h.insert(0, rng.below(k.max(1)).min(n - 1));
            }
            fix_rows(rng, &mut h);
            (h, "staircase")
        }
        1 => {
            // column-regular random
            let r = rng.range(2, (n - 1).max(2));
            let wc = rng.range(1, 3.min(r));
            let mut h = SparseMatrix::new(r, n);
            for c in 0..n {
                for _ in 0..wc {
                    h.insert(rng.below(r), c);
                }
            }
            fix_rows(rng, &mut h);
            (h, "column-regular")
        }
        2 => {
            // dense small
            let n = n.min(10);
            let r = rng.range(1, n);
            let mut h = SparseMatrix::new(r, n);
            for j in 0..r {
                for c in 0..n {
                    if rng.chance(1, 2) {
                        h.insert(j, c);
                    }
                }
            }
            fix_rows(rng, &mut h);
            (h, "dense")
        }
        3 => {
            // forest: each check connects a new variable to earlier ones (no cycles)
            let r = rng.range(1, n - 1);
            let mut h = SparseMatrix::new(r, n);
            let mut next = 1usize; // variables 0..next are in the tree
            for j in 0..r {
                if next >= n {
                    // remaining checks: attach to two fresh... none left; make a pendant pair on used ones is a cycle, so stop
                    h.insert(j, rng.below(next));
                    h.insert(j, (rng.below(next) + 1) % next.max(2));
                    continue;
                }
                h.insert(j, rng.below(next));
                let extra = rng.range(1, 3).min(n - next);
                for _ in 0..extra {
                    h.insert(j, next);
                    next += 1;
                }
            }
            fix_rows(rng, &mut h);
            (h, "forest-like")
        }
        4 => {
            // high-degree then low-degree checks (provokes stale scratch buffers)
            let r = rng.range(2, 6);
            let mut h = SparseMatrix::new(r, n);
            for j in 0..r {
                let w = if j % 2 == 0 { n.min(rng.range(4, 12)) } else { 2 };
                for _ in 0..w {
                    h.insert(j, rng.below(n));
                }
            }
            fix_rows(rng, &mut h);
            (h, "mixed-degree")
        }
        _ => {
            // random sparse with isolated / degree-one columns
            let r = rng.range(1, n);
            let mut h = SparseMatrix::new(r, n);
            for j in 0..r {
                let w = rng.range(2, 5.min(n));
                for _ in 0..w {
                    h.insert(j, rng.below(n));
                }
            }
            fix_rows(rng, &mut h);
            (h, "row-random")
        }
    }
}

/// make every row weight >= 2 (the precondition of the decoder properties)
pub fn fix_rows(rng: &mut Rng, h: &mut SparseMatrix) {
    let n = h.num_cols();
    for j in 0..h.num_rows() {
        while h.row_weight(j) < 2 {
            h.insert(j, rng.below(n));
        }
    }
}

pub fn ulp_step(x: f64, up: bool) -> f64 {
    if x == 0.0 {
        return if up { f64::from_bits(1) } else { -f64::from_bits(1) };
    }
    let b = x.to_bits();
    let nb = if (x > 0.0) == up { b + 1 } else { b - 1 };
    f64::from_bits(nb)
}

/// one LLR magnitude from a class; returns (value >= 0, class name)
pub fn gen_magnitude(rng: &mut Rng, class: usize) -> f64 {
    match class {
        0 => f64::from_bits(rng.range(1, 1000) as u64),                // subnormal
        1 => 1e-300 * (1.0 + rng.f64_unit()),                         // tiny
        2 => 0.01 + 0.2 * rng.f64_unit(),                             // small
        3 => 0.5 + 6.0 * rng.f64_unit(),                              // moderate
        4 => 10.0 + 40.0 * rng.f64_unit(),                            // large
        5 => 10f64.powf(10.0 + 20.0 * rng.f64_unit()).min(1e30),      // huge, <= 1e30
        6 => 0.0,                                                     // exact zero
        7 => {
            // 8-bit rounding boundaries: k/8 +- ulp and (k+1/2)/8 +- ulp
            let k = rng.below(131) as f64;
            let base = if rng.chance(1, 2) { k / 8.0 } else { (k + 0.5) / 8.0 };
            match rng.below(3) {
                0 => base,
                1 => ulp_step(base, true),
                _ => ulp_step(base, false).max(0.0),
            }
        }
        _ => 1e30,
    }
}

pub const CLASS_NAMES: [&str; 9] =
    ["llr-subnormal", "llr-tiny", "llr-small", "llr-moderate", "llr-large", "llr-huge", "llr-zero", "llr-8bit-boundary", "llr-1e30"];

/// A vector of channel LLRs for `h`: signs follow a codeword when the encoder accepts `h`
/// (with a few flips), otherwise random; magnitudes from one class or mixed; optionally a block of exact zeros.
pub fn gen_llrs(rng: &mut Rng, h: &SparseMatrix) -> (Vec<f64>, Vec<&'static str>) {
    let n = h.num_cols();
    let mut tags = Vec::new();
    let mut bits: Vec<bool> = (0..n).map(|_| rng.chance(1, 2)).collect();
    let mut from_codeword = false;
    if rng.chance(3, 4) && h.num_rows() < n {
        let hh = h.clone();
        if let Ok(Ok(enc)) = guarded(move || Encoder::from_h(&hh)) {
            let k = n - h.num_rows();
            let msg: Vec<GF2> = (0..k).map(|_| if rng.chance(1, 2) { GF2::one() } else { GF2::zero() }).collect();
            let cw = enc.encode(&Array1::from_vec(msg));
            bits = cw.iter().map(|b| b.is_one()).collect();
            from_codeword = true;
        }
    }
    if !from_codeword && rng.chance(1, 3) {
        bits = vec![false; n]; // all-zero codeword is always valid
        from_codeword = true;
    }
    let flips = if from_codeword { [0, 0, 1, 1, 2, 3, 5][rng.below(7)] } else { 0 };
    tags.push(if from_codeword { if flips == 0 { "signs-codeword" } else { "signs-codeword-with-flips" } } else { "signs-random" });
    let mixed = rng.chance(1, 3);
    let class = rng.below(9);
    tags.push(if mixed { "llr-mixed-classes" } else { CLASS_NAMES[class] });
    let mut llrs: Vec<f64> = bits
        .iter()
        .map(|&b| {
            let c = if mixed { rng.below(9) } else { class };
            let m = gen_magnitude(rng, c);
            if b { -m } else { m }
        })
        .collect();
    for _ in 0..flips.min(n) {
        let i = rng.below(n);
        llrs[i] = -llrs[i];
        if llrs[i] == 0.0 {
            llrs[i] = if bits[i] { 0.7 } else { -0.7 };
        }
    }
    if rng.chance(1, 5) {
        // punctured block of exact zeros
        let len = rng.range(1, (n / 3).max(1));
        let start = rng.below(n - len + 1);
        for x in &mut llrs[start..start + len] {
            *x = 0.0;
        }
        tags.push("punctured-zero-block");
    }
    if rng.chance(1, 10) {
        let i = rng.below(n);
        llrs[i] = -0.0;
        tags.push("negative-zero");
    }
    (llrs, tags)
}

pub fn fmt_call(limit: usize, llrs: &[f64]) -> String {
    if llrs.is_empty() {
        return format!("{}:-", limit);
    }
    format!("{}:{}", limit, llrs.iter().map(|x| format!("{:016x}", x.to_bits())).collect::<Vec<_>>().join(","))
}

pub fn parse_call(s: &str) -> Option<(usize, Vec<f64>)> {
    let (a, b) = s.split_once(':')?;
    let limit = a.parse().ok()?;
    let llrs = if b == "-" {
        vec![]
    } else {
        b.split(',').map(|t| u64::from_str_radix(t, 16).ok().map(f64::from_bits)).collect::<Option<Vec<_>>>()?
    };
    Some((limit, llrs))
}

pub fn fmt_res(r: &Result<Result<DecoderOutput, DecoderOutput>, String>) -> String {
    match r {
        Err(_) => "panic".to_string(),
        Ok(Ok(o)) => format!("S:{}:{}", bools(o.codeword.iter().map(|&b| b == 1)), o.iterations),
        Ok(Err(o)) => format!("F:{}:{}", bools(o.codeword.iter().map(|&b| b == 1)), o.iterations),
    }
}

/// run a history of calls on one decoder object; a panic ends the history
pub fn run_history(dec: &mut Box<dyn LdpcDecoder>, calls: &[(usize, Vec<f64>)]) -> Vec<String> {
    let mut out = Vec::new();
    for (limit, llrs) in calls {
        let r = {
            let d = std::panic::AssertUnwindSafe(&mut *dec);
            let l = llrs.clone();
            let lim = *limit;
            guarded(move || {
                let mut d = d;
                d.0.decode(&l, lim)
            })
        };
        let s = fmt_res(&r);
        let p = s == "panic";
        out.push(s);
        if p {
            break;
        }
    }
    out
}

pub fn parse_sm(rows: &str, cols: &str) -> Option<SparseMatrix> {
    // rebuild with the same per-row and per-column order: insert in an order compatible with both lists
    let pl = |s: &str| -> Option<Vec<Vec<usize>>> {
        if s == "_" { return Some(vec![]); }
        s.split(';').map(|l| if l == "-" { Some(vec![]) } else { l.split(',').map(|t| t.parse().ok()).collect() }).collect()
    };
    let rows = pl(rows)?;
    let cols = pl(cols)?;
    // greedy topological merge: repeatedly insert an entry that is the next pending in both its row and its column
    let mut h = SparseMatrix::new(rows.len(), cols.len());
    let mut rp = vec![0usize; rows.len()];
    let mut cp = vec![0usize; cols.len()];
    let total: usize = rows.iter().map(|r| r.len()).sum();
    let mut done = 0;
    while done < total {
        let mut progressed = false;
        for r in 0..rows.len() {
            while rp[r] < rows[r].len() {
                let c = rows[r][rp[r]];
                if c < cols.len() && cp[c] < cols[c].len() && cols[c][cp[c]] == r {
                    h.insert(r, c);
                    rp[r] += 1;
                    cp[c] += 1;
                    done += 1;
                    progressed = true;
                } else {
                    break;
                }
            }
        }
        if !progressed {
            return None;
        }
    }
    Some(h)
}
