//! C03: the generic decoders with checker-supplied arithmetics, full call traces.
use crate::arith_test::{Affine, IntMinSum, Trace};
use crate::dec::*;
use crate::fmt::*;
use crate::rng::Rng;
use crate::{Ctx, guarded};
use ldpc_toolbox::decoder::{flooding, horizontal_layered};
use ldpc_toolbox::sparse::SparseMatrix;
use std::sync::{Arc, Mutex};

fn run_one(arith: &str, sched: &str, h: &SparseMatrix, limit: usize, llrs: &[f64]) -> String {
    let log = Arc::new(Mutex::new(Vec::new()));
    let (h2, l2, log2) = (h.clone(), llrs.to_vec(), log.clone());
    let (arith, sched) = (arith.to_string(), sched.to_string());
    let r = guarded(move || match (arith.as_str(), sched.as_str()) {
        ("ms", "F") => flooding::Decoder::new(h2, Trace { inner: IntMinSum, log: log2 }).decode(&l2, limit),
        ("ms", _) => horizontal_layered::Decoder::new(h2, Trace { inner: IntMinSum, log: log2 }).decode(&l2, limit),
        (_, "F") => flooding::Decoder::new(h2, Trace { inner: Affine, log: log2 }).decode(&l2, limit),
        (_, _) => horizontal_layered::Decoder::new(h2, Trace { inner: Affine, log: log2 }).decode(&l2, limit),
    });
    let mut out = vec![fmt_res(&r)];
    if r.is_ok() {
        out.extend(log.lock().unwrap().iter().cloned());
    }
    out.join(" ")
}

pub fn run(ctx: &mut Ctx, replay: Option<&[String]>) {
    if let Some(lines) = replay {
        for line in lines {
            let t: Vec<&str> = line.split_whitespace().take_while(|t| *t != "=>").collect();
            if t.len() != 6 || t[0] != "c03" {
                continue;
            }
            let (Some(h), Some((limit, llrs))) = (parse_sm(t[3], t[4]), parse_call(t[5])) else { continue };
            let o = run_one(t[1], t[2], &h, limit, &llrs);
            ctx.emit(&t.join(" "), &o, true, &["replay"]);
        }
        return;
    }
    let mut rng = Rng::new(ctx.seed, 3);
    let n = ctx.scale(1500, 40000);
    let max_cols = ctx.scale(30, 120);
    for _ in 0..n {
        let (mut h, fam) = gen_matrix(&mut rng, max_cols);
        // the property quantifies over ALL matrices: a quarter of the cases get checks of weight 1 or 0
        let low_weight = rng.chance(1, 4);
        if low_weight {
            for _ in 0..rng.range(1, 2) {
                let r = rng.below(h.num_rows());
                h.clear_row(r);
                if rng.chance(3, 4) {
                    h.insert(r, rng.below(h.num_cols()));
                }
            }
        }
        let (llrs, mut tags) = gen_llrs(&mut rng, &h);
        tags.push(if low_weight { "has-check-of-weight-0-or-1" } else { "all-checks-weight>=2" });
        let limit = *rng.pick(&LIMITS);
        let limit = if limit == 50 { rng.range(4, 12) } else { limit };
        let arith = if rng.chance(1, 2) { "ms" } else { "aff" };
        let sched = if rng.chance(1, 2) { "F" } else { "L" };
        let o = run_one(arith, sched, &h, limit, &llrs);
        let input = format!("c03 {} {} {} {}", arith, sched, sm(&h), fmt_call(limit, &llrs));
        tags.push(fam);
        tags.push(if arith == "ms" { "arith-intminsum" } else { "arith-affine" });
        tags.push(if sched == "F" { "schedule-flooding" } else { "schedule-layered" });
        let iters = o.split_whitespace().next().and_then(|s| s.rsplit(':').next()).and_then(|s| s.parse::<usize>().ok()).unwrap_or(0);
        tags.push(if iters == 0 { "iterations-0" } else if iters == 1 { "iterations-1" } else { "iterations-2+" });
        // non-trivial: at least one full iteration was executed (a trace exists)
        ctx.emit(&input, &o, iters >= 1, &tags);
    }
}
