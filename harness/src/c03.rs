//! C03: the generic decoders with checker-supplied arithmetics, full call traces.
use crate::arith_test::{Affine, IntMinSum, Trace};
use crate::dec::*;
use crate::fmt::*;
use crate::rng::Rng;
use crate::{Ctx, guarded};
use ldpc_toolbox::decoder::{flooding, horizontal_layered};
use ldpc_toolbox::sparse::SparseMatrix;
use std::sync::{Arc, Mutex};

/// Runs the calls `warm ++ [(limit, llrs)]` on ONE decoder object; the trace of the last call only is reported
/// (C03 holds from every incoming state of the decoder object, not only for a freshly built one).
fn run_one(arith: &str, sched: &str, h: &SparseMatrix, warm: &[(usize, Vec<f64>)], limit: usize, llrs: &[f64]) -> String {
    let log = Arc::new(Mutex::new(Vec::new()));
    let (h2, l2, log2, log3) = (h.clone(), llrs.to_vec(), log.clone(), log.clone());
    let (arith, sched) = (arith.to_string(), sched.to_string());
    let warm = warm.to_vec();
    macro_rules! go {
        ($dec:expr) => {{
            let mut d = $dec;
            for (wl, wx) in &warm {
                let _ = d.decode(wx, *wl);
            }
            log3.lock().unwrap().clear();
            d.decode(&l2, limit)
        }};
    }
    let r = guarded(move || match (arith.as_str(), sched.as_str()) {
        ("ms", "F") => go!(flooding::Decoder::new(h2, Trace { inner: IntMinSum, log: log2 })),
        ("ms", _) => go!(horizontal_layered::Decoder::new(h2, Trace { inner: IntMinSum, log: log2 })),
        (_, "F") => go!(flooding::Decoder::new(h2, Trace { inner: Affine, log: log2 })),
        (_, _) => go!(horizontal_layered::Decoder::new(h2, Trace { inner: Affine, log: log2 })),
    });
    let mut out = vec![fmt_res(&r)];
    if r.is_ok() {
        out.extend(log.lock().unwrap().iter().cloned());
    }
    out.join(" ")
}

/// A random forest with every check of weight >= 2: checks join variables of distinct components (union-find).
fn gen_forest(rng: &mut Rng, n: usize) -> SparseMatrix {
    let mut comp: Vec<usize> = (0..n).collect();
    fn find(c: &mut Vec<usize>, x: usize) -> usize {
        let mut r = x;
        while c[r] != r {
            r = c[r];
        }
        c[x] = r;
        r
    }
    let mut rows: Vec<Vec<usize>> = Vec::new();
    let want = rng.range(1, n - 1);
    for _ in 0..want {
        let w = rng.range(2, 4);
        let mut picked: Vec<usize> = Vec::new();
        for _ in 0..(4 * n) {
            if picked.len() == w {
                break;
            }
            let v = rng.below(n);
            let rv = find(&mut comp, v);
            if picked.iter().all(|&u| find(&mut comp, u) != rv) {
                picked.push(v);
            }
        }
        if picked.len() < 2 {
            break;
        }
        let r0 = find(&mut comp, picked[0]);
        for &u in &picked[1..] {
            let ru = find(&mut comp, u);
            comp[ru] = r0;
        }
        rows.push(picked);
    }
    let mut h = SparseMatrix::new(rows.len(), n);
    for (j, r) in rows.iter().enumerate() {
        for &c in r {
            h.insert(j, c);
        }
    }
    h
}

/// C03 exactness clause: the four exact sum-product arithmetics x both schedules on cycle-free matrices.
const EXACT: [&str; 8] = ["Phif64", "Phif32", "Tanhf64", "Tanhf32", "HLPhif64", "HLPhif32", "HLTanhf64", "HLTanhf32"];

fn run_tree(name: &str, h: &SparseMatrix, limit: usize, llrs: &[f64]) -> String {
    use ldpc_toolbox::decoder::factory::{DecoderFactory, DecoderImplementation};
    use std::str::FromStr;
    let Ok(imp) = <DecoderImplementation as FromStr>::from_str(name) else { return "badname".into() };
    let mut d = imp.build_decoder(h.clone());
    run_history(&mut d, &[(limit, llrs.to_vec())]).join(" ")
}

fn tree_cases(ctx: &mut Ctx) {
    let mut rng = Rng::new(ctx.seed, 33);
    let n = ctx.scale(400, 6000);
    for k in 0..n {
        let cols = rng.range(3, 12);
        let h = gen_forest(&mut rng, cols);
        if h.num_rows() == 0 {
            continue;
        }
        // channel LLRs: a random sign pattern (often far from a codeword), magnitudes 0.25 .. 6
        // a third of the cases with large magnitudes (the tanh clamps 18 / 9 act on x/2, so |x| up to 30 / 15 is still exact)
        let name = EXACT[k % EXACT.len()];
        // large magnitudes only for the tanh rule, whose saturation (clamp of x/2 at 18 / 9) the reference reproduces; the phi rule saturates
        // differently (1e-30 guard; in f32 tanh rounds to 1 beyond |x| ~ 18), so it stays where no saturation can act
        // (in f32 the rounding of tanh next to 1 moves a saturated message by up to ~0.7, more than any margin: the f32 names stay below every
        // saturation, |LLR| <= 3, totals <= 12)
        let big = name.contains("Tanhf64") && rng.chance(1, 3);
        let (lo, hi) = if big { (8.0, 30.0) } else if name.ends_with("32") { (0.25, 3.0) } else { (0.25, 6.0) };
        // a quarter of the forests carry erasures: exact-zero channel LLRs on up to three bits (punctured / erased positions)
        let erasures = rng.chance(1, 4);
        let llrs: Vec<f64> = (0..cols)
            .map(|_| {
                if erasures && rng.chance(1, 4) { return 0.0; }
                let m = lo + (hi - lo) * rng.f64_unit();
                if rng.chance(1, 2) { -m } else { m }
            })
            .collect();
        let limit = *rng.pick(&[1usize, 2, 3, 4, 6, 8, 12, 20]);
        let o = run_tree(name, &h, limit, &llrs);
        let input = format!("c03 tree {} {} {}", name, sm(&h), fmt_call(limit, &llrs));
        let iters = o.rsplit(':').next().and_then(|s| s.parse::<usize>().ok()).unwrap_or(0);
        let tags = [
            "forest",
            if name.starts_with("HL") { "schedule-layered" } else { "schedule-flooding" },
            if name.ends_with("32") { "f32" } else { "f64" },
            if o.starts_with("S:") { "result-success" } else if o.starts_with("F:") { "result-failure" } else { "result-panic" },
            if iters == 0 { "iterations-0" } else if iters == 1 { "iterations-1" } else { "iterations-2+" },
            if big { "llr-magnitude-large" } else { "llr-magnitude-moderate" },
        ];
        ctx.emit(&input, &o, iters >= 1, &tags);
    }
}

pub fn run(ctx: &mut Ctx, replay: Option<&[String]>) {
    if let Some(lines) = replay {
        for line in lines {
            let t: Vec<&str> = line.split_whitespace().take_while(|t| *t != "=>").collect();
            if t.len() == 6 && t[0] == "c03" && t[1] == "tree" {
                let (Some(h), Some((limit, llrs))) = (parse_sm(t[3], t[4]), parse_call(t[5])) else { continue };
                let o = run_tree(t[2], &h, limit, &llrs);
                ctx.emit(&t.join(" "), &o, true, &["replay"]);
                continue;
            }
            if t.len() < 6 || t[0] != "c03" {
                continue;
            }
            let Some(h) = parse_sm(t[3], t[4]) else { continue };
            let mut calls: Vec<(usize, Vec<f64>)> = t[5..].iter().filter_map(|c| parse_call(c)).collect();
            if calls.len() != t.len() - 5 { continue; }
            let (limit, llrs) = calls.pop().unwrap();
            let o = run_one(t[1], t[2], &h, &calls, limit, &llrs);
            ctx.emit(&t.join(" "), &o, true, &["replay"]);
        }
        return;
    }
    let mut rng = Rng::new(ctx.seed, 3);
    let n = ctx.scale(1500, 40000);
    let max_cols = ctx.scale(30, 120);
    for _ in 0..n {
        let (mut h, fam) = gen_matrix(&mut rng, max_cols);
        // the property quantifies over ALL matrices: a quarter of the cases get checks of weight 1 or 0
        let low_weight = rng.chance(1, 4);
        if low_weight {
            for _ in 0..rng.range(1, 2) {
                let r = rng.below(h.num_rows());
                h.clear_row(r);
                if rng.chance(3, 4) {
                    h.insert(r, rng.below(h.num_cols()));
                }
            }
        }
        let (llrs, mut tags) = gen_llrs(&mut rng, &h);
        tags.push(if low_weight { "has-check-of-weight-0-or-1" } else { "all-checks-weight>=2" });
        let limit = *rng.pick(&LIMITS);
        let limit = if limit == 50 { rng.range(4, 12) } else { limit };
        let arith = if rng.chance(1, 2) { "ms" } else { "aff" };
        let sched = if rng.chance(1, 2) { "F" } else { "L" };
        // a third of the cases: one or two earlier decodes (other LLRs, other limits) on the same decoder object
        let mut warm: Vec<(usize, Vec<f64>)> = Vec::new();
        if rng.chance(1, 3) {
            for _ in 0..rng.range(1, 2) {
                let (wl, _) = gen_llrs(&mut rng, &h);
                warm.push((*rng.pick(&[0usize, 1, 2, 3, 5]), wl));
            }
            tags.push("decoder-object-reused");
        } else {
            tags.push("decoder-object-fresh");
        }
        let o = run_one(arith, sched, &h, &warm, limit, &llrs);
        let input = format!("c03 {} {} {} {}{}", arith, sched, sm(&h),
            warm.iter().map(|(l, x)| format!("{} ", fmt_call(*l, x))).collect::<String>(), fmt_call(limit, &llrs));
        tags.push(fam);
        tags.push(if arith == "ms" { "arith-intminsum" } else { "arith-affine" });
        tags.push(if sched == "F" { "schedule-flooding" } else { "schedule-layered" });
        let iters = o.split_whitespace().next().and_then(|s| s.rsplit(':').next()).and_then(|s| s.parse::<usize>().ok()).unwrap_or(0);
        tags.push(if iters == 0 { "iterations-0" } else if iters == 1 { "iterations-1" } else { "iterations-2+" });
        // non-trivial: at least one full iteration was executed (a trace exists)
        ctx.emit(&input, &o, iters >= 1, &tags);
        // "every iteration limit": a frame that is known to converge is decoded again with the largest limit there is
        if o.starts_with("S:") && iters >= 1 && warm.is_empty() && rng.chance(1, 4) {
            let o2 = run_one(arith, sched, &h, &[], usize::MAX, &llrs);
            let input2 = format!("c03 {} {} {} {}", arith, sched, sm(&h), fmt_call(usize::MAX, &llrs));
            ctx.emit(&input2, &o2, true, &["limit-usize-max"]);
        }
    }
    tree_cases(ctx);
}
