//! C11: BFS distances, local girth, girth (bounded and unbounded), all roots.
use crate::fmt::*;
use crate::rng::Rng;
use crate::{Ctx, guarded};
use ldpc_toolbox::sparse::{Node, SparseMatrix};

fn opts(l: &[Option<usize>]) -> String {
    if l.is_empty() { "_".to_string() } else { l.iter().map(|o| o.map(|n| n.to_string()).unwrap_or("x".into())).collect::<Vec<_>>().join(",") }
}

pub fn one(h: &SparseMatrix, root: Node, max: Option<usize>) -> String {
    let h2 = h.clone();
    match guarded(move || {
        let b = h2.bfs(root);
        let (lg, g) = match max {
            Some(m) => (h2.girth_at_node_with_max(root, m), h2.girth_with_max(m)),
            None => (h2.girth_at_node(root), h2.girth()),
        };
        (b, lg, g)
    }) {
        Ok((b, lg, g)) => format!("{} {} {} {}", opts(&b.row_nodes_distance), opts(&b.col_nodes_distance), opt_nat(lg), opt_nat(g)),
        Err(_) => "panic".to_string(),
    }
}

pub fn gen_graph(rng: &mut Rng, maxd: usize) -> (SparseMatrix, &'static str) {
    let nr = rng.range(1, maxd);
    let nc = rng.range(1, maxd);
    let mut h = SparseMatrix::new(nr, nc);
    let fam = rng.below(10);
    let name = match fam {
        0 => {
            // forest: attach each new node to an earlier node of the other side
            let mut rows_used = vec![0usize];
            let mut cols_used: Vec<usize> = vec![];
            let total = rng.range(1, nr + nc - 1);
            let (mut nr_next, mut nc_next) = (1usize, 0usize);
            for _ in 0..total {
                if (rng.chance(1, 2) || nr_next >= nr) && nc_next < nc && !rows_used.is_empty() {
                    let r = *rng.pick(&rows_used);
                    h.insert(r, nc_next);
                    cols_used.push(nc_next);
                    nc_next += 1;
                } else if nr_next < nr && !cols_used.is_empty() {
                    let c = *rng.pick(&cols_used);
                    h.insert(nr_next, c);
                    rows_used.push(nr_next);
                    nr_next += 1;
                }
            }
            "forest"
        }
        1 => {
            // a single cycle of length 2k with pendant paths / trees attached
            let k = rng.range(2, nr.min(nc).max(2)).min(nr).min(nc);
            if k >= 2 {
                for j in 0..k {
                    h.insert(j, j);
                    h.insert(j, (j + 1) % k);
                }
            }
            // pendant attachments
            for c in k..nc {
                if rng.chance(2, 3) { h.insert(rng.below(k.max(1)), c); }
            }
            for r in k..nr {
                if rng.chance(2, 3) { h.insert(r, rng.below(nc)); }
            }
            "unicyclic-with-pendants"
        }
        2 => {
            for r in 0..nr { for c in 0..nc { if rng.chance(1, 2) { h.insert(r, c); } } }
            "dense"
        }
        3 => {
            // disconnected blocks
            for r in 0..nr { for c in 0..nc { if r % 2 == c % 2 && rng.chance(1, 2) { h.insert(r, c); } } }
            "disconnected"
        }
        4 => {
            // two cycles sharing a path (theta graph) plus a pendant path
            let k = nr.min(nc);
            for j in 0..k { h.insert(j, j); if j + 1 < k { h.insert(j, j + 1); } }
            if k >= 3 { h.insert(k - 1, 0); h.insert(k / 2, 0); }
            if nc > k && nr >= 1 { h.insert(rng.below(nr), k); }
            "theta-with-pendant"
        }
        5 => {
            // sparse random
            let e = rng.range(0, nr + nc);
            for _ in 0..e { h.insert(rng.below(nr), rng.below(nc)); }
            "sparse-random"
        }
        6 => {
            // the root column 0 on a long cycle whose arms carry shorter cycles avoiding it; entries inserted in random order
            let k = nr.min(nc).max(3).min(nr).min(nc);
            let mut entries: Vec<(usize, usize)> = Vec::new();
            for j in 0..k { entries.push((j, j)); entries.push((j, (j + 1) % k)); }
            // short cycles (4-cycles) hanging on the arms: duplicate a 2x2 block using spare rows/columns
            let mut spare_r = k;
            let mut spare_c = k;
            for _ in 0..rng.range(1, 3) {
                if spare_r >= nr || spare_c >= nc || k < 3 { break; }
                let a = rng.range(1, k - 1); // a row on an arm (not adjacent to column 0 if possible)
                let c1 = (a + 1) % k;
                entries.push((a, spare_c)); entries.push((spare_r, spare_c)); entries.push((spare_r, c1));
                spare_r += 1; spare_c += 1;
            }
            for i in (1..entries.len()).rev() { entries.swap(i, rng.below(i + 1)); }
            for (r, c) in entries { if r < nr && c < nc { h.insert(r, c); } }
            "root-cycle-with-short-cycles-on-arms-shuffled"
        }
        7 => {
            // two clusters with short cycles (complete bipartite blocks), a root column joined to one row of each cluster, and a
            // single cross edge between the clusters: the root lies on one long cycle whose two arms carry shorter cycles
            let (ra, ca, rb, cb) = (rng.range(2, 3), rng.range(2, 3), rng.range(2, 3), rng.range(2, 3));
            if nr >= ra + rb && nc >= 1 + ca + cb {
                let mut entries: Vec<(usize, usize)> = Vec::new();
                for r in 0..ra { for c in 0..ca { if rng.chance(5, 6) { entries.push((r, 1 + c)); } } }
                for r in 0..rb { for c in 0..cb { if rng.chance(5, 6) { entries.push((ra + r, 1 + ca + c)); } } }
                entries.push((rng.below(ra), 0));
                entries.push((ra + rng.below(rb), 0));
                entries.push((rng.below(ra), 1 + ca + rng.below(cb)));
                // random relabelling of rows and columns, random insertion order
                let mut rp: Vec<usize> = (0..nr).collect();
                let mut cp: Vec<usize> = (0..nc).collect();
                for i in (1..nr).rev() { rp.swap(i, rng.below(i + 1)); }
                for i in (1..nc).rev() { cp.swap(i, rng.below(i + 1)); }
                for i in (1..entries.len()).rev() { entries.swap(i, rng.below(i + 1)); }
                for (r, c) in entries { h.insert(rp[r], cp[c]); }
            }
            "two-clusters-joined-through-root-and-cross-edge"
        }
        8 => {
            // two arms from the root column, each a path of 0-2 hops ending in a 4-cycle; the far corners of the two 4-cycles
            // are joined by one cross edge, so the only cycle through the root is long while each arm carries a short cycle
            let (mut nrow, mut ncol) = (0usize, 1usize); // column 0 is the root
            let mut entries: Vec<(usize, usize)> = Vec::new();
            let pa = rng.below(3);
            let pb = if pa % 2 == 0 { 1 } else { rng.below(2) * 2 };
            let mut far: Vec<(bool, usize)> = Vec::new(); // (is_row, index)
            for p in [pa, pb] {
                // first hop: a row adjacent to the root
                let mut cur_is_row = true;
                let mut cur = nrow; nrow += 1;
                entries.push((cur, 0));
                for _ in 0..p {
                    if cur_is_row { entries.push((cur, ncol)); cur = ncol; ncol += 1; } else { entries.push((nrow, cur)); cur = nrow; nrow += 1; }
                    cur_is_row = !cur_is_row;
                }
                // 4-cycle cur - x1 - f - x2 - cur
                if cur_is_row {
                    let (x1, x2, f) = (ncol, ncol + 1, nrow); ncol += 2; nrow += 1;
                    entries.extend([(cur, x1), (cur, x2), (f, x1), (f, x2)]);
                    far.push((true, f));
                } else {
                    let (x1, x2, f) = (nrow, nrow + 1, ncol); nrow += 2; ncol += 1;
                    entries.extend([(x1, cur), (x2, cur), (x1, f), (x2, f)]);
                    far.push((false, f));
                }
            }
            match (far[0], far[1]) {
                ((true, r), (false, c)) | ((false, c), (true, r)) => entries.push((r, c)),
                _ => {}
            }
            if nrow <= nr && ncol <= nc {
                let mut rp: Vec<usize> = (0..nr).collect();
                let mut cp: Vec<usize> = (0..nc).collect();
                for i in (1..nr).rev() { rp.swap(i, rng.below(i + 1)); }
                for i in (1..nc).rev() { cp.swap(i, rng.below(i + 1)); }
                for i in (1..entries.len()).rev() { entries.swap(i, rng.below(i + 1)); }
                for (r, c) in entries { h.insert(rp[r], cp[c]); }
            }
            "two-arms-each-ending-in-a-4-cycle-joined-at-far-corners"
        }
        _ => {
            // the shape of defect D5: pendant path attached to a 4-cycle
            if nr >= 3 && nc >= 3 {
                for (r, c) in [(0, 0), (0, 1), (1, 1), (1, 2), (2, 2), (2, 1)] { h.insert(r, c); }
            }
            for _ in 0..rng.below(4) { h.insert(rng.below(nr), rng.below(nc)); }
            "pendant-path-on-4-cycle"
        }
    };
    // half of the graphs are rebuilt with a random insertion order (the adjacency-list order drives the search order)
    if rng.chance(1, 2) {
        let mut entries: Vec<(usize, usize)> = h.iter_all().collect();
        for i in (1..entries.len()).rev() { entries.swap(i, rng.below(i + 1)); }
        let mut g = SparseMatrix::new(nr, nc);
        for (r, c) in entries { g.insert(r, c); }
        return (g, name);
    }
    (h, name)
}

pub fn run(ctx: &mut Ctx, replay: Option<&[String]>) {
    let node = |s: &str| -> Option<Node> {
        let n: usize = s[1..].parse().ok()?;
        Some(if s.starts_with('r') { Node::Row(n) } else { Node::Col(n) })
    };
    if let Some(lines) = replay {
        for line in lines {
            let t: Vec<&str> = line.split_whitespace().take_while(|t| *t != "=>").collect();
            if t.len() == 5 && t[0] == "c11" {
                if let (Some(h), Some(root)) = (crate::dec::parse_sm(t[1], t[2]), node(t[3])) {
                    let max = if t[4] == "inf" { None } else { t[4].parse().ok() };
                    ctx.emit(&t.join(" "), &one(&h, root, max), true, &["replay"]);
                }
            }
        }
        return;
    }
    let mut rng = Rng::new(ctx.seed, 11);
    // corpus: defect D5
    let d5 = sm_from(3, 3, &[(0, 0), (0, 1), (1, 1), (1, 2), (2, 2), (2, 1)]);
    for (root, name) in [(Node::Col(0), "c0"), (Node::Row(0), "r0"), (Node::Col(1), "c1")] {
        ctx.emit(&format!("c11 {} {} inf", sm(&d5), name), &one(&d5, root, None), true, &["corpus-pendant-path-on-4-cycle"]);
    }
    // a root of weight 65537 and more: the shortest cycle through it leaves through neighbours number i and i + 65536 of its adjacency
    // list (labels of the branches of the search must not be 16 bits wide).  The graph is far beyond the list-based model; the local
    // girth and the BFS distances are known by construction: row 0 holds columns 0 .. w-1, a path of `extra` further columns joins
    // column i and column i + 65536 through rows 1 .. extra+1, so the only cycle has length 4 + 2 extra and passes through row 0.
    for v in 0..ctx.scale(3, 12) {
        let w = 65537 + rng.below(200);
        let extra = v % 3;
        let i = rng.below(w - 65536);
        let mut h = SparseMatrix::new(extra + 2, w + extra);
        for c in 0..w { h.insert(0, c); }
        // rows 1..=extra+1: row 1 has column i, last row has column i+65536, consecutive rows share a fresh column w+j
        h.insert(1, i);
        for j in 0..extra { h.insert(1 + j, w + j); h.insert(2 + j, w + j); }
        h.insert(1 + extra, i + 65536);
        let cyc = 4 + 2 * extra;
        for (root, name) in [(Node::Row(0), "r0"), (Node::Col(i), "ci"), (Node::Col(i + 65536), "cj"), (Node::Col((i + 1) % 65536), "coff")] {
            for max in [None, Some(cyc), Some(cyc - 2)] {
                let h2 = h.clone();
                let got = guarded(move || match max { Some(m) => h2.girth_at_node_with_max(root, m), None => h2.girth_at_node(root) });
                let want = if name == "coff" || max == Some(cyc - 2) { None } else { Some(cyc) };
                let o = match got { Ok(g) => opt_nat(g), Err(_) => "panic".to_string() };
                ctx.emit(&format!("c11 known {} root-of-weight-{}-cycle-{}-{}-{}", opt_nat(want), w, cyc, name, max.map(|m| m.to_string()).unwrap_or("inf".into())), &o, true,
                    &["root-of-weight-above-65536"]);
            }
        }
    }
    // a path of 33 000+ nodes (col 0 - row 0 - col 1 - row 1 - ...): BFS distances up to 2^15 and 2^16 and beyond (a distance must not be
    // kept in 15 or 16 bits); known by construction: column k is at distance 2k, row k at distance 2k + 1 from column 0; no cycle anywhere
    for v in 0..ctx.scale(1, 4) {
        let n = if v % 2 == 0 { 16_500 + rng.below(500) } else { 33_000 + rng.below(500) };
        let mut h = SparseMatrix::new(n - 1, n);
        for k in 0..n - 1 { h.insert(k, k); h.insert(k, k + 1); }
        let h2 = h.clone();
        match guarded(move || (h2.bfs(Node::Col(0)), h2.girth_at_node(Node::Col(0)))) {
            Ok((b, lg)) => {
                let mut ks: Vec<usize> = vec![0, 1, 127, 128, 16383, 16384, 16385, 32767, 32768, 32769, n - 2, n - 1];
                for _ in 0..12 { ks.push(rng.below(n)); }
                for k in ks.into_iter().filter(|&k| k < n) {
                    ctx.emit(&format!("c11 known {} bfs-distance-on-a-path-of-{}-columns-from-c0-to-c{}", 2 * k, n, k), &opt_nat(b.col_nodes_distance[k]), true, &["path-longer-than-2^15"]);
                    if k < n - 1 {
                        ctx.emit(&format!("c11 known {} bfs-distance-on-a-path-of-{}-columns-from-c0-to-r{}", 2 * k + 1, n, k), &opt_nat(b.row_nodes_distance[k]), true, &["path-longer-than-2^15"]);
                    }
                }
                ctx.emit(&format!("c11 known none local-girth-on-a-path-of-{}-columns", n), &opt_nat(lg), true, &["path-longer-than-2^15"]);
            }
            Err(_) => ctx.emit(&format!("c11 known no-panic bfs-on-a-path-of-{}-columns", n), "panic", true, &["path-longer-than-2^15"]),
        }
    }
    // wide graphs (hundreds of columns) whose cycles sit far from column 0, behind long acyclic stretches of columns: the global girth must
    // not depend on how the scan over the columns is split up or reduced
    for v in 0..ctx.scale(3, 12) {
        let (nr, nc) = (150 + 7 * v, 300 + 131 * v);
        let mut h = SparseMatrix::new(nr, nc);
        for j in 0..nc { h.insert((j * 7 + v) % nr, j); }                 // every column one leaf edge: a forest of stars
        let c0 = 140 + 37 * v + rng.below(100);                           // a cycle of length 4 + 2v through columns c0, c0+1, ...
        let len = 2 + v % 3;
        let rows: Vec<usize> = (0..len).map(|i| (c0 * 3 + i * 11) % nr).collect();
        for i in 0..len { h.insert(rows[i], c0 + i); h.insert(rows[(i + 1) % len], c0 + i); }
        for (root, name) in [(Node::Col(c0), format!("c{}", c0)), (Node::Col(0), "c0".to_string()), (Node::Row(rows[0]), format!("r{}", rows[0]))] {
            for max in [None, Some(2 * len + 2), Some(2 * len)] {
                let o = one(&h, root, max);
                ctx.emit(&format!("c11 {} {} {}", sm(&h), name, max.map(|m| m.to_string()).unwrap_or("inf".into())), &o, true, &["wide-graph-cycle-behind-acyclic-columns"]);
            }
        }
    }
    let maxd = ctx.scale(12, 20);
    for k in 0..ctx.scale(400, 40000) {
        let (h, fam) = gen_graph(&mut rng, if k % 5 == 0 { maxd } else { 7 });
        let edges = h.iter_all().count();
        // all roots, bounds {0..14, inf}
        let roots: Vec<(Node, String)> = (0..h.num_rows()).map(|i| (Node::Row(i), format!("r{}", i)))
            .chain((0..h.num_cols()).map(|i| (Node::Col(i), format!("c{}", i)))).collect();
        for (root, name) in roots {
            // bounds: none, small (incl. exactly the girth), and astronomically large ones (2^32 + small, usize::MAX - small: "no bound" in practice)
            let max = match rng.below(6) { 0 => None, 1 => Some(rng.below(15)), 2 => Some(2 * rng.range(1, 6)),
                3 => Some((1usize << 32) + rng.below(12)), 4 => Some(usize::MAX - rng.below(3)), _ => None };
            let o = one(&h, root, max);
            let lg = o.split(' ').nth(2).unwrap_or("").to_string();
            let t2 = if lg == "none" { "local-girth-none" } else { "local-girth-some" };
            let t3 = if max.is_some() { "bounded" } else { "unbounded" };
            ctx.emit(&format!("c11 {} {} {}", sm(&h), name, max.map(|m| m.to_string()).unwrap_or("inf".into())), &o, edges >= 2, &[fam, t2, t3]);
        }
    }
}
