//! C11: BFS distances, local girth, girth (bounded and unbounded), all roots.
use crate::fmt::*;
use crate::rng::Rng;
use crate::{Ctx, guarded};
use ldpc_toolbox::sparse::{Node, SparseMatrix};

fn opts(l: &[Option<usize>]) -> String {
    if l.is_empty() { "_".to_string() } else { l.iter().map(|o| o.map(|n| n.to_string()).unwrap_or("x".into())).collect::<Vec<_>>().join(",") }
}

pub fn one(h: &SparseMatrix, root: Node, max: Option<usize>) -> String {
    let h2 = h.clone();
    match guarded(move || {
        let b = h2.bfs(root);
        let (lg, g) = match max {
            Some(m) => (h2.girth_at_node_with_max(root, m), h2.girth_with_max(m)),
            None => (h2.girth_at_node(root), h2.girth()),
        };
        (b, lg, g)
    }) {
        Ok((b, lg, g)) => format!("{} {} {} {}", opts(&b.row_nodes_distance), opts(&b.col_nodes_distance), opt_nat(lg), opt_nat(g)),
        Err(_) => "panic".to_string(),
    }
}

pub fn gen_graph(rng: &mut Rng, maxd: usize) -> (SparseMatrix, &'static str) {
    let nr = rng.range(1, maxd);
    let nc = rng.range(1, maxd);
    let mut h = SparseMatrix::new(nr, nc);
    let fam = rng.below(7);
    let name = match fam {
        0 => {
            // forest: attach each new node to an earlier node of the other side
            let mut rows_used = vec![0usize];
            let mut cols_used: Vec<usize> = vec![];
            let total = rng.range(1, nr + nc - 1);
            let (mut nr_next, mut nc_next) = (1usize, 0usize);
            for _ in 0..total {
                if (rng.chance(1, 2) || nr_next >= nr) && nc_next < nc && !rows_used.is_empty() {
                    let r = *rng.pick(&rows_used);
                    h.insert(r, nc_next);
                    cols_used.push(nc_next);
                    nc_next += 1;
                } else if nr_next < nr && !cols_used.is_empty() {
                    let c = *rng.pick(&cols_used);
                    h.insert(nr_next, c);
                    rows_used.push(nr_next);
                    nr_next += 1;
                }
            }
            "forest"
        }
        1 => {
            // a single cycle of length 2k with pendant paths / trees attached
            let k = rng.range(2, nr.min(nc).max(2)).min(nr).min(nc);
            if k >= 2 {
                for j in 0..k {
                    h.insert(j, j);
                    h.insert(j, (j + 1) % k);
                }
            }
            // pendant attachments
            for c in k..nc {
                if rng.chance(2, 3) { h.insert(rng.below(k.max(1)), c); }
            }
            for r in k..nr {
                if rng.chance(2, 3) { h.insert(r, rng.below(nc)); }
            }
            "unicyclic-with-pendants"
        }
        2 => {
            for r in 0..nr { for c in 0..nc { if rng.chance(1, 2) { h.insert(r, c); } } }
            "dense"
        }
        3 => {
            // disconnected blocks
            for r in 0..nr { for c in 0..nc { if r % 2 == c % 2 && rng.chance(1, 2) { h.insert(r, c); } } }
            "disconnected"
        }
        4 => {
            // two cycles sharing a path (theta graph) plus a pendant path
            let k = nr.min(nc);
            for j in 0..k { h.insert(j, j); if j + 1 < k { h.insert(j, j + 1); } }
            if k >= 3 { h.insert(k - 1, 0); h.insert(k / 2, 0); }
            if nc > k && nr >= 1 { h.insert(rng.below(nr), k); }
            "theta-with-pendant"
        }
        5 => {
            // sparse random
            let e = rng.range(0, nr + nc);
            for _ in 0..e { h.insert(rng.below(nr), rng.below(nc)); }
            "sparse-random"
        }
        _ => {
            // the shape of defect D5: pendant path attached to a 4-cycle
            if nr >= 3 && nc >= 3 {
                for (r, c) in [(0, 0), (0, 1), (1, 1), (1, 2), (2, 2), (2, 1)] { h.insert(r, c); }
            }
            for _ in 0..rng.below(4) { h.insert(rng.below(nr), rng.below(nc)); }
            "pendant-path-on-4-cycle"
        }
    };
    (h, name)
}

pub fn run(ctx: &mut Ctx, replay: Option<&[String]>) {
    let node = |s: &str| -> Option<Node> {
        let n: usize = s[1..].parse().ok()?;
        Some(if s.starts_with('r') { Node::Row(n) } else { Node::Col(n) })
    };
    if let Some(lines) = replay {
        for line in lines {
            let t: Vec<&str> = line.split_whitespace().take_while(|t| *t != "=>").collect();
            if t.len() == 5 && t[0] == "c11" {
                if let (Some(h), Some(root)) = (crate::dec::parse_sm(t[1], t[2]), node(t[3])) {
                    let max = if t[4] == "inf" { None } else { t[4].parse().ok() };
                    ctx.emit(&t.join(" "), &one(&h, root, max), true, &["replay"]);
                }
            }
        }
        return;
    }
    let mut rng = Rng::new(ctx.seed, 11);
    // corpus: defect D5
    let d5 = sm_from(3, 3, &[(0, 0), (0, 1), (1, 1), (1, 2), (2, 2), (2, 1)]);
    for (root, name) in [(Node::Col(0), "c0"), (Node::Row(0), "r0"), (Node::Col(1), "c1")] {
        ctx.emit(&format!("c11 {} {} inf", sm(&d5), name), &one(&d5, root, None), true, &["corpus-pendant-path-on-4-cycle"]);
    }
    let maxd = ctx.scale(12, 20);
    for k in 0..ctx.scale(400, 6000) {
        let (h, fam) = gen_graph(&mut rng, if k % 5 == 0 { maxd } else { 7 });
        let edges = h.iter_all().count();
        // all roots, bounds {0..14, inf}
        let roots: Vec<(Node, String)> = (0..h.num_rows()).map(|i| (Node::Row(i), format!("r{}", i)))
            .chain((0..h.num_cols()).map(|i| (Node::Col(i), format!("c{}", i)))).collect();
        for (root, name) in roots {
            let max = match rng.below(4) { 0 => None, 1 => Some(rng.below(15)), 2 => Some(2 * rng.range(1, 6)), _ => None };
            let o = one(&h, root, max);
            let lg = o.split(' ').nth(2).unwrap_or("").to_string();
            let t2 = if lg == "none" { "local-girth-none" } else { "local-girth-some" };
            let t3 = if max.is_some() { "bounded" } else { "unbounded" };
            ctx.emit(&format!("c11 {} {} {}", sm(&h), name, max.map(|m| m.to_string()).unwrap_or("inf".into())), &o, edges >= 2, &[fam, t2, t3]);
        }
    }
}
