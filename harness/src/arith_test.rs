//! Checker-supplied arithmetics implementing the public `DecoderArithmetic` trait (C03).
//! Their Lean twins are in lean/LdpcV/Model/ArithTest.lean.
use ldpc_toolbox::decoder::arithmetic::DecoderArithmetic;
use ldpc_toolbox::decoder::{Message, SentMessage};
use std::sync::{Arc, Mutex};

pub fn quantize8(llr: f64) -> i64 {
    let x = 8.0 * llr;
    if x >= 127.0 {
        127
    } else if x <= -127.0 {
        -127
    } else {
        (x.round() as i8) as i64
    }
}

fn wrap(x: i64) -> i64 {
    x.rem_euclid(10007) - 5000
}

fn min_abs(vals: &[i64]) -> i64 {
    vals.iter().map(|v| v.abs()).min().unwrap_or(1000)
}

fn parity(vals: &[i64]) -> bool {
    vals.iter().filter(|&&v| v < 0).count() % 2 == 1
}

#[derive(Debug, Clone, Default)]
pub struct IntMinSum;

impl DecoderArithmetic for IntMinSum {
    type Llr = i64;
    type CheckMessage = i64;
    type VarMessage = i64;
    type VarLlr = i64;
    fn input_llr_quantize(&self, llr: f64) -> i64 {
        quantize8(llr)
    }
    fn llr_hard_decision(&self, llr: i64) -> bool {
        llr <= 0
    }
    fn llr_to_var_message(&self, llr: i64) -> i64 {
        llr
    }
    fn llr_to_var_llr(&self, llr: i64) -> i64 {
        llr
    }
    fn var_llr_to_llr(&self, v: i64) -> i64 {
        v
    }
    fn send_check_messages<F>(&mut self, msgs: &[Message<i64>], mut send: F)
    where
        F: FnMut(SentMessage<i64>),
    {
        for ex in msgs {
            let others: Vec<i64> = msgs.iter().filter(|m| m.source != ex.source).map(|m| m.value).collect();
            let mag = min_abs(&others);
            send(SentMessage { dest: ex.source, value: if parity(&others) { -mag } else { mag } });
        }
    }
    fn send_var_messages<F>(&mut self, input: i64, msgs: &[Message<i64>], mut send: F) -> i64
    where
        F: FnMut(SentMessage<i64>),
    {
        let llr = input + msgs.iter().map(|m| m.value).sum::<i64>();
        for m in msgs {
            send(SentMessage { dest: m.source, value: llr - m.value });
        }
        llr
    }
    fn update_check_messages_and_vars(&mut self, msgs: &mut [SentMessage<i64>], vars: &mut [i64]) {
        let ext: Vec<(usize, i64)> = msgs.iter().map(|m| (m.dest, vars[m.dest] - m.value)).collect();
        let news: Vec<i64> = ext
            .iter()
            .map(|ex| {
                let others: Vec<i64> = ext.iter().filter(|m| m.0 != ex.0).map(|m| m.1).collect();
                let mag = min_abs(&others);
                if parity(&others) { -mag } else { mag }
            })
            .collect();
        for ((m, e), n) in msgs.iter_mut().zip(ext.iter()).zip(news.iter()) {
            vars[m.dest] = e.1 + n;
            m.value = *n;
        }
    }
}

#[derive(Debug, Clone, Default)]
pub struct Affine;

impl DecoderArithmetic for Affine {
    type Llr = i64;
    type CheckMessage = i64;
    type VarMessage = i64;
    type VarLlr = i64;
    fn input_llr_quantize(&self, llr: f64) -> i64 {
        quantize8(llr)
    }
    fn llr_hard_decision(&self, llr: i64) -> bool {
        llr <= 0
    }
    fn llr_to_var_message(&self, llr: i64) -> i64 {
        2 * llr + 1
    }
    fn llr_to_var_llr(&self, llr: i64) -> i64 {
        llr + 3
    }
    fn var_llr_to_llr(&self, v: i64) -> i64 {
        v - 3
    }
    fn send_check_messages<F>(&mut self, msgs: &[Message<i64>], mut send: F)
    where
        F: FnMut(SentMessage<i64>),
    {
        let n = msgs.len() as i64;
        for (p, ex) in msgs.iter().enumerate().rev() {
            let s: i64 = msgs.iter().enumerate().filter(|(j, _)| *j != p).map(|(j, m)| (j as i64 + 1) * m.value * 3).sum();
            send(SentMessage { dest: ex.source, value: wrap(s + 7 * ex.source as i64 + 11 * p as i64 + 13 * n) });
        }
    }
    fn send_var_messages<F>(&mut self, input: i64, msgs: &[Message<i64>], mut send: F) -> i64
    where
        F: FnMut(SentMessage<i64>),
    {
        let llr = wrap(input * 5 + msgs.iter().enumerate().map(|(j, m)| (j as i64 + 2) * m.value).sum::<i64>());
        for (p, m) in msgs.iter().enumerate().rev() {
            send(SentMessage { dest: m.source, value: wrap(llr * 3 + 17 * m.source as i64 + 19 * p as i64 - m.value) });
        }
        llr
    }
    fn update_check_messages_and_vars(&mut self, msgs: &mut [SentMessage<i64>], vars: &mut [i64]) {
        let s: i64 = msgs.iter().enumerate().map(|(j, m)| (j as i64 + 1) * (vars[m.dest] - m.value)).sum();
        for (p, m) in msgs.iter_mut().enumerate() {
            m.value = wrap(s + 23 * m.dest as i64 + 29 * p as i64);
        }
        for m in msgs.iter() {
            vars[m.dest] = wrap(vars[m.dest] * 3 + m.value);
        }
    }
}

/// Wrapper logging every rule call with its arguments and emitted messages.
#[derive(Debug, Clone)]
pub struct Trace<A> {
    pub inner: A,
    pub log: Arc<Mutex<Vec<String>>>,
}

fn pairs<I: Iterator<Item = (usize, i64)>>(it: I) -> String {
    let v: Vec<String> = it.map(|(a, b)| format!("{}.{}", a, b)).collect();
    if v.is_empty() { "-".to_string() } else { v.join(",") }
}

impl<A> DecoderArithmetic for Trace<A>
where
    A: DecoderArithmetic<Llr = i64, CheckMessage = i64, VarMessage = i64, VarLlr = i64>,
{
    type Llr = i64;
    type CheckMessage = i64;
    type VarMessage = i64;
    type VarLlr = i64;
    fn input_llr_quantize(&self, llr: f64) -> i64 {
        self.inner.input_llr_quantize(llr)
    }
    fn llr_hard_decision(&self, llr: i64) -> bool {
        self.inner.llr_hard_decision(llr)
    }
    fn llr_to_var_message(&self, llr: i64) -> i64 {
        self.inner.llr_to_var_message(llr)
    }
    fn llr_to_var_llr(&self, llr: i64) -> i64 {
        self.inner.llr_to_var_llr(llr)
    }
    fn var_llr_to_llr(&self, v: i64) -> i64 {
        self.inner.var_llr_to_llr(v)
    }
    fn send_check_messages<F>(&mut self, msgs: &[Message<i64>], mut send: F)
    where
        F: FnMut(SentMessage<i64>),
    {
        let mut emitted = Vec::new();
        self.inner.send_check_messages(msgs, |m| {
            emitted.push((m.dest, m.value));
            send(m)
        });
        self.log.lock().unwrap().push(format!(
            "C:{}:{}",
            pairs(msgs.iter().map(|m| (m.source, m.value))),
            pairs(emitted.into_iter())
        ));
    }
    fn send_var_messages<F>(&mut self, input: i64, msgs: &[Message<i64>], mut send: F) -> i64
    where
        F: FnMut(SentMessage<i64>),
    {
        let mut emitted = Vec::new();
        let llr = self.inner.send_var_messages(input, msgs, |m| {
            emitted.push((m.dest, m.value));
            send(m)
        });
        self.log.lock().unwrap().push(format!(
            "V:{}:{}:{}:{}",
            input,
            pairs(msgs.iter().map(|m| (m.source, m.value))),
            llr,
            pairs(emitted.into_iter())
        ));
        llr
    }
    fn update_check_messages_and_vars(&mut self, msgs: &mut [SentMessage<i64>], vars: &mut [i64]) {
        let before = pairs(msgs.iter().map(|m| (m.dest, m.value)));
        self.inner.update_check_messages_and_vars(msgs, vars);
        let v: Vec<String> = vars.iter().map(|x| x.to_string()).collect();
        self.log.lock().unwrap().push(format!(
            "L:{}:{}:{}",
            before,
            pairs(msgs.iter().map(|m| (m.dest, m.value))),
            if v.is_empty() { ".".to_string() } else { v.join(",") }
        ));
    }
}
