//! One PRNG state for every random choice (splitmix64), seeded from VERIF_SEED.
#[derive(Clone)]
pub struct Rng(pub u64);

impl Rng {
    pub fn new(seed: u64, stream: u64) -> Rng {
        let mut r = Rng(seed ^ stream.wrapping_mul(0x9E3779B97F4A7C15) ^ 0xD1B54A32D192ED03);
        r.next();
        r
    }
    pub fn next(&mut self) -> u64 {
        self.0 = self.0.wrapping_add(0x9E3779B97F4A7C15);
        let mut z = self.0;
        z = (z ^ (z >> 30)).wrapping_mul(0xBF58476D1CE4E5B9);
        z = (z ^ (z >> 27)).wrapping_mul(0x94D049BB133111EB);
        z ^ (z >> 31)
    }
    /// uniform in 0..n (n > 0)
    pub fn below(&mut self, n: usize) -> usize {
        (self.next() % (n as u64)) as usize
    }
    /// uniform in lo..=hi
    pub fn range(&mut self, lo: usize, hi: usize) -> usize {
        lo + self.below(hi - lo + 1)
    }
    pub fn chance(&mut self, num: u64, den: u64) -> bool {
        self.next() % den < num
    }
    pub fn f64_unit(&mut self) -> f64 {
        (self.next() >> 11) as f64 / (1u64 << 53) as f64
    }
    pub fn pick<'a, T>(&mut self, xs: &'a [T]) -> &'a T {
        &xs[self.below(xs.len())]
    }
}
