//! C02 (encoder) and C09 (systematic conversion).
use crate::fmt::*;
use crate::rng::Rng;
use crate::{Ctx, guarded};
use ldpc_toolbox::encoder::Encoder;
use ldpc_toolbox::gf2::GF2;
use ldpc_toolbox::sparse::SparseMatrix;
use ldpc_toolbox::systematic::{self, parity_to_systematic};
use ndarray::Array1;
use num_traits::{One, Zero};

fn gf2(bits: &[bool]) -> Array1<GF2> {
    Array1::from_iter(bits.iter().map(|&b| if b { GF2::one() } else { GF2::zero() }))
}

pub fn encoder_res(h: &SparseMatrix, msgs: &[Vec<bool>]) -> String {
    let h2 = h.clone();
    match guarded(move || Encoder::from_h(&h2)) {
        Err(_) => "panic".to_string(),
        Ok(Err(_)) => "err".to_string(),
        Ok(Ok(enc)) => {
            let dbg = format!("{:?}", enc);
            let kind = if dbg.contains("Staircase") { "Staircase" } else if dbg.contains("DenseGenerator") { "DenseGenerator" } else { "Unknown" };
            let mut out = vec!["ok".to_string(), kind.to_string()];
            for (mi, m) in msgs.iter().enumerate() {
                let (e2, m2) = (enc.clone(), m.clone());
                // `encode` takes any 1-D array view: owned, reversed view of the reversed array (stride -1), every second element (stride 2)
                out.push(match guarded(move || match mi % 3 {
                    0 => e2.encode(&gf2(&m2)),
                    1 => { let rev: Vec<bool> = m2.iter().rev().copied().collect(); let a = gf2(&rev); e2.encode(&a.slice(ndarray::s![..;-1])) }
                    _ => { let pad: Vec<bool> = m2.iter().flat_map(|&b| [b, !b]).collect(); let a = gf2(&pad); e2.encode(&a.slice(ndarray::s![..;2])) }
                }) {
                    Ok(cw) => bools(cw.iter().map(|b| b.is_one())),
                    Err(_) => "panic".to_string(),
                });
            }
            out.join(" ")
        }
    }
}

/// matrix families of C02 / C09 with r rows, n columns (1 <= r <= n)
/// A matrix from one of the families below; a third of them are then rebuilt with their ones inserted in a random order
/// (the same set of ones, other adjacency-list orders: e.g. a staircase row whose parity entries precede its systematic ones).
pub fn gen_h(rng: &mut Rng, maxr: usize, maxn: usize) -> (SparseMatrix, &'static str) {
    let (h, fam) = gen_h_family(rng, maxr, maxn);
    if rng.chance(1, 3) {
        let mut ones: Vec<(usize, usize)> = h.iter_all().collect();
        for i in (1..ones.len()).rev() {
            ones.swap(i, rng.below(i + 1));
        }
        let mut g = SparseMatrix::new(h.num_rows(), h.num_cols());
        for (r, c) in ones {
            g.insert(r, c);
        }
        return (g, fam);
    }
    (h, fam)
}

fn gen_h_family(rng: &mut Rng, maxr: usize, maxn: usize) -> (SparseMatrix, &'static str) {
    let fam = rng.below(8);
    let r = rng.range(1, maxr);
    let n = if fam == 4 { r } else { rng.range(r, maxn.max(r)) };
    let k = n - r;
    let mut h = SparseMatrix::new(r, n);
    let staircase = |h: &mut SparseMatrix| {
        for j in 0..r {
            h.insert(j, k + j);
            if j > 0 {
                h.insert(j, k + j - 1);
            }
        }
    };
    let random_h0 = |h: &mut SparseMatrix, rng: &mut Rng| {
        for c in 0..k {
            for j in 0..r {
                if rng.chance(1, 3) {
                    h.insert(j, c);
                }
            }
        }
    };
    match fam {
        0 => {
            random_h0(&mut h, rng);
            staircase(&mut h);
            (h, "staircase")
        }
        1 => {
            // near-staircase: one entry flipped on/near the parity part
            random_h0(&mut h, rng);
            staircase(&mut h);
            let j = rng.below(r);
            let c = k + rng.below(r);
            h.toggle(j, c);
            // half of the time restore the NUMBER of ones of the parity part (a one moved, not added or removed)
            if rng.chance(1, 2) {
                let j2 = rng.below(r);
                let c2 = k + rng.below(r);
                if (j2, c2) != (j, c) { h.toggle(j2, c2); }
            }
            (h, "near-staircase")
        }
        2 | 4 => {
            for j in 0..r {
                for c in 0..n {
                    if rng.chance(1, 2) {
                        h.insert(j, c);
                    }
                }
            }
            (h, if fam == 4 { "square-dense" } else { "dense" })
        }
        3 => {
            // singular tail: duplicate / zero / dependent columns in the last r columns
            for j in 0..r {
                for c in 0..n {
                    if rng.chance(1, 2) {
                        h.insert(j, c);
                    }
                }
            }
            if r >= 2 {
                let a = k + rng.below(r);
                let mut b = k + rng.below(r);
                if a == b { b = k + (b - k + 1) % r; }
                match rng.below(3) {
                    0 => h.clear_col(a),
                    1 => { let col: Vec<usize> = h.iter_col(b).copied().collect(); h.set_col(a, col.iter()); }
                    _ => {
                        // a := b xor c
                        let c = k + rng.below(r);
                        let cb: Vec<usize> = h.iter_col(b).copied().collect();
                        let cc: Vec<usize> = h.iter_col(c).copied().collect();
                        h.clear_col(a);
                        if a != b && a != c {
                            for x in cb { h.toggle(x, a); }
                            for x in cc { h.toggle(x, a); }
                        }
                    }
                }
            } else {
                h.clear_col(n - 1);
            }
            (h, "singular-tail")
        }
        5 => {
            // pivots at the far right: duplicate leading columns, identity at the end (the D3 family)
            for c in 0..k {
                h.insert(rng.below(r), c);
            }
            for j in 0..r {
                h.insert(j, k + j);
                if rng.chance(1, 3) && j + 1 < r { h.insert(j, k + j + 1); }
            }
            (h, "pivots-far-right")
        }
        6 => {
            // rank deficient: a repeated / zero / dependent row
            for j in 0..r {
                for c in 0..n {
                    if rng.chance(2, 5) {
                        h.insert(j, c);
                    }
                }
            }
            if r >= 2 {
                let a = rng.below(r);
                let b = (a + 1 + rng.below(r - 1)) % r;
                if rng.chance(1, 2) {
                    let row: Vec<usize> = h.iter_row(b).copied().collect();
                    h.set_row(a, row.iter());
                } else {
                    h.clear_row(a);
                }
            } else {
                h.clear_row(0);
            }
            (h, "rank-deficient")
        }
        _ => {
            // sparse with zero and duplicate columns
            for c in 0..n {
                if rng.chance(1, 4) { continue; }
                let w = rng.range(1, 3.min(r));
                for _ in 0..w { h.insert(rng.below(r), c); }
            }
            (h, "sparse-zero-duplicate-columns")
        }
    }
}

fn parse_bits(s: &str) -> Vec<bool> {
    if s == "-" { vec![] } else { s.chars().map(|c| c == '1').collect() }
}

pub fn run_c02(ctx: &mut Ctx, replay: Option<&[String]>) {
    if let Some(lines) = replay {
        for line in lines {
            let t: Vec<&str> = line.split_whitespace().take_while(|t| *t != "=>").collect();
            if t.len() >= 3 && t[0] == "c02" {
                if let Some(h) = crate::dec::parse_sm(t[1], t[2]) {
                    let msgs: Vec<Vec<bool>> = t[3..].iter().map(|s| parse_bits(s)).collect();
                    ctx.emit(&t.join(" "), &encoder_res(&h, &msgs), true, &["replay"]);
                }
            }
        }
        return;
    }
    let mut rng = Rng::new(ctx.seed, 2);
    let (maxr, maxn) = (ctx.scale(12, 60), ctx.scale(24, 90));
    for case in 0..ctx.scale(3000, 40000) {
        let (h, fam) = if case % 100 == 7 {
            // a staircase code with very heavy checks (hundreds of systematic bits on one row): parities of long sums
            let r = rng.range(1, 3);
            let k = rng.range(250, 700);
            let mut h = SparseMatrix::new(r, k + r);
            for j in 0..r {
                for c in 0..k {
                    if j == 0 || rng.chance(3, 4) { h.insert(j, c); }
                }
                h.insert(j, k + j);
                if j > 0 { h.insert(j, k + j - 1); }
            }
            (h, "staircase-heavy-rows")
        } else if case % 40 == 27 {
            // NOT a staircase: identity-like parity part (no sub-diagonal), dense rows over 280 ... 600 message bits -- the dense generator path
            // with parities of 129 ... 600 message ones
            let r = rng.range(2, 4);
            let k = rng.range(280, 600);
            let mut h = SparseMatrix::new(r, k + r);
            for j in 0..r {
                for c in 0..k { if j == 0 || rng.chance(4, 5) { h.insert(j, c); } }
                h.insert(j, k + j);
                if j + 1 < r && rng.chance(1, 2) { h.insert(j, k + j + 1); }
            }
            (h, "dense-encoder-heavy-rows")
        } else if case % 20 == 0 { gen_h(&mut rng, 1, maxn) } else { gen_h(&mut rng, maxr, maxn) };
        let k = h.num_cols() - h.num_rows();
        let mut msgs: Vec<Vec<bool>> = Vec::new();
        if k <= 3 {
            // all messages (as pairs with their xor)
            for a in 0..(1u32 << k) {
                for b in 0..(1u32 << k) {
                    let ma: Vec<bool> = (0..k).map(|i| a >> i & 1 == 1).collect();
                    let mb: Vec<bool> = (0..k).map(|i| b >> i & 1 == 1).collect();
                    let mx: Vec<bool> = ma.iter().zip(&mb).map(|(x, y)| x ^ y).collect();
                    msgs.extend([ma, mb, mx]);
                }
            }
        } else {
            for t in 0..3 {
                let dense = k >= 250 && t == 0;
                let ma: Vec<bool> = (0..k).map(|_| if dense { true } else { rng.chance(1, 2) }).collect();
                let mb: Vec<bool> = (0..k).map(|_| rng.chance(1, 2)).collect();
                let mx: Vec<bool> = ma.iter().zip(&mb).map(|(x, y)| x ^ y).collect();
                msgs.extend([ma, mb, mx]);
            }
        }
        let o = encoder_res(&h, &msgs);
        let tag2 = if o.starts_with("ok Staircase") { "encoder-staircase" } else if o.starts_with("ok Dense") { "encoder-dense" } else if o == "err" { "encoder-error" } else { "encoder-panic" };
        let input = format!("c02 {} {}", sm(&h), msgs.iter().map(|m| bools(m.iter().copied())).collect::<Vec<_>>().join(" "));
        // non-trivial: the matrix has an information part (k >= 1) or the build fails
        ctx.emit(&input, &o, k >= 1 || o == "err", &[fam, tag2]);
    }
    // staircase codes with more than 2^16 message columns (checks that join columns below and above 65536): the encoder must not pass
    // column indices through a 16-bit type.  Judged on the implementation's own output (systematic prefix, every parity check), the
    // list-based model is not run on them.
    for _ in 0..ctx.scale(3, 30) {
        let r = rng.range(2, 6);
        let k = 65536 + rng.range(10, 5000);
        let mut h = SparseMatrix::new(r, k + r);
        for j in 0..r {
            for _ in 0..rng.range(1, 4) { h.insert(j, rng.below(65536)); }
            for _ in 0..rng.range(1, 4) { h.insert(j, 65536 + rng.below(k - 65536)); }
            if rng.chance(1, 2) { h.insert(j, 65536); }
            h.insert(j, k + j);
            if j > 0 { h.insert(j, k + j - 1); }
        }
        let o = crate::c06::encoder_accepts(&h, &mut rng, 4);
        ctx.emit(&format!("c02 bigstair {} {}", r, k), &o, true, &["staircase-more-than-65536-message-columns"]);
    }
}

pub fn sys_res(h: &SparseMatrix) -> String {
    let h2 = h.clone();
    match guarded(move || parity_to_systematic(&h2)) {
        Err(_) => "panic".to_string(),
        Ok(Err(systematic::Error::NotFullRank)) => "notfullrank".to_string(),
        Ok(Err(systematic::Error::ParityOverdetermined)) => "overdetermined".to_string(),
        Ok(Ok(g)) => {
            let g2 = g.clone();
            let enc = match guarded(move || Encoder::from_h(&g2)) {
                Ok(Ok(_)) => "ok",
                Ok(Err(_)) => "err",
                Err(_) => "panic",
            };
            format!("ok {} {}", sm(&g), enc)
        }
    }
}

pub fn run_c09(ctx: &mut Ctx, replay: Option<&[String]>) {
    if let Some(lines) = replay {
        for line in lines {
            let t: Vec<&str> = line.split_whitespace().take_while(|t| *t != "=>").collect();
            if t.len() == 3 && t[0] == "c09" {
                if let Some(h) = crate::dec::parse_sm(t[1], t[2]) {
                    ctx.emit(&t.join(" "), &sys_res(&h), true, &["replay"]);
                }
            }
        }
        return;
    }
    let mut rng = Rng::new(ctx.seed, 9);
    // corpus: the repaired defect D3
    let d3 = sm_from(3, 4, &[(0, 0), (0, 1), (1, 2), (2, 3)]);
    ctx.emit(&format!("c09 {}", sm(&d3)), &sys_res(&d3), true, &["corpus-pivots-after-free-columns"]);
    let i2 = sm_from(2, 2, &[(0, 0), (1, 1)]);
    ctx.emit(&format!("c09 {}", sm(&i2)), &sys_res(&i2), true, &["corpus-square-identity"]);
    let (maxr, maxn) = (ctx.scale(10, 40), ctx.scale(20, 70));
    for _ in 0..ctx.scale(4000, 60000) {
        let (h, fam) = gen_h(&mut rng, maxr, maxn);
        let o = sys_res(&h);
        let tag2 = if o.starts_with("ok") { "result-ok" } else if o == "notfullrank" { "result-not-full-rank" } else { "result-other" };
        ctx.emit(&format!("c09 {}", sm(&h)), &o, h.num_rows() >= 2, &[fam, tag2]);
    }
    // few rows, 256 ... 700 columns, rows of weight exactly 255, 256, 257, 512 (after elimination too): a row weight or a count of ones must
    // not be kept in 8 bits
    for _ in 0..ctx.scale(16, 300) {
        let r = rng.range(1, 3);
        let n = rng.range(300, 700);
        let mut h = SparseMatrix::new(r, n);
        for i in 0..r {
            let w = *rng.pick(&[255usize, 256, 256, 257, 512, 511]).min(&(n - r));
            let start = rng.below(n - w + 1);
            for c in start..start + w { h.insert(i, c); }
            if rng.chance(1, 2) { h.toggle(i, i); }
        }
        let o = sys_res(&h);
        ctx.emit(&format!("c09 {}", sm(&h)), &o, true, &["rows-of-weight-255..512", if o.starts_with("ok") { "result-ok" } else if o == "notfullrank" { "result-not-full-rank" } else { "result-other" }]);
    }
    // more than 2^16 columns, a few rows with scattered ones (column indices must not pass through a 16-bit type)
    for (r, n) in [(2usize, 65546usize), (3, 70000), (1, 65537), (2, 65536)] {
        let mut h = SparseMatrix::new(r, n);
        for i in 0..r {
            for _ in 0..rng.range(2, 6) { h.insert(i, rng.below(n)); }
            h.insert(i, 65536.min(n - 1) - i);
            if n > 65540 { h.insert(i, 65537 + i); }
        }
        let o = sys_res(&h);
        ctx.emit(&format!("c09 {}", sm(&h)), &o, true, &["more-than-65536-columns", if o.starts_with("ok") { "result-ok" } else { "result-other" }]);
        // the same shape with rows that SHARE low columns (so that elimination below a pivot really happens) and carry ones beyond column
        // 65535 that the elimination must cancel or create; every other case has two equal rows or a row that is the sum of two others
        // (rank-deficient only if the high columns are handled as columns >= 65536)
        if r < 2 || n <= 65540 { continue; }
        let mut h = SparseMatrix::new(r, n);
        let shared = [rng.below(200), 200 + rng.below(200)];
        for i in 0..r {
            h.insert(i, shared[0]);
            if rng.chance(1, 2) { h.insert(i, shared[1]); }
            h.insert(i, 65536 + rng.below(n - 65536));
            if rng.chance(1, 2) { h.insert(i, 65536 + rng.below(n - 65536)); }
        }
        if rng.chance(1, 2) {
            // make the last row the sum of the others (r = 2: equal rows)
            h.clear_row(r - 1);
            for i in 0..r - 1 { let cols: Vec<usize> = h.iter_row(i).copied().collect(); for c in cols { h.toggle(r - 1, c); } }
        }
        let o = sys_res(&h);
        ctx.emit(&format!("c09 {}", sm(&h)), &o, true, &["more-than-65536-columns", if o.starts_with("ok") { "result-ok" } else { "result-other" }]);
    }
    // outside the property's quantifier (more rows than columns) but inside the model: the ParityOverdetermined branch
    for _ in 0..ctx.scale(60, 600) {
        let n = rng.range(1, 8);
        let r = n + rng.range(1, 4);
        let mut h = SparseMatrix::new(r, n);
        for i in 0..r {
            for j in 0..n {
                if rng.chance(1, 3) {
                    h.insert(i, j);
                }
            }
        }
        ctx.emit(&format!("c09 {}", sm(&h)), &sys_res(&h), false, &["more-rows-than-columns", "result-other"]);
    }
}
