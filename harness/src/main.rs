#![allow(dead_code)]
//! `vh` — correspondence harness: runs the real ldpc-toolbox code in-process on generated
//! inputs and prints one canonical case line per input:  `<tag> <input…> => <implementation output…>`.
//! All random choices derive from one splitmix64 state seeded with --seed (VERIF_SEED).
mod arith_test;
mod c01;
mod c02;
mod c03;
mod c04;
mod c06;
mod c08;
mod c11;
mod c12;
mod c13;
mod c14;
mod c15;
mod c16;
mod dec;
mod c17;
mod c19;
mod c20;
mod fmt;
mod rng;

use std::collections::{BTreeMap, HashSet};
use std::hash::{Hash, Hasher};
use std::io::Write;

pub struct Ctx {
    pub seed: u64,
    pub thorough: bool,
    out: std::io::BufWriter<std::fs::File>,
    evaluations: u64,
    distinct: HashSet<u64>,
    distinct_nontrivial: u64,
    pub hist: BTreeMap<String, u64>,
    samples: Vec<String>,
    pub extra: BTreeMap<String, String>,
}

impl Ctx {
    /// Emit one case. `nontrivial` is the property-specific rule; `tags` feed the distribution histogram.
    pub fn emit(&mut self, input: &str, output: &str, nontrivial: bool, tags: &[&str]) {
        self.evaluations += 1;
        let mut hasher = std::collections::hash_map::DefaultHasher::new();
        input.hash(&mut hasher);
        let fresh = self.distinct.insert(hasher.finish());
        if fresh && nontrivial {
            self.distinct_nontrivial += 1;
        }
        for t in tags {
            *self.hist.entry(t.to_string()).or_insert(0) += 1;
        }
        if self.samples.len() < 3 && nontrivial {
            let mut s = format!("{} => {}", input, output);
            if s.len() > 600 {
                s.truncate(600);
                s.push('…');
            }
            self.samples.push(s);
        }
        writeln!(self.out, "{} => {}", input, output).unwrap();
    }
    pub fn tag(&mut self, t: &str) {
        *self.hist.entry(t.to_string()).or_insert(0) += 1;
    }
    pub fn scale(&self, quick: usize, thorough: usize) -> usize {
        if self.thorough { thorough } else { quick }
    }
}

fn json_str(s: &str) -> String {
    let mut o = String::from("\"");
    for c in s.chars() {
        match c {
            '"' => o.push_str("\\\""),
            '\\' => o.push_str("\\\\"),
            '\n' => o.push_str("\\n"),
            '\t' => o.push_str("\\t"),
            c if (c as u32) < 0x20 => o.push_str(&format!("\\u{:04x}", c as u32)),
            c => o.push(c),
        }
    }
    o.push('"');
    o
}

/// Run a closure, mapping a panic to `Err(message)`.
pub fn guarded<T, F: FnOnce() -> T + std::panic::UnwindSafe>(f: F) -> Result<T, String> {
    std::panic::catch_unwind(f).map_err(|e| {
        if let Some(s) = e.downcast_ref::<&str>() {
            s.to_string()
        } else if let Some(s) = e.downcast_ref::<String>() {
            s.clone()
        } else {
            "panic".to_string()
        }
    })
}

fn main() {
    let args: Vec<String> = std::env::args().collect();
    if args.len() < 2 {
        eprintln!("usage: vh <property> --out <cases> --stats <json> [--seed N] [--tier quick|thorough] [--replay file]");
        std::process::exit(2);
    }
    let prop = args[1].to_lowercase();
    let mut seed = 1u64;
    let mut thorough = false;
    let mut out_path = String::from("/dev/stdout");
    let mut stats_path = None;
    let mut replay = None;
    let mut extra_args = Vec::new();
    let mut i = 2;
    while i < args.len() {
        match args[i].as_str() {
            "--seed" => { seed = args[i + 1].parse().expect("seed"); i += 1; }
            "--tier" => { thorough = args[i + 1] == "thorough"; i += 1; }
            "--out" => { out_path = args[i + 1].clone(); i += 1; }
            "--stats" => { stats_path = Some(args[i + 1].clone()); i += 1; }
            "--replay" => { replay = Some(args[i + 1].clone()); i += 1; }
            other => extra_args.push(other.to_string()),
        }
        i += 1;
    }
    // panics are outcomes, not noise
    std::panic::set_hook(Box::new(|info| {
        if std::env::var("VH_DEBUG").is_ok() {
            eprintln!("panic: {}", info);
        }
    }));
    let out = std::io::BufWriter::new(std::fs::File::create(&out_path).expect("create out"));
    let mut ctx = Ctx {
        seed,
        thorough,
        out,
        evaluations: 0,
        distinct: HashSet::new(),
        distinct_nontrivial: 0,
        hist: BTreeMap::new(),
        samples: Vec::new(),
        extra: BTreeMap::new(),
    };
    let replay_lines: Option<Vec<String>> = replay.map(|p| {
        std::fs::read_to_string(p).expect("replay file").lines().map(|l| l.to_string()).collect()
    });
    match prop.as_str() {
        "c01" => c01::run_c01(&mut ctx, replay_lines.as_deref()),
        "c10" => c01::run_c10(&mut ctx, replay_lines.as_deref()),
        "c18" => c01::run_c18(&mut ctx, replay_lines.as_deref()),
        "c04" => c04::run_c04(&mut ctx, replay_lines.as_deref()),
        "c05" => c04::run_c05(&mut ctx, replay_lines.as_deref()),
        "c02" => c02::run_c02(&mut ctx, replay_lines.as_deref()),
        "c09" => c02::run_c09(&mut ctx, replay_lines.as_deref()),
        "c03" => c03::run(&mut ctx, replay_lines.as_deref()),
        "c06" => c06::run_c06(&mut ctx, replay_lines.as_deref()),
        "c07" => c06::run_c07(&mut ctx, replay_lines.as_deref()),
        "c08" => c08::run(&mut ctx, replay_lines.as_deref()),
        "c11" => c11::run(&mut ctx, replay_lines.as_deref()),
        "c12" => c12::run(&mut ctx, replay_lines.as_deref()),
        "c13" => c13::run(&mut ctx, replay_lines.as_deref()),
        "c14" => c14::run(&mut ctx, replay_lines.as_deref()),
        "c15" => c15::run(&mut ctx, replay_lines.as_deref()),
        "c16" => c16::run(&mut ctx, replay_lines.as_deref()),
        "c20" => c20::run(&mut ctx, replay_lines.as_deref()),
        "c19" => c19::run(&mut ctx, replay_lines.as_deref()),
        "c17" => c17::run(&mut ctx, replay_lines.as_deref()),
        _ => {
            eprintln!("unknown property {}", prop);
            std::process::exit(2);
        }
    }
    let _ = extra_args;
    ctx.out.flush().unwrap();
    if let Some(p) = stats_path {
        let mut s = String::from("{");
        s.push_str(&format!("\"evaluations\":{},", ctx.evaluations));
        s.push_str(&format!("\"distinct\":{},", ctx.distinct.len()));
        s.push_str(&format!("\"distinct_nontrivial\":{},", ctx.distinct_nontrivial));
        s.push_str("\"histogram\":{");
        s.push_str(&ctx.hist.iter().map(|(k, v)| format!("{}:{}", json_str(k), v)).collect::<Vec<_>>().join(","));
        s.push_str("},\"extra\":{");
        s.push_str(&ctx.extra.iter().map(|(k, v)| format!("{}:{}", json_str(k), json_str(v))).collect::<Vec<_>>().join(","));
        s.push_str("},\"samples\":[");
        s.push_str(&ctx.samples.iter().map(|x| json_str(x)).collect::<Vec<_>>().join(","));
        s.push_str("]}");
        std::fs::write(p, s).unwrap();
    }
}
