//! C20: the `ldpc-toolbox` binary built from the working tree, run as a subprocess (path in VERIF_BIN).
use crate::fmt::*;
use crate::rng::Rng;
use crate::Ctx;
use ldpc_toolbox::codes::{ccsds, dvbs2};
use ldpc_toolbox::encoder::Encoder;
use ldpc_toolbox::mackay_neal::{self, FillPolicy};
use ldpc_toolbox::sparse::SparseMatrix;
use ldpc_toolbox::systematic::parity_to_systematic;
use std::process::Command;

struct Out {
    status_nonzero: bool,
    stdout: String,
    stderr: String,
    stdout_bytes: Vec<u8>,
}

fn run_bin(bin: &str, args: &[&str]) -> Out {
    let o = Command::new(bin).args(args).env("NO_COLOR", "1").output().expect("run binary");
    Out {
        status_nonzero: !o.status.success(),
        stdout: String::from_utf8_lossy(&o.stdout).to_string(),
        stderr: String::from_utf8_lossy(&o.stderr).to_string(),
        stdout_bytes: o.stdout,
    }
}

fn fail_tokens(o: &Out) -> String {
    format!("fail {} {} {}", o.status_nonzero as u8, !o.stderr.trim().is_empty() as u8, (o.stderr.contains("panicked at") || o.stdout.contains("panicked at")) as u8)
}

fn work_dir() -> String {
    let d = std::env::var("VERIF_ROOT").map(|r| format!("{}/work/c20-{}", r, std::process::id())).unwrap_or(format!("/tmp/c20-{}", std::process::id()));
    std::fs::create_dir_all(&d).unwrap();
    d
}

pub fn run(ctx: &mut Ctx, _replay: Option<&[String]>) {
    let bin = std::env::var("VERIF_BIN").expect("VERIF_BIN (path of the ldpc-toolbox binary) must be set");
    let mut rng = Rng::new(ctx.seed, 20);
    let dir = work_dir();
    // ---------------------------------------------------------------- dvbs2: the whole argument table (+ invalid pairs)
    let lib: Vec<(String, String)> = enum_iterator::all::<dvbs2::Code>().map(|c| (format!("{:?}", c), c.h().alist())).collect();
    let rates = ["1/4", "1/3", "2/5", "1/2", "3/5", "2/3", "3/4", "4/5", "5/6", "8/9", "9/10", "7/8", "1/5", "", "1/2 ", "3_4"];
    for rate in rates {
        for short in [false, true] {
            // quick tier: the short frames, the invalid pairs and two normal frames; thorough: everything
            if !ctx.thorough && !short && !["1/2", "9/10", "7/8", "1/5", "", "1/2 ", "3_4"].contains(&rate) { continue; }
            let mut args = vec!["dvbs2", "--rate", rate];
            if short { args.push("--short"); }
            let o = run_bin(&bin, &args);
            let out = if o.status_nonzero || o.stdout.is_empty() { fail_tokens(&o) } else {
                match lib.iter().find(|(_, a)| *a == o.stdout) { Some((n, _)) => format!("ok {}", n), None => "ok unknown-output".into() }
            };
            ctx.emit(&format!("c20 dvbs2 {} {}", if rate.is_empty() { "<empty>".to_string() } else { rate.replace(' ', "<sp>") }, short as u8), &out, true,
                &[if out.starts_with("ok") { "dvbs2-valid" } else { "dvbs2-invalid" }]);
        }
    }
    // ---------------------------------------------------------------- ccsds
    for rate in ["1/2", "2/3", "4/5", "3/4", ""] {
        for bs in ["1024", "4096", "16384", "2048", "0"] {
            // the largest block size: all rates in the thorough tier, the smallest of the three matrices (rate 4/5) in the quick tier
            if bs == "16384" && !ctx.thorough && rate != "4/5" { continue; }
            let o = run_bin(&bin, &["ccsds", "--rate", rate, "--block-size", bs]);
            let out = if o.status_nonzero || o.stdout.is_empty() { fail_tokens(&o) } else {
                let mut found = "unknown-output".to_string();
                for r in enum_iterator::all::<ccsds::AR4JARate>() {
                    for s in enum_iterator::all::<ccsds::AR4JAInfoSize>() {
                        let k = match format!("{:?}", s).as_str() { "K1024" => 1024, "K4096" => 4096, _ => 16384 };
                        if k.to_string() != bs { continue; }
                        if ccsds::AR4JACode::new(r, s).h().alist() == o.stdout { found = format!("{:?} {}", r, k); }
                    }
                }
                format!("ok {}", found)
            };
            ctx.emit(&format!("c20 ccsds {} {}", if rate.is_empty() { "<empty>" } else { rate }, bs), &out, true,
                &[if out.starts_with("ok") { "ccsds-valid" } else { "ccsds-invalid" }]);
        }
    }
    let o = run_bin(&bin, &["ccsds-c2"]);
    ctx.emit("c20 same ccsds-c2", if o.stdout == ccsds::C2Code::new().h().alist() && !o.status_nonzero { "equal" } else { "DIFFERENT" }, true, &["ccsds-c2"]);
    // ---------------------------------------------------------------- documented girths
    let o = run_bin(&bin, &["ccsds", "--rate", "1/2", "--block-size", "1024", "--girth"]);
    ctx.emit("c20 girth ccsds 1/2 1024", o.stdout.trim(), true, &["girth"]);
    let o = run_bin(&bin, &["dvbs2", "--rate", "1/2", "--girth"]);
    ctx.emit("c20 girth dvbs2 1/2 normal", o.stdout.trim(), true, &["girth"]);
    // "... or its girth when asked": --girth of the other codes against the library's girth() of the matrix the library constructs
    // (all AR4JA codes up to k = 4096, rate 4/5 k = 16384, C2 is documented above; two short DVB-S2 codes)
    {
        let fmt = |g: Option<usize>| match g { Some(g) => format!("Code girth = {}", g), None => "Code girth is infinite".to_string() };
        for r in enum_iterator::all::<ccsds::AR4JARate>() {
            for sz in enum_iterator::all::<ccsds::AR4JAInfoSize>() {
                let k = match format!("{:?}", sz).as_str() { "K1024" => 1024, "K4096" => 4096, _ => 16384 };
                if k == 16384 && (format!("{:?}", r) != "R4_5") { continue; }
                if k == 4096 && !ctx.thorough && format!("{:?}", r) == "R1_2" { continue; }
                let rs = match format!("{:?}", r).as_str() { "R1_2" => "1/2", "R2_3" => "2/3", _ => "4/5" };
                let o = run_bin(&bin, &["ccsds", "--rate", rs, "--block-size", &k.to_string(), "--girth"]);
                let want = fmt(ccsds::AR4JACode::new(r, sz).h().girth());
                ctx.emit(&format!("c20 same ccsds-girth-{}-{}", rs, k), if o.stdout.trim() == want && !o.status_nonzero { "equal" } else { "DIFFERENT" }, true, &["girth-vs-library"]);
            }
        }
        for (rate, code) in [("8/9", dvbs2::Code::R8_9short), ("1/4", dvbs2::Code::R1_4short)] {
            let o = run_bin(&bin, &["dvbs2", "--rate", rate, "--short", "--girth"]);
            let want = fmt(code.h().girth());
            ctx.emit(&format!("c20 same dvbs2-girth-{}-short", rate), if o.stdout.trim() == want && !o.status_nonzero { "equal" } else { "DIFFERENT" }, true, &["girth-vs-library"]);
        }
    }
    // ---------------------------------------------------------------- systematic, peg, mackay-neal: stdout = library result
    for k in 0..ctx.scale(30, 300) {
        let (mut h, _) = crate::c02::gen_h(&mut rng, 8, 16);
        if k % 4 == 3 {
            // full rank with the pivots packed to the left: [I | P] with the last row of P zero, or a square identity-like matrix
            let r = rng.range(1, 6);
            let n = if rng.chance(1, 3) { r } else { r + rng.range(1, 6) };
            h = SparseMatrix::new(r, n);
            for j in 0..r {
                h.insert(j, j);
                if j + 1 < r { for c in r..n { if rng.chance(1, 2) { h.insert(j, c); } } }
            }
        }
        let path = format!("{}/sys{}.alist", dir, k);
        std::fs::write(&path, if rng.chance(1, 2) { h.alist() } else { h.alist_no_padding() }).unwrap();
        let o = run_bin(&bin, &["systematic", &path]);
        let hh = SparseMatrix::from_alist(&std::fs::read_to_string(&path).unwrap()).unwrap();
        match parity_to_systematic(&hh) {
            Ok(g) => ctx.emit(&format!("c20 same systematic-{}", k), if o.stdout == format!("{}\n", g.alist()) && !o.status_nonzero { "equal" } else { "DIFFERENT" }, true, &["systematic-ok"]),
            Err(_) => ctx.emit(&format!("c20 invalid systematic-not-full-rank-{}", k), &fail_tokens(&o)[5..], true, &["systematic-not-full-rank"]),
        }
    }
    for k in 0..ctx.scale(20, 200) {
        let (nr, nc, wc, seed) = (rng.range(2, 10), rng.range(2, 20), rng.range(1, 3), rng.next() % 1000);
        // every other run also asks for the girth, which goes to stderr ("Code girth = g" / "infinity" for a cycle-free result)
        let with_girth = k % 2 == 1;
        let mut pargs: Vec<String> = vec!["peg".into(), nr.to_string(), nc.to_string(), wc.to_string(), seed.to_string()];
        if with_girth { pargs.push("--girth".into()); }
        let pa: Vec<&str> = pargs.iter().map(|s| s.as_str()).collect();
        let o = run_bin(&bin, &pa);
        let lib = ldpc_toolbox::peg::Config { nrows: nr, ncols: nc, wc }.run(seed);
        let girth_ok = match (&lib, with_girth) {
            (Ok(h), true) => match h.girth() {
                Some(g) => o.stderr.contains(&format!("Code girth = {}\n", g)),
                None => o.stderr.contains("Code girth = infinity"),
            },
            _ => true,
        };
        let want = lib.map(|h| format!("{}\n", h.alist()));
        ctx.emit(&format!("c20 same peg-{}", k), if Ok(o.stdout.clone()) == want.map_err(|_| ()) && !o.status_nonzero && girth_ok { "equal" } else { "DIFFERENT" }, true,
            &[if with_girth { "peg-with-girth" } else { "peg" }]);
        let (wr, uniform) = ((nc * wc).div_ceil(nr) + 1, rng.chance(1, 2));
        let mut args: Vec<String> = vec!["mackay-neal".into(), nr.to_string(), nc.to_string(), wr.to_string(), wc.to_string(), seed.to_string()];
        if uniform { args.push("--uniform".into()); }
        let a: Vec<&str> = args.iter().map(|s| s.as_str()).collect();
        let o = run_bin(&bin, &a);
        let cfg = mackay_neal::Config { nrows: nr, ncols: nc, wr, wc, backtrack_cols: 0, backtrack_trials: 0, min_girth: None, girth_trials: 0,
            fill_policy: if uniform { FillPolicy::Uniform } else { FillPolicy::Random } };
        match cfg.run(seed) {
            Ok(h) => ctx.emit(&format!("c20 same mackay-neal-{}", k), if o.stdout == format!("{}\n", h.alist()) && !o.status_nonzero { "equal" } else { "DIFFERENT" }, true, &["mackay-neal-ok"]),
            Err(_) => ctx.emit(&format!("c20 invalid mackay-neal-fails-{}", k), &fail_tokens(&o)[5..], true, &["mackay-neal-err"]),
        }
    }
    // mackay-neal with EVERY option (tight shapes, so that backtracking and girth retries really happen), and the seed search
    let (mut bt_used, mut differs_by_option) = (0usize, 0usize);
    for k in 0..ctx.scale(60, 600) {
        let (nr, nc, wr, wc) = *rng.pick(&[(6usize, 12usize, 6usize, 3usize), (5, 10, 4, 2), (8, 12, 6, 4), (9, 12, 4, 3), (6, 9, 3, 2)]);
        let seed = rng.next() % 1000;
        let (bc, bt) = (rng.range(1, 4), rng.range(0, 6));
        let mg: Option<usize> = *rng.pick(&[None, None, Some(4), Some(6), Some(5)]);
        let gt = if mg.is_some() { rng.range(0, 30) } else { 0 };
        let uniform = rng.chance(1, 2);
        let mut search = rng.chance(1, 4);
        let mut trials = rng.range(1, 8) as u64;
        // every fifth case: a seed search on a shape where (nearly) every seed needs backtracking to succeed, with a generous budget
        let (nr, nc, wr, wc, bc, bt, mg, gt) = if k % 5 == 4 {
            search = true; trials = rng.range(3, 6) as u64;
            let (a, b, c, d) = *rng.pick(&[(8usize, 16usize, 6usize, 3usize), (6, 12, 6, 3), (8, 12, 6, 4)]);
            (a, b, c, d, rng.range(2, 3), rng.range(30, 60), None, 0)
        } else { (nr, nc, wr, wc, bc, bt, mg, gt) };
        let mut args: Vec<String> = vec!["mackay-neal".into(), nr.to_string(), nc.to_string(), wr.to_string(), wc.to_string(), seed.to_string(),
            "--backtrack-cols".into(), bc.to_string(), "--backtrack-trials".into(), bt.to_string(), "--girth-trials".into(), gt.to_string()];
        if let Some(g) = mg { args.push("--min-girth".into()); args.push(g.to_string()); }
        if uniform { args.push("--uniform".into()); }
        if search { args.push("--search".into()); args.push("--seed-trials".into()); args.push(trials.to_string()); }
        let a: Vec<&str> = args.iter().map(|s| s.as_str()).collect();
        let o = run_bin(&bin, &a);
        let cfg = mackay_neal::Config { nrows: nr, ncols: nc, wr, wc, backtrack_cols: bc, backtrack_trials: bt, min_girth: mg, girth_trials: gt,
            fill_policy: if uniform { FillPolicy::Uniform } else { FillPolicy::Random } };
        // does the option matter for this seed?  (evidence that the comparison below can see a swapped or dropped option)
        let plain = mackay_neal::Config { backtrack_cols: 0, backtrack_trials: 0, ..cfg.clone() };
        // the parallel search may return ANY succeeding seed of the range: take the seed the binary reports and re-run the library with it
        let lib: Option<(Option<u64>, SparseMatrix)> = if search {
            let reported = o.stderr.lines().find_map(|l| l.trim().strip_prefix("seed = ").and_then(|x| x.parse::<u64>().ok()));
            match reported {
                Some(s) if s >= seed && s < seed + trials => cfg.run(s).ok().map(|h| (Some(s), h)),
                Some(_) => Some((Some(u64::MAX), SparseMatrix::new(1, 1))),          // a seed outside the range: reported as DIFFERENT below
                None => if (seed..seed + trials).all(|s| cfg.run(s).is_err()) { None } else { Some((Some(u64::MAX), SparseMatrix::new(1, 1))) },
            }
        } else { cfg.run(seed).ok().map(|h| (None, h)) };
        if !search && plain.run(seed).ok().map(|h| h.alist()) != lib.as_ref().map(|l| l.1.alist()) { bt_used += 1; }
        let swapped = mackay_neal::Config { backtrack_cols: bt, backtrack_trials: bc, ..cfg.clone() };
        if !search && swapped.run(seed).ok().map(|h| h.alist()) != lib.as_ref().map(|l| l.1.alist()) { differs_by_option += 1; }
        match lib {
            Some((s, h)) => {
                let seed_ok = match s { Some(s) => o.stderr.contains(&format!("seed = {}", s)), None => true };
                ctx.emit(&format!("c20 same mackay-neal-options-{}", k), if o.stdout == format!("{}\n", h.alist()) && !o.status_nonzero && seed_ok { "equal" } else { "DIFFERENT" },
                    true, &[if search { "mackay-neal-search-ok" } else { "mackay-neal-options-ok" }]);
            }
            None => ctx.emit(&format!("c20 invalid mackay-neal-options-fails-{}", k), &fail_tokens(&o)[5..], true, &["mackay-neal-options-err"]),
        }
    }
    ctx.extra.insert("mackay_neal_cases_where_backtracking_changes_the_result".into(), bt_used.to_string());
    ctx.extra.insert("mackay_neal_cases_where_swapping_the_two_backtrack_options_changes_the_result".into(), differs_by_option.to_string());
    // ---------------------------------------------------------------- encode: framing
    for k in 0..ctx.scale(60, 600) {
        // every fourth code has a length that is a multiple of 7, 9 or 11 (patterns of those lengths are where n / (len / trues) is not exact in floating point)
        let (h, _) = if k % 4 == 3 {
            let n = *rng.pick(&[14usize, 21, 28, 35, 18, 27, 22, 33]);
            let r = rng.range(2, 6);
            let mut h = SparseMatrix::new(r, n);
            for j in 0..r { for c in 0..(n - r) { if rng.chance(1, 3) { h.insert(j, c); } } h.insert(j, n - r + j); if j > 0 { h.insert(j, n - r + j - 1); } }
            (h, "staircase")
        } else { crate::c02::gen_h(&mut rng, 6, 14) };
        let h = SparseMatrix::from_alist(&h.alist()).unwrap();
        if Encoder::from_h(&h).is_err() || h.num_cols() == h.num_rows() { continue; }
        let n = h.num_cols();
        let kk = n - h.num_rows();
        let divs: Vec<usize> = (2..=14).filter(|d| n % d == 0).collect();
        let pattern: Option<Vec<bool>> = if !divs.is_empty() && rng.chance(1, 2) {
            let d = *rng.pick(&divs);
            let mut p: Vec<bool> = (0..d).map(|_| rng.chance(2, 3)).collect();
            if !p.iter().any(|&b| b) { p[0] = true; }
            Some(p)
        } else { None };
        // input: 0-4 whole words plus a partial word
        let words = rng.range(0, 4);
        let extra = rng.below(kk);
        let input: Vec<u8> = (0..words * kk + extra).map(|_| *rng.pick(&[0u8, 1, 1, 0, 2])).collect();
        let (ap, ip, op) = (format!("{}/enc{}.alist", dir, k), format!("{}/enc{}.in", dir, k), format!("{}/enc{}.out", dir, k));
        std::fs::write(&ap, h.alist()).unwrap();
        std::fs::write(&ip, &input).unwrap();
        let ps = pattern.as_ref().map(|p| p.iter().map(|&b| if b { "1" } else { "0" }).collect::<Vec<_>>().join(","));
        let mut args = vec!["encode", ap.as_str(), ip.as_str(), op.as_str()];
        if let Some(p) = &ps { args.push("--puncturing"); args.push(p); }
        let o = run_bin(&bin, &args);
        let out = if o.status_nonzero { "fail".to_string() } else {
            nat_list(&std::fs::read(&op).unwrap_or_default().iter().map(|&b| b as usize).collect::<Vec<_>>())
        };
        ctx.emit(&format!("c20 encode {} {} {}", sm(&h), pattern.as_ref().map(|p| bools(p.iter().copied())).unwrap_or("-".into()),
            nat_list(&input.iter().map(|&b| b as usize).collect::<Vec<_>>())), &out, words >= 1,
            &[if pattern.is_some() { "encode-punctured" } else { "encode-unpunctured" }, if extra > 0 { "trailing-partial-word" } else { "whole-words-only" }]);
    }
    // encode through the CLI with a DVB-S2 normal-frame matrix (tens of thousands of parity bits): the staircase part of H is invertible, so the
    // word written must be the one codeword whose leading bits are the input word — judged here by the parity checks themselves
    {
        let code = if ctx.thorough { ldpc_toolbox::codes::dvbs2::Code::R1_4 } else { ldpc_toolbox::codes::dvbs2::Code::R1_3 };
        let h = code.h();
        let (n, kk) = (h.num_cols(), h.num_cols() - h.num_rows());
        let input: Vec<u8> = (0..2 * kk + 5).map(|_| rng.below(2) as u8).collect();
        let (ap, ip, op) = (format!("{}/encbig.alist", dir), format!("{}/encbig.in", dir), format!("{}/encbig.out", dir));
        std::fs::write(&ap, h.alist()).unwrap();
        std::fs::write(&ip, &input).unwrap();
        let o = run_bin(&bin, &["encode", ap.as_str(), ip.as_str(), op.as_str()]);
        let out = std::fs::read(&op).unwrap_or_default();
        let mut good = !o.status_nonzero && out.len() == 2 * n && out.iter().all(|&b| b <= 1);
        if good {
            for w in 0..2 {
                let cw = &out[w * n..(w + 1) * n];
                good &= cw[..kk] == input[w * kk..(w + 1) * kk];
                good &= (0..h.num_rows()).all(|r| h.iter_row(r).filter(|&&c| cw[c] == 1).count() % 2 == 0);
            }
        }
        ctx.emit("c20 same encode-dvbs2-normal-frame", if good { "equal" } else { "DIFFERENT" }, true, &["encode-large-staircase"]);
        let _ = std::fs::remove_file(&ap); let _ = std::fs::remove_file(&op);
    }
    // ---------------------------------------------------------------- invalid inputs: non-zero exit, message, no panic
    // 3 columns x 2 rows, column 3 names row 3 (> nrows, <= ncols): must be a clean error (defect D2)
    let rowidx = format!("{}/rowidx.alist", dir);
    std::fs::write(&rowidx, "3 2\n1 1\n1 1 1\n1 1\n1\n2\n3\n1\n2\n").unwrap();
    let good = format!("{}/good.alist", dir);
    std::fs::write(&good, crate::c13::test_matrix().alist()).unwrap();
    let bad = format!("{}/bad.alist", dir);
    std::fs::write(&bad, "3 2\n1 1\n1 1 1\n1 1\n1\n2\n3\n1\n2\n").unwrap(); // row index out of range (D2)
    let junk = format!("{}/junk.alist", dir);
    std::fs::write(&junk, "hello world\n").unwrap();
    let inp = format!("{}/in.bin", dir);
    std::fs::write(&inp, [0u8, 1, 1, 0, 1, 0, 0, 1]).unwrap();
    let outp = format!("{}/out.bin", dir);
    let cases: Vec<(&str, Vec<&str>)> = vec![
        ("systematic-missing-file", vec!["systematic", "/nonexistent.alist"]),
        ("systematic-row-index-out-of-range", vec!["systematic", &bad]),
        ("systematic-junk", vec!["systematic", &junk]),
        ("systematic-alist-row-index-between-nrows-and-ncols", vec!["systematic", &rowidx]),
        ("encode-alist-row-index-between-nrows-and-ncols", vec!["encode", &rowidx, &inp, &outp]),
        ("encode-bad-pattern", vec!["encode", &good, &inp, &outp, "--puncturing", "1,,0"]),
        ("encode-pattern-item-with-leading-zero", vec!["encode", &good, &inp, &outp, "--puncturing", "01,1,1,0"]),
        ("encode-pattern-trailing-comma", vec!["encode", &good, &inp, &outp, "--puncturing", "1,1,1,0,"]),
        ("encode-pattern-empty-string", vec!["encode", &good, &inp, &outp, "--puncturing", ""]),
        ("ber-pattern-trailing-comma", vec!["ber", &good, "--min-ebn0", "1", "--max-ebn0", "2", "--step-ebn0", "1", "--puncturing", "1,1,1,0,"]),
        ("encode-pattern-item-with-plus-sign", vec!["encode", &good, &inp, &outp, "--puncturing", "+1,1,1,0"]),
        ("ber-pattern-item-double-zero", vec!["ber", &good, "--min-ebn0", "1", "--max-ebn0", "2", "--step-ebn0", "1", "--puncturing", "1,1,1,00"]),
        ("encode-pattern-not-dividing", vec!["encode", &good, &inp, &outp, "--puncturing", "1,1,1,1,0"]),
        ("encode-missing-input", vec!["encode", &good, "/nonexistent.in", &outp]),
        ("encode-bad-alist", vec!["encode", &bad, &inp, &outp]),
        ("ber-bad-alist", vec!["ber", &bad, "--min-ebn0", "1", "--max-ebn0", "2", "--step-ebn0", "1"]),
        ("ber-bad-pattern", vec!["ber", &good, "--min-ebn0", "1", "--max-ebn0", "2", "--step-ebn0", "1", "--puncturing", "x"]),
        ("ber-unknown-decoder", vec!["ber", &good, "--min-ebn0", "1", "--max-ebn0", "2", "--step-ebn0", "1", "--decoder", "Phif65"]),
        // the 36 names are offered under exactly their strings: other letter cases are not names
        ("ber-decoder-lower-case", vec!["ber", &good, "--min-ebn0", "1", "--max-ebn0", "2", "--step-ebn0", "1", "--decoder", "phif64"]),
        ("ber-decoder-upper-case", vec!["ber", &good, "--min-ebn0", "1", "--max-ebn0", "2", "--step-ebn0", "1", "--decoder", "HLAMINSTARI8"]),
        ("ber-decoder-mixed-case", vec!["ber", &good, "--min-ebn0", "1", "--max-ebn0", "2", "--step-ebn0", "1", "--decoder", "HlPhif64"]),
        ("ber-modulation-lower-case", vec!["ber", &good, "--min-ebn0", "1", "--max-ebn0", "2", "--step-ebn0", "1", "--modulation", "bpsk"]),
        ("ccsds-bad-block-size", vec!["ccsds", "--rate", "1/2", "--block-size", "1000"]),
        ("ccsds-block-size-1025", vec!["ccsds", "--rate", "1/2", "--block-size", "1025"]),
        ("ccsds-block-size-4097", vec!["ccsds", "--rate", "2/3", "--block-size", "4097"]),
        ("ccsds-block-size-17000", vec!["ccsds", "--rate", "4/5", "--block-size", "17000"]),
        ("peg-no-rows", vec!["peg", "0", "4", "2", "1"]),
    ];
    for (name, args) in cases {
        let o = run_bin(&bin, &args);
        ctx.emit(&format!("c20 invalid {}", name), &fail_tokens(&o)[5..], true, &["invalid-input"]);
    }
    // ---------------------------------------------------------------- ber: one result line per Eb/N0, numbers satisfy the identities
    // ranges whose quotient (max - min) / step has a fractional part >= 1/2 (and an exact tie) must still be floored; at -30 dB every
    // frame is a frame error, so consecutive points finish with identical frame counts (exactly --frame-errors frames each)
    for (minc, maxc, stepc, ferrs) in [(300i64, 500i64, 100i64, 20u32), (250, 400, 50, 20), (400, 400, 100, 20), (300, 460, 75, 20),
            (300, 470, 100, 20), (250, 400, 60, 20), (300, 399, 50, 20), (-3000, -2700, 100, 5), (-3000, -2930, 40, 3)] {
        let of = format!("{}/ber-{}-{}-{}.txt", dir, minc, maxc, stepc);
        let f = |c: i64| format!("{}{}.{:02}", if c < 0 { "-" } else { "" }, c.abs() / 100, c.abs() % 100);
        let fe = ferrs.to_string();
        let (a1, a2, a3) = (format!("--min-ebn0={}", f(minc)), format!("--max-ebn0={}", f(maxc)), format!("--step-ebn0={}", f(stepc)));
        let o = run_bin(&bin, &["ber", &good, &a1, &a2, &a3, "--frame-errors", &fe,
            "--max-iter", "10", "--decoder", "Minstarapproxi8", "--output-file", &of]);
        let text = std::fs::read_to_string(&of).unwrap_or_default();
        // data lines: after the header separator line
        let mut data: Vec<&str> = Vec::new();
        let mut after = false;
        for l in text.lines() {
            if after && l.contains('|') { data.push(l); }
            if l.starts_with("--------|") { after = true; }
        }
        let k = 8.0f64;
        let mut ok = !o.status_nonzero;
        let mut last_ebn0 = f64::NEG_INFINITY;
        for l in &data {
            let c: Vec<&str> = l.split('|').map(|x| x.trim()).collect();
            if c.len() != 11 { ok = false; continue; }
            let p = |s: &str| s.parse::<f64>().unwrap_or(f64::NAN);
            let (eb, frames, biterr, ferr, ber, fer) = (p(c[0]), p(c[1]), p(c[2]), p(c[3]), p(c[5]), p(c[6]));
            if !(eb > last_ebn0) { ok = false; }
            last_ebn0 = eb;
            if ferr != ferrs as f64 || frames < ferr || biterr < ferr { ok = false; }
            // printed with 3 significant digits
            if (ber - biterr / (k * frames)).abs() > 0.006 * ber.abs() + 1e-12 || (fer - ferr / frames).abs() > 0.006 * fer.abs() + 1e-12 { ok = false; }
        }
        ctx.emit(&format!("c20 ber {} {} {} 8", minc, maxc, stepc), &format!("{} {}", data.len(), ok as u8), true, &["ber-result-file"]);
    }
    // ---------------------------------------------------------------- ber with puncturing + interleaving + 8PSK, and with the outer-code accounting
    {
        let parse = |text: &str| -> (Vec<Vec<f64>>, String) {
            let mut data = Vec::new();
            let mut after = false;
            for l in text.lines() {
                if after && l.contains('|') {
                    data.push(l.split('|').map(|x| x.trim().parse::<f64>().unwrap_or(f64::NAN)).collect::<Vec<f64>>());
                }
                if l.starts_with("--------|") { after = true; }
            }
            (data, text.lines().filter(|l| l.starts_with(" - ") || l.contains("results")).collect::<Vec<_>>().join(";"))
        };
        let ident = |d: &Vec<f64>, k: f64| -> bool {
            d.len() == 11 && d[1] >= d[3] && d[2] >= d[3]
                && (d[5] - d[2] / (k * d[1])).abs() <= 0.006 * d[5].abs() + 1e-12 && (d[6] - d[3] / d[1]).abs() <= 0.006 * d[6].abs() + 1e-12
        };
        // (a) puncturing 1,1,1,0 of the 4x12 code (N = 9), 3 interleaver columns, 8PSK
        let of = format!("{}/ber-punct.txt", dir);
        let o = run_bin(&bin, &["ber", &good, "--min-ebn0", "3", "--max-ebn0", "4", "--step-ebn0", "1", "--frame-errors", "15", "--max-iter", "10",
            "--decoder", "HLPhif32", "--puncturing", "1,1,1,0", "--interleaving", "3", "--modulation", "PSK8", "--output-file", &of]);
        let (data, details) = parse(&std::fs::read_to_string(&of).unwrap_or_default());
        let want = ["Modulation: 8PSK", "Puncturing pattern: 1,1,1,0", "Interleaving columns: 3", "Information bits (k): 8", "Codeword size (N_cw): 12",
            "Frame size (N): 9", "Code rate: 0.889", "Implementation: HLPhif32", "Maximum iterations: 10"];
        let ok = !o.status_nonzero && data.len() == 2 && data.iter().all(|d| ident(d, 8.0) && d[3] == 15.0) && want.iter().all(|w| details.contains(w));
        ctx.emit("c20 berx punctured-interleaved-8psk", &format!("{} {}", data.len(), ok as u8), true, &["ber-result-file-punctured-8psk"]);
        // (a2) interleaver column counts that divide the punctured frame (N = 9) but not the codeword (12), forward and backward
        for cols in ["9", "=-9"] {
            let of = format!("{}/ber-punct-il{}.txt", dir, cols.trim_start_matches('='));
            let il = if cols.starts_with('=') { format!("--interleaving{}", cols) } else { format!("--interleaving={}", cols) };
            let o = run_bin(&bin, &["ber", &good, "--min-ebn0", "3", "--max-ebn0", "4", "--step-ebn0", "1", "--frame-errors", "10", "--max-iter", "10",
                "--decoder", "Minstarapproxi8", "--puncturing", "1,1,1,0", &il, "--output-file", &of]);
            let (data, details) = parse(&std::fs::read_to_string(&of).unwrap_or_default());
            let ok = !o.status_nonzero && data.len() == 2 && data.iter().all(|d| ident(d, 8.0) && d[3] == 10.0) && details.contains("Frame size (N): 9");
            ctx.emit(&format!("c20 berx punctured-interleaver-columns-{}", cols.trim_start_matches('=')), &format!("{} {}", data.len(), ok as u8), true, &["ber-result-file-punctured-interleaved"]);
        }
        // (b) outer code correcting up to 2 bit errors: the main file counts frames with > 2 bit errors, the LDPC-only file every erroneous frame
        let (of, ofl) = (format!("{}/ber-bch.txt", dir), format!("{}/ber-ldpc.txt", dir));
        let o = run_bin(&bin, &["ber", &good, "--min-ebn0", "2", "--max-ebn0", "3", "--step-ebn0", "1", "--frame-errors", "15", "--max-iter", "10",
            "--decoder", "Aminstari8", "--bch-max-errors", "2", "--output-file", &of, "--output-file-ldpc", &ofl]);
        let (dm, det_m) = parse(&std::fs::read_to_string(&of).unwrap_or_default());
        let (dl, det_l) = parse(&std::fs::read_to_string(&ofl).unwrap_or_default());
        // (c) the LDPC-only file WITHOUT the main file (each output option on its own)
        {
            let only = format!("{}/ber-ldpc-only.txt", dir);
            let o2 = run_bin(&bin, &["ber", &good, "--min-ebn0", "2", "--max-ebn0", "3", "--step-ebn0", "1", "--frame-errors", "10", "--max-iter", "10",
                "--decoder", "Aminstari8", "--bch-max-errors", "2", "--output-file-ldpc", &only]);
            let (d2, det2) = parse(&std::fs::read_to_string(&only).unwrap_or_default());
            let ok2 = !o2.status_nonzero && d2.len() == 2 && det2.contains("LDPC-only results") && d2.iter().all(|d| ident(d, 8.0));
            ctx.emit("c20 berx ldpc-only-file-without-main-file", &format!("{} {}", d2.len(), ok2 as u8), true, &["ber-result-file-ldpc-only"]);
        }
        let mut ok = !o.status_nonzero && dm.len() == 2 && dl.len() == 2 && det_m.contains("LDPC+BCH results") && det_l.contains("LDPC-only results")
            && det_m.contains("Maximum bit errors correctable: 2");
        for (m, l) in dm.iter().zip(dl.iter()) {
            // same Eb/N0 and frames; the outer code can only remove errors; every remaining error frame has >= 3 bit errors; the point stops on the outer-code count;
            // the LDPC-only file really holds the LDPC-only statistics: at 2-3 dB on this 12-bit code 60-100 frames per point have one or two bit errors that the
            // outer code removes (measured), so "strictly more" fails on correct code with probability < e^-60
            ok = ok && ident(m, 8.0) && ident(l, 8.0) && m[0] == l[0] && m[1] == l[1] && m[3] == 15.0 && l[3] > m[3] && l[2] > m[2] && m[2] >= 3.0 * m[3]
                && (l[2] - m[2]) <= 2.0 * (l[3] - m[3]);
        }
        ctx.emit("c20 berx outer-code", &format!("{} {}", dm.len(), ok as u8), true, &["ber-result-file-outer-code"]);
    }
    let _ = std::fs::remove_dir_all(&dir);
}
