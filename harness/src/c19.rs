//! C19: the exported C symbols (`ldpc_toolbox_*`), called through extern "C" declarations.
use crate::c08::enc_text;
use crate::dec::*;
use crate::fmt::*;
use crate::rng::Rng;
use crate::Ctx;
use ldpc_toolbox::decoder::factory::{DecoderFactory, DecoderImplementation};
use ldpc_toolbox::encoder::Encoder;
use ldpc_toolbox::gf2::GF2;
use ldpc_toolbox::simulation::puncturing::Puncturer;
use ldpc_toolbox::sparse::SparseMatrix;
use ndarray::Array1;
use num_traits::{One, Zero};
use std::ffi::{CString, c_char, c_void};
use std::str::FromStr;

unsafe extern "C" {
    fn ldpc_toolbox_decoder_ctor(alist_file_path: *const c_char, implementation: *const c_char, puncturing: *const c_char) -> *mut c_void;
    fn ldpc_toolbox_decoder_ctor_alist_string(alist: *const c_char, implementation: *const c_char, puncturing: *const c_char) -> *mut c_void;
    fn ldpc_toolbox_decoder_dtor(decoder: *mut c_void);
    fn ldpc_toolbox_decoder_decode_f64(decoder: *mut c_void, output: *mut u8, output_len: usize, llrs: *const f64, llrs_len: usize, max_iterations: u32) -> i32;
    fn ldpc_toolbox_decoder_decode_f32(decoder: *mut c_void, output: *mut u8, output_len: usize, llrs: *const f32, llrs_len: usize, max_iterations: u32) -> i32;
    fn ldpc_toolbox_encoder_ctor(alist_file_path: *const c_char, puncturing: *const c_char) -> *mut c_void;
    fn ldpc_toolbox_encoder_ctor_alist_string(alist: *const c_char, puncturing: *const c_char) -> *mut c_void;
    fn ldpc_toolbox_encoder_dtor(encoder: *mut c_void);
    fn ldpc_toolbox_encoder_encode(encoder: *mut c_void, output: *mut u8, output_len: usize, input: *const u8, input_len: usize);
}

fn cs(s: &str) -> Option<CString> {
    CString::new(s).ok()
}

/// run a constructor in a forked child so that an abort (panic across the FFI boundary) is an observable outcome
fn in_child<F: FnOnce() -> bool>(f: F) -> &'static str {
    unsafe {
        let pid = libc::fork();
        if pid == 0 {
            // child: silence stderr, run, report through the exit status
            libc::close(2);
            let ok = f();
            libc::_exit(if ok { 0 } else { 1 });
        }
        let mut status = 0;
        libc::waitpid(pid, &mut status, 0);
        if libc::WIFEXITED(status) {
            if libc::WEXITSTATUS(status) == 0 { "ok" } else { "null" }
        } else {
            "abort"
        }
    }
}

fn tmpfile(name: &str, content: &str) -> String {
    let dir = std::env::var("VERIF_ROOT").map(|r| format!("{}/work", r)).unwrap_or("/tmp".into());
    let p = format!("{}/c19-{}-{}.alist", dir, std::process::id(), name);
    std::fs::write(&p, content).unwrap();
    p
}

fn pattern_str(p: &Option<Vec<bool>>) -> String {
    p.as_ref().map(|v| v.iter().map(|&b| if b { "1" } else { "0" }).collect::<Vec<_>>().join(",")).unwrap_or_default()
}

pub fn run(ctx: &mut Ctx, _replay: Option<&[String]>) {
    let mut rng = Rng::new(ctx.seed, 19);
    let impls: Vec<DecoderImplementation> = crate::c01::all_impls();
    // ---------------------------------------------------------------- constructors
    let good = crate::c13::test_matrix().alist();
    let d2 = "3 2\n1 1\n1 1 1\n1 1\n1\n2\n3\n1\n2\n".to_string(); // row index out of range (defect D2)
    let singular = { let mut h = SparseMatrix::new(2, 4); h.insert(0, 0); h.insert(1, 1); h.insert(0, 2); h.insert(1, 2); h.alist() };
    let alists: Vec<(&str, String)> = vec![("valid", good.clone()), ("row-index-out-of-range", d2), ("truncated", good[..good.len() / 2].to_string()),
        ("empty", String::new()), ("not-a-number", good.replacen("12", "x", 1)), ("singular-tail", singular), ("unpadded", crate::c13::test_matrix().alist_no_padding())];
    let names: Vec<String> = vec!["Phif64".into(), "HLAminstari8".into(), "Minstarapproxi8JonesPartialHardLimitDeg1Clip".into(), "phif64".into(), "".into(), "HLPhif64 ".into(), "Aminstari9".into(),
        "Phif64\u{a0}".into(), "\u{feff}Phif64".into(), "Phif6\u{ff14}".into(), "Phi\u{e9}f64".into()];
    let puncts = ["", "1,0", "1,1,1,0", "1,,0", "2", "1,0,", " 1,0", "1;0", "0", "0,0", "01,1,0", "1,1,00", "+1,1,0", "1,1,-0", "1,1,0 ", "１,1,0"];
    for (an, a) in &alists {
        for name in &names {
            for p in puncts {
                if !ctx.thorough && rng.chance(1, 2) && *an != "valid" { continue; }
                let (a2, n2, p2) = (cs(a), cs(name), cs(p));
                let (Some(a2), Some(n2), Some(p2)) = (a2, n2, p2) else { continue };
                let via_file = rng.chance(1, 3);
                let path = if via_file { Some(tmpfile("d", a)) } else { None };
                let pc = path.as_ref().and_then(|x| cs(x));
                let o = in_child(|| unsafe {
                    let h = match &pc { Some(pc) => ldpc_toolbox_decoder_ctor(pc.as_ptr(), n2.as_ptr(), p2.as_ptr()),
                                        None => ldpc_toolbox_decoder_ctor_alist_string(a2.as_ptr(), n2.as_ptr(), p2.as_ptr()) };
                    !h.is_null()
                });
                if let Some(x) = path { let _ = std::fs::remove_file(x); }
                let tag = format!("decoder-ctor-alist-{}", an);
                ctx.emit(&format!("c19 dctor {} {} {}", enc_text(a), enc_text(name), enc_text(p)), o, true, &[tag.as_str(), if via_file { "via-file" } else { "via-string" }]);
            }
        }
        for p in puncts {
            let (Some(a2), Some(p2)) = (cs(a), cs(p)) else { continue };
            let via_file = rng.chance(1, 3);
            let path = if via_file { Some(tmpfile("e", a)) } else { None };
            let pc = path.as_ref().and_then(|x| cs(x));
            let o = in_child(|| unsafe {
                let h = match &pc { Some(pc) => ldpc_toolbox_encoder_ctor(pc.as_ptr(), p2.as_ptr()), None => ldpc_toolbox_encoder_ctor_alist_string(a2.as_ptr(), p2.as_ptr()) };
                !h.is_null()
            });
            if let Some(x) = path { let _ = std::fs::remove_file(x); }
            let tag = format!("encoder-ctor-alist-{}", an);
            ctx.emit(&format!("c19 ector {} {}", enc_text(a), enc_text(p)), o, true, &[tag.as_str()]);
        }
    }
    // unreadable file paths: must be null (the model has no file system: expected value fixed here, outside the model)
    for missing in ["/nonexistent/x.alist", "", "/"] {
        let (Some(m), Some(n), Some(p)) = (cs(missing), cs("Phif64"), cs("")) else { continue };
        let o1 = in_child(|| unsafe { !ldpc_toolbox_decoder_ctor(m.as_ptr(), n.as_ptr(), p.as_ptr()).is_null() });
        let o2 = in_child(|| unsafe { !ldpc_toolbox_encoder_ctor(m.as_ptr(), p.as_ptr()).is_null() });
        ctx.emit(&format!("c19 nofile {}", enc_text(missing)), &format!("{} {}", o1, o2), true, &["unreadable-file"]);
    }
    // C strings that are not valid UTF-8 (the conversion is lossy: U+FFFD can be neither a pattern item nor part of a name): null
    {
        let good_c = cs(&good).unwrap();
        let bad_pat = CString::new(vec![0x31u8, 0x2c, 0x31, 0x2c, 0xff]).unwrap();
        let bad_pat2 = CString::new(vec![0xffu8]).unwrap();
        let bad_name = CString::new(vec![0x50u8, 0x68, 0x69, 0x66, 0x36, 0x34, 0xfe]).unwrap();
        let (nm, empty) = (cs("Phif64").unwrap(), cs("").unwrap());
        let o1 = in_child(|| unsafe { !ldpc_toolbox_decoder_ctor_alist_string(good_c.as_ptr(), nm.as_ptr(), bad_pat.as_ptr()).is_null() });
        let o2 = in_child(|| unsafe { !ldpc_toolbox_encoder_ctor_alist_string(good_c.as_ptr(), bad_pat.as_ptr()).is_null() });
        let o3 = in_child(|| unsafe { !ldpc_toolbox_decoder_ctor_alist_string(good_c.as_ptr(), nm.as_ptr(), bad_pat2.as_ptr()).is_null() });
        let o4 = in_child(|| unsafe { !ldpc_toolbox_decoder_ctor_alist_string(good_c.as_ptr(), bad_name.as_ptr(), empty.as_ptr()).is_null() });
        ctx.emit("c19 notutf8 pattern-and-name", &format!("{} {} {} {}", o1, o2, o3, o4), true, &["c-string-not-utf8"]);
    }
    // a file that cannot be read as text: the valid alist with one invalid UTF-8 byte in a line the parser ignores (the weight lines)
    {
        let dir = std::env::var("VERIF_ROOT").map(|r| format!("{}/work", r)).unwrap_or("/tmp".into());
        let path = format!("{}/c19-{}-nonutf8.alist", dir, std::process::id());
        let mut bytes = good.clone().into_bytes();
        let second_line = bytes.iter().position(|&b| b == b'\n').unwrap() + 1;
        bytes[second_line] = 0xFF;
        std::fs::write(&path, &bytes).unwrap();
        if let (Some(m), Some(nm), Some(p)) = (cs(&path), cs("Phif64"), cs("")) {
            let o1 = in_child(|| unsafe { !ldpc_toolbox_decoder_ctor(m.as_ptr(), nm.as_ptr(), p.as_ptr()).is_null() });
            let o2 = in_child(|| unsafe { !ldpc_toolbox_encoder_ctor(m.as_ptr(), p.as_ptr()).is_null() });
            ctx.emit("c19 nofile not-utf8", &format!("{} {}", o1, o2), true, &["unreadable-file"]);
        }
        let _ = std::fs::remove_file(&path);
    }
    // ---------------------------------------------------------------- decode: all 36 names, call sequences on one handle
    for imp in &impls {
        for _ in 0..ctx.scale(12, 1500) {
            let (h, fam) = gen_matrix(&mut rng, 24);
            let n = h.num_cols();
            // puncturing pattern whose length divides n
            // pattern lengths up to 14: with 7, 9, 11 ... blocks the quotient n / (len / kept) is not exact in floating point
            let divs: Vec<usize> = (2..=14).filter(|d| n % d == 0).collect();
            let pattern: Option<Vec<bool>> = if !divs.is_empty() && rng.chance(1, 2) {
                let d = *rng.pick(&divs);
                let mut p: Vec<bool> = (0..d).map(|_| rng.chance(2, 3)).collect();
                if !p.iter().any(|&b| b) { p[0] = true; }
                Some(p)
            } else { None };
            let f32mode = rng.chance(1, 3);
            // a third of the handles get BOTH entry points, in a random order (state shared between decode_f32 and decode_f64 on one handle)
            let mixed = rng.chance(1, 3);
            let out_len = if rng.chance(1, 2) { n - h.num_rows().min(n) } else { rng.range(0, n) };
            let ncalls = rng.range(1, 5);
            let (Some(a), Some(nm), Some(ps)) = (cs(&h.alist()), cs(&imp.to_string()), cs(&pattern_str(&pattern))) else { continue };
            // the inputs of the whole call sequence are drawn here; the sequence itself (constructor, Rust reference, C calls, destructor) runs
            // in a forked child, so that a panic inside an extern "C" function -- which aborts the process -- is an observable outcome
            let calls: Vec<(Vec<f64>, u32, bool)> = (0..ncalls).map(|_| {
                let (full, _) = gen_llrs(&mut rng, &h);
                // what goes over the air: the unpunctured positions
                let mut sent: Vec<f64> = match &pattern {
                    Some(p) => { let b = n / p.len(); full.iter().enumerate().filter(|(i, _)| p[i / b]).map(|(_, &x)| x).collect() }
                    None => full.clone(),
                };
                let f32call = if mixed { rng.chance(1, 2) } else { f32mode };
                if f32call { sent = sent.iter().map(|&x| (x as f32) as f64).collect(); }
                let mut limit = *rng.pick(&[0u32, 1, 2, 5, 20]);
                // one call in six gets a limit that does not fit in 31 (16, 8) bits -- only for a frame that a fresh Rust decoder decodes within
                // 20 iterations (otherwise the reference itself would iterate for hours): the result must then be the same as under limit 20
                if rng.chance(1, 6) {
                    let dep = match &pattern { Some(p) => Puncturer::new(p).depuncture(&sent).unwrap(), None => sent.clone() };
                    // (the very decoder the reference below uses: same name, matrix parsed back from the same alist text -- decoding is a
                    // deterministic function of name, matrix object and LLRs, so the reference terminates within 20 iterations as well)
                    let (imp3, h3) = (*imp, SparseMatrix::from_alist(&h.alist()).unwrap());
                    let decodes = crate::guarded(move || imp3.build_decoder(h3).decode(&dep, 20).is_ok()).unwrap_or(false);
                    if decodes { limit = *rng.pick(&[u32::MAX, 1u32 << 31, (1u32 << 31) + 7, 65536, 65541, 256, 1 << 20]); }
                }
                (sent, limit, f32call)
            }).collect();
            let (calls2, pattern2, h2, imp2) = (calls.clone(), pattern.clone(), h.clone(), *imp);
            let res = crate::c06::with_time_limit(300, move || {
                let handle = unsafe { ldpc_toolbox_decoder_ctor_alist_string(a.as_ptr(), nm.as_ptr(), ps.as_ptr()) };
                if handle.is_null() { return "NULL".to_string(); }
                let mut rust = imp2.build_decoder(SparseMatrix::from_alist(&h2.alist()).unwrap());
                let punct = pattern2.as_ref().map(|p| Puncturer::new(p));
                let (mut cres, mut rres) = (Vec::new(), Vec::new());
                for (sent, limit, f32call) in &calls2 {
                    let limit = *limit;
                    // the Rust decoder first, on the depunctured LLRs (f32 input behaving as its f64 widening).  If IT panics (the float A-Min*
                    // decoders do when f32 messages overflow to NaN, DESIGN.md section 4 (9)) there is nothing to compare the C call with: the
                    // call sequence ends here.
                    let dep = match &punct { Some(p) => p.depuncture(sent).unwrap(), None => sent.clone() };
                    let rr = {
                        let d = std::panic::AssertUnwindSafe(&mut rust);
                        let dep2 = dep.clone();
                        crate::guarded(move || { let d = d; d.0.decode(&dep2, limit as usize) })
                    };
                    let Ok(rr) = rr else { break; };
                    let mut out = vec![7u8; out_len];
                    let ret = unsafe {
                        if *f32call {
                            let s32: Vec<f32> = sent.iter().map(|&x| x as f32).collect();
                            ldpc_toolbox_decoder_decode_f32(handle, out.as_mut_ptr(), out_len, s32.as_ptr(), s32.len(), limit)
                        } else {
                            ldpc_toolbox_decoder_decode_f64(handle, out.as_mut_ptr(), out_len, sent.as_ptr(), sent.len(), limit)
                        }
                    };
                    cres.push(format!("{}:{}", ret, bools(out.iter().map(|&b| b == 1))));
                    let (rret, word) = match rr {
                        Ok(o) => (o.iterations as i64, o.codeword), Err(o) => (-1, o.codeword) };
                    rres.push(format!("{}:{}", rret, bools(word.iter().take(out_len).map(|&b| b == 1))));
                }
                unsafe { ldpc_toolbox_decoder_dtor(handle) };
                format!("{} | {}", cres.join(" "), rres.join(" "))
            });
            let head = format!("c19 dec {} {} {} {} {}", if mixed { "mix" } else if f32mode { "f32" } else { "f64" }, imp, sm(&SparseMatrix::from_alist(&h.alist()).unwrap()),
                pattern.as_ref().map(|p| bools(p.iter().copied())).unwrap_or("-".into()), out_len);
            let tags = [fam, if mixed { "decode-f32-and-f64-on-one-handle" } else if f32mode { "decode-f32" } else { "decode-f64" }, if pattern.is_some() { "with-puncturing" } else { "no-puncturing" }];
            if res == "NULL" {
                ctx.tag("UNEXPECTED-NULL-HANDLE");
                ctx.emit(&head, "null-handle-for-a-valid-matrix-name-and-pattern | ok", true, &[fam, "decoder-constructor-returned-null"]);
                continue;
            }
            if res == "abort" || res == "timeout" {
                // the process died inside the call sequence (a panic across the FFI boundary aborts): a finding with this input
                let all: Vec<String> = calls.iter().map(|(s, l, _)| fmt_call(*l as usize, s)).collect();
                ctx.emit(&format!("{} {}", head, all.join(" ")), &format!("process-{}-inside-the-C-call-sequence | ok", res), true, &[fam, "c-call-sequence-aborted"]);
                continue;
            }
            // calls that were completed (the sequence stops where the Rust reference decoder panics)
            let done = res.split(" | ").next().map(|c| c.split_whitespace().count()).unwrap_or(0);
            if done < calls.len() { ctx.tag("rust-decoder-panicked-c-call-skipped"); }
            let calls_s: Vec<String> = calls.iter().take(done).map(|(s, l, _)| fmt_call(*l as usize, s)).collect();
            ctx.emit(&format!("{} {}", head, calls_s.join(" ")), &res, ncalls >= 2, &tags);
        }
    }
    // ---------------------------------------------------------------- decode through the C API with a code of more than 2^16 columns (float names: the
    // list-based model is not run on them; judged as C result = Rust result), output lengths above and below n mod 65536
    for name in ["Phif64", "HLTanhf32", "Minstarapproxf64", "HLAminstarf64"].iter().take(ctx.scale(2, 4)) {
        let Some(imp) = impls.iter().find(|i| i.to_string() == *name).copied() else { continue };
        let n = 65536 + rng.range(2, 60);
        let mut h = SparseMatrix::new(3, n);
        let hi = [65536, 65536 + rng.range(1, n - 65536 - 1), n - 1];
        let lo = [1usize, rng.range(2, 300), 0];
        for r in 0..3 { h.insert(r, lo[r]); h.insert(r, hi[r]); }
        let mut llrs = vec![2.5f64; n];
        llrs[hi[rng.below(3)]] = -1.5;
        let out_len = *rng.pick(&[n, 300, n - 3, 1]);
        let limit = *rng.pick(&[1u32, 3]);
        let (Some(a), Some(nm), Some(ps)) = (cs(&h.alist()), cs(name), cs("")) else { continue };
        let (h2, llrs2) = (h.clone(), llrs.clone());
        let res = crate::c06::with_time_limit(300, move || {
            let handle = unsafe { ldpc_toolbox_decoder_ctor_alist_string(a.as_ptr(), nm.as_ptr(), ps.as_ptr()) };
            if handle.is_null() { return "NULL | ok".to_string(); }
            let rr = imp.build_decoder(SparseMatrix::from_alist(&h2.alist()).unwrap()).decode(&llrs2, limit as usize);
            let mut out = vec![7u8; out_len];
            let ret = unsafe { ldpc_toolbox_decoder_decode_f64(handle, out.as_mut_ptr(), out_len, llrs2.as_ptr(), llrs2.len(), limit) };
            unsafe { ldpc_toolbox_decoder_dtor(handle) };
            let (rret, word) = match rr { Ok(o) => (o.iterations as i64, o.codeword), Err(o) => (-1, o.codeword) };
            // (only the positions around the ones of H and the ends are printed: the words are 65 000 bits long)
            let pick = |w: &[u8]| -> String { let mut idx: Vec<usize> = vec![0, 1, 2, 299, 65535, 65536, 65537, out_len.saturating_sub(1)]; idx.retain(|&i| i < w.len());
                format!("{}/{}", w.len(), idx.iter().map(|&i| w[i].to_string()).collect::<String>()) };
            let same = out.len() == word.len().min(out_len) && out.iter().zip(word.iter()).all(|(a, b)| a == b);
            format!("{}:{}:{} | {}:{}:{}", ret, pick(&out), if same { "=" } else { "DIFFERENT-WORD" }, rret, pick(&word[..out_len.min(word.len())]), "=")
        });
        let res = if res == "abort" || res == "timeout" { format!("process-{}-inside-the-C-call | ok", res) } else { res };
        ctx.emit(&format!("c19 dec f64 {} {} - {} {}", name, sm(&h), out_len, fmt_call(limit as usize, &llrs[..0])), &res, true, &["decode-more-than-65536-columns"]);
    }
    // ---------------------------------------------------------------- encode
    for _ in 0..ctx.scale(300, 40000) {
        let (h, fam) = crate::c02::gen_h(&mut rng, 8, 18);
        let h = SparseMatrix::from_alist(&h.alist()).unwrap(); // the handle sees the matrix through its alist
        let Ok(enc) = Encoder::from_h(&h) else { continue };
        let n = h.num_cols();
        let k = n - h.num_rows();
        let divs: Vec<usize> = (2..=14).filter(|d| n % d == 0).collect();
        let pattern: Option<Vec<bool>> = if !divs.is_empty() && rng.chance(1, 2) {
            let d = *rng.pick(&divs);
            let mut p: Vec<bool> = (0..d).map(|_| rng.chance(2, 3)).collect();
            if !p.iter().any(|&b| b) { p[0] = true; }
            Some(p)
        } else { None };
        let (Some(a), Some(ps)) = (cs(&h.alist()), cs(&pattern_str(&pattern))) else { continue };
        let handle = unsafe { ldpc_toolbox_encoder_ctor_alist_string(a.as_ptr(), ps.as_ptr()) };
        if handle.is_null() {
            // a null handle for a valid (matrix, pattern) pair is a finding, not something to skip
            ctx.tag("UNEXPECTED-NULL-ENCODER");
            let input = format!("c19 enc {} {} {}", sm(&h), pattern.as_ref().map(|p| bools(p.iter().copied())).unwrap_or("-".into()), "-");
            ctx.emit(&input, "null-handle-for-a-valid-matrix-and-pattern | ok", true, &[fam, "encoder-constructor-returned-null"]);
            continue;
        }
        // bytes other than 0/1 count as zero
        let msg: Vec<u8> = (0..k).map(|_| *rng.pick(&[0u8, 1, 1, 0, 2, 255])).collect();
        let expected = {
            let cw = enc.encode(&Array1::from_iter(msg.iter().map(|&b| if b == 1 { GF2::one() } else { GF2::zero() })));
            match &pattern { Some(p) => Puncturer::new(p).puncture(&cw).unwrap(), None => cw }
        };
        let mut out = vec![9u8; expected.len()];
        unsafe {
            ldpc_toolbox_encoder_encode(handle, out.as_mut_ptr(), out.len(), msg.as_ptr(), msg.len());
            ldpc_toolbox_encoder_dtor(handle);
        }
        let input = format!("c19 enc {} {} {}", sm(&h), pattern.as_ref().map(|p| bools(p.iter().copied())).unwrap_or("-".into()),
            nat_list(&msg.iter().map(|&b| b as usize).collect::<Vec<_>>()));
        ctx.emit(&input, &format!("{} | {}", bools(out.iter().map(|&b| b == 1)), bools(expected.iter().map(|b| b.is_one()))), k >= 1,
            &[fam, if pattern.is_some() { "encode-with-puncturing" } else { "encode-no-puncturing" }]);
    }
    let _ = <DecoderImplementation as FromStr>::from_str("Phif64");
}
