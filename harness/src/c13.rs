//! C13 (and the observation half of C12): the BER engine with an injected, scripted decoder.
use crate::rng::Rng;
use crate::{Ctx, guarded};
use ldpc_toolbox::decoder::factory::DecoderFactory;
use ldpc_toolbox::decoder::{DecoderOutput, LdpcDecoder};
use ldpc_toolbox::simulation::ber::{Report, Reporter, Statistics};
use ldpc_toolbox::simulation::factory::{BerTestBuilder, Modulation};
use ldpc_toolbox::sparse::SparseMatrix;
use std::sync::atomic::{AtomicU64, Ordering};
use std::sync::{Arc, Mutex, mpsc};
use std::time::Duration;

fn hx(x: f64) -> String {
    // NaN payload / sign is not part of the property (0/0 when no frame was correct): canonical text
    if x.is_nan() { "nan".to_string() } else { format!("{:016x}", x.to_bits()) }
}

#[derive(Clone)]
pub struct Scripted {
    pub counter: Arc<AtomicU64>,
    pub log: Arc<Mutex<Vec<Vec<f64>>>>,
    pub log_limit: usize,
    pub panic_every: u64, // a decoder whose build index is a multiple of this panics on its first frame (0 = never)
    pub built: Arc<AtomicU64>,
    pub seed: u64,
    pub seq: bool,
    pub iter_offset: u64, // added to every reported iteration count (counts of 65536 and more: narrow integer types on the way to the statistics)
}

impl std::fmt::Display for Scripted {
    fn fmt(&self, f: &mut std::fmt::Formatter<'_>) -> std::fmt::Result {
        write!(f, "scripted")
    }
}

#[derive(Debug)]
struct ScriptedDec {
    counter: Arc<AtomicU64>,
    log: Arc<Mutex<Vec<Vec<f64>>>>,
    log_limit: usize,
    k: usize,
    panics: bool,
    seed: u64,
    seq: bool,
    iter_offset: u64,
    first: bool,
}

impl LdpcDecoder for ScriptedDec {
    fn decode(&mut self, llrs: &[f64], _max: usize) -> Result<DecoderOutput, DecoderOutput> {
        if self.panics {
            panic!("scripted decoder panic");
        }
        let id = self.counter.fetch_add(1, Ordering::SeqCst) + 1;
        // seed u64::MAX - 3 = the decoders work for 60 frames in total, then every further frame panics (ends a run that would never end)
        if self.seed == u64::MAX - 3 && id > 60 {
            panic!("scripted decoder panic after 60 frames");
        }
        {
            let mut l = self.log.lock().unwrap();
            if l.len() < self.log_limit {
                l.push(llrs.to_vec());
            }
        }
        // randomised delay (perturbs the arrival order of worker results)
        let mut r = Rng::new(self.seed, id);
        // seed u64::MAX = no delay at all: the workers then produce results far faster than the collector (which sends a report per frame) consumes them
        // seed u64::MAX - 1 = no delay and EVERY frame has exactly one bit error (each point then stops after exactly `target` frames)
        // seed u64::MAX - 2 = every decoder's FIRST frame takes 6.5 s (no result at all reaches the collector for that long), then no delay;
        // every frame has exactly one bit error
        if self.seed == u64::MAX - 2 && self.first {
            std::thread::sleep(Duration::from_millis(6500));
        }
        self.first = false;
        if self.seed < u64::MAX - 2 {
            std::thread::sleep(Duration::from_micros(r.below(300) as u64));
        }
        let mut cw: Vec<u8> = llrs.iter().map(|&x| (x <= 0.0) as u8).collect();
        let nerr = if self.seed >= u64::MAX - 2 && self.seed != u64::MAX { 1 } else { ((id % 4) as usize).min(self.k) };
        for b in cw.iter_mut().take(nerr) {
            *b ^= 1;
        }
        // sequential mode (one worker, one point, frames consumed in id order): small iteration counts, every fifth frame "converges" at
        // iteration 0 -- also with wrong bits (a zero-iteration false decode)
        let out = DecoderOutput { codeword: cw, iterations: if self.seq { if id % 5 == 0 { 0 } else { (id % 7) as usize } } else { (id + self.iter_offset) as usize } };
        if id % 3 != 0 { Ok(out) } else { Err(out) }
    }
}

impl DecoderFactory for Scripted {
    fn build_decoder(&self, h: SparseMatrix) -> Box<dyn LdpcDecoder> {
        let idx = self.built.fetch_add(1, Ordering::SeqCst) + 1;
        Box::new(ScriptedDec {
            counter: self.counter.clone(),
            log: self.log.clone(),
            log_limit: self.log_limit,
            k: h.num_cols() - h.num_rows(),
            panics: self.panic_every != 0 && idx % self.panic_every == 0,
            seed: self.seed,
            seq: self.seq,
            iter_offset: self.iter_offset,
            first: true,
        })
    }
}

pub fn test_matrix() -> SparseMatrix {
    // 4 x 12, staircase-like tail (columns 8..11)
    let mut h = SparseMatrix::new(4, 12);
    for (r, cs) in [[0usize, 1, 4, 8], [1, 2, 5, 9], [2, 3, 6, 10], [0, 3, 7, 11]].iter().enumerate() {
        for &c in cs {
            h.insert(r, c);
        }
    }
    h.insert(1, 8);
    h.insert(2, 9);
    h.insert(3, 10);
    h
}

/// restrict the process to `n` CPUs so that `num_cpus::get()` (read in BerTest::new) returns `n`
pub fn set_workers(n: usize) -> usize {
    unsafe {
        let mut set: libc::cpu_set_t = std::mem::zeroed();
        libc::CPU_ZERO(&mut set);
        let total = libc::sysconf(libc::_SC_NPROCESSORS_CONF) as usize;
        for c in 0..n.min(total) {
            libc::CPU_SET(c, &mut set);
        }
        libc::sched_setaffinity(0, std::mem::size_of::<libc::cpu_set_t>(), &set);
        n.min(total)
    }
}

fn stat_token(tag: &str, point: usize, s: &Statistics) -> String {
    let (bbe, bfe, bci) = match &s.bch {
        Some(b) => (b.bit_errors.to_string(), b.frame_errors.to_string(), b.correct_iterations.to_string()),
        None => ("-".into(), "-".into(), "-".into()),
    };
    format!(
        "{}:{}:{}:{}:{}:{}:{}:{}:{}:{}:{}:{}:{}:{}:{}",
        tag, point, s.num_frames, s.false_decodes, s.total_iterations, s.ldpc.bit_errors, s.ldpc.frame_errors, s.ldpc.correct_iterations,
        bbe, bfe, bci, hx(s.ldpc.ber), hx(s.ldpc.fer), hx(s.average_iterations), hx(s.ldpc.average_iterations_correct)
    )
}

/// run with a watchdog; returns Ok(output) | "hang"
fn with_watchdog<F: FnOnce() -> String + Send + 'static>(f: F, secs: u64) -> String {
    let (tx, rx) = mpsc::channel();
    std::thread::spawn(move || {
        let r = std::panic::catch_unwind(std::panic::AssertUnwindSafe(f)).unwrap_or_else(|_| "panic".to_string());
        let _ = tx.send(r);
    });
    rx.recv_timeout(Duration::from_secs(secs)).unwrap_or_else(|_| "hang".to_string())
}

pub fn run(ctx: &mut Ctx, _replay: Option<&[String]>) {
    let mut rng = Rng::new(ctx.seed, 13);
    let h8 = test_matrix();
    // a second code with k = 7 (not a power of two: k * num_frames is then not an exact scaling of num_frames)
    let h7 = { let mut r = Rng::new(ctx.seed, 1313); crate::c12::staircase_h(&mut r, 5, 12) };
    let h = h8.clone();
    let k = 8usize;
    let workers_list: Vec<usize> = if ctx.thorough { (1..=16).collect() } else { vec![1, 2, 16] };
    let ebn0s: [f32; 2] = [60.0, 61.0];
    for &w in &workers_list {
        let nw = set_workers(w);
        // target 0: the required number of frame errors is collected before any frame -- every point reports the empty set of frames
        for &target in &[1u64, 3, 20, 0] {
            for &bch in &[0u64, 1, 2] {
                for rep in 0..ctx.scale(3, 40) {
                    let modulation = if rng.chance(1, 2) { Modulation::Bpsk } else { Modulation::Psk8 };
                    let punct: Option<Vec<bool>> = if rng.chance(1, 2) { Some(vec![true, true, true, false]) } else { None };
                    // frame length 9 with the pattern, 12 without: column counts that divide the transmitted frame but not the other length too
                    let inter: Option<isize> = if punct.is_some() { *rng.pick(&[None, Some(3), Some(-3), Some(9), Some(-9)]) }
                        else { *rng.pick(&[None, Some(3), Some(-3), Some(4), Some(-4), Some(12)]) };
                    let offset: u64 = if rep % 3 == 2 { 70_000 } else { 0 };
                    let fac = Scripted {
                        counter: Arc::new(AtomicU64::new(0)), log: Arc::new(Mutex::new(Vec::new())), log_limit: 0,
                        panic_every: 0, built: Arc::new(AtomicU64::new(0)),
                        seed: if rep % 2 == 1 { u64::MAX } else { ctx.seed * 1000 + rep as u64 }, seq: false, iter_offset: offset,
                    };
                    let (tx, rx) = mpsc::channel();
                    let (h2, k) = if rep % 2 == 0 { (h8.clone(), 8usize) } else { (h7.clone(), 7usize) };
                    let built = fac.built.clone();
                    let out = with_watchdog(move || {
                        let t = BerTestBuilder {
                            h: h2, decoder_implementation: fac, modulation, puncturing_pattern: punct.as_deref(),
                            interleaving_columns: inter, max_frame_errors: target, max_iterations: 9, ebn0s_db: &ebn0s,
                            reporter: Some(Reporter { tx, interval: Duration::ZERO }), bch_max_errors: bch,
                        }.build().unwrap();
                        match t.run() {
                            Ok(stats) => {
                                let mut toks = Vec::new();
                                let mut point = 0usize;
                                let mut last_ebn0: Option<f32> = None;
                                for r in rx.try_iter() {
                                    match r {
                                        Report::Finished => toks.push("FIN".to_string()),
                                        Report::Statistics(s) => {
                                            if let Some(e) = last_ebn0 { if e != s.ebn0_db { point += 1; } }
                                            last_ebn0 = Some(s.ebn0_db);
                                            toks.push(stat_token("R", point, &s));
                                        }
                                    }
                                }
                                toks.push("|".to_string());
                                for (i, s) in stats.iter().enumerate() {
                                    toks.push(stat_token("S", i, s));
                                }
                                toks.join(" ")
                            }
                            Err(_) => "err".to_string(),
                        }
                    }, 60);
                    // how many decoders (= worker threads) were built: must be workers x Eb/N0 points
                    let out = format!("B:{} {}", built.load(Ordering::SeqCst), out);
                    let tagw = format!("workers-{}", nw);
                    ctx.emit(&format!("c13 run {} {} {} {} {}", k, target, bch, nw, offset), &out, target >= 3,
                        &[tagw.as_str(), if bch > 0 { "with-outer-code-threshold" } else { "no-outer-code" }]);
                }
            }
        }
    }
    // reporter with a LONG interval (no periodic report ever fires) on runs of three points in which every frame is a frame error, so that
    // every point stops after exactly `target` frames: the reporter must receive exactly one Statistics per point -- the returned one --
    // and then Finished
    for &w in &[1usize, 4] {
        let nw = set_workers(w);
        for &target in &[1u64, 2, 5] {
            let fac = Scripted {
                counter: Arc::new(AtomicU64::new(0)), log: Arc::new(Mutex::new(Vec::new())), log_limit: 0,
                panic_every: 0, built: Arc::new(AtomicU64::new(0)), seed: u64::MAX - 1, seq: false, iter_offset: 0,
            };
            let (tx, rx) = mpsc::channel();
            let h2 = h.clone();
            let out = with_watchdog(move || {
                let t = BerTestBuilder {
                    h: h2, decoder_implementation: fac, modulation: Modulation::Bpsk, puncturing_pattern: None,
                    interleaving_columns: None, max_frame_errors: target, max_iterations: 9, ebn0s_db: &[60.0, 61.0, 62.0],
                    reporter: Some(Reporter { tx, interval: Duration::from_secs(3600) }), bch_max_errors: 0,
                }.build().unwrap();
                match t.run() {
                    Ok(stats) => {
                        let mut toks = Vec::new();
                        for r in rx.try_iter() {
                            match r {
                                Report::Finished => toks.push("FIN".to_string()),
                                Report::Statistics(s) => toks.push(format!("{}@{}", stat_token("R", 0, &s), hx(s.ebn0_db as f64))),
                            }
                        }
                        toks.push("|".to_string());
                        for s in stats.iter() { toks.push(format!("{}@{}", stat_token("R", 0, s), hx(s.ebn0_db as f64))); }
                        toks.join(" ")
                    }
                    Err(_) => "err".to_string(),
                }
            }, 60);
            ctx.emit(&format!("c13 sparse {} {} 3 {}", k, target, nw), &out, true, &["long-interval-reporter-three-points-all-frames-in-error"]);
        }
    }
    // a decoder whose first frame takes 6.5 s: for that long no result reaches the collecting thread; the point must still collect exactly
    // `target` frame errors (every frame is one) -- the collector waits for results, it does not give up
    {
        let nw = set_workers(2);
        let fac = Scripted {
            counter: Arc::new(AtomicU64::new(0)), log: Arc::new(Mutex::new(Vec::new())), log_limit: 0,
            panic_every: 0, built: Arc::new(AtomicU64::new(0)), seed: u64::MAX - 2, seq: false, iter_offset: 0,
        };
        let (tx, rx) = mpsc::channel();
        let h2 = h.clone();
        let out = with_watchdog(move || {
            let t = BerTestBuilder {
                h: h2, decoder_implementation: fac, modulation: Modulation::Bpsk, puncturing_pattern: None,
                interleaving_columns: None, max_frame_errors: 2, max_iterations: 9, ebn0s_db: &[60.0],
                reporter: Some(Reporter { tx, interval: Duration::from_secs(3600) }), bch_max_errors: 0,
            }.build().unwrap();
            match t.run() {
                Ok(stats) => {
                    let mut toks = Vec::new();
                    for r in rx.try_iter() {
                        match r {
                            Report::Finished => toks.push("FIN".to_string()),
                            Report::Statistics(s) => toks.push(format!("{}@{}", stat_token("R", 0, &s), hx(s.ebn0_db as f64))),
                        }
                    }
                    toks.push("|".to_string());
                    for s in stats.iter() { toks.push(format!("{}@{}", stat_token("R", 0, s), hx(s.ebn0_db as f64))); }
                    toks.join(" ")
                }
                Err(_) => "err".to_string(),
            }
        }, 60);
        ctx.emit(&format!("c13 sparse {} 2 1 {}", k, nw), &out, true, &["decoder-whose-first-frame-takes-6.5-seconds"]);
    }
    // sequential runs: ONE worker and ONE Eb/N0 point, so the frames are consumed in id order 1, 2, 3, ... and the model can replay them
    // without identifying them by their iteration count -- which frees the iteration count to be small and 0
    set_workers(1);
    for &target in &[1u64, 3, 20, 50] {
        for &bch in &[0u64, 1, 2] {
            let fac = Scripted {
                counter: Arc::new(AtomicU64::new(0)), log: Arc::new(Mutex::new(Vec::new())), log_limit: 0,
                panic_every: 0, built: Arc::new(AtomicU64::new(0)), seed: ctx.seed, seq: true, iter_offset: 0,
            };
            let (tx, rx) = mpsc::channel();
            let h2 = h.clone();
            let out = with_watchdog(move || {
                let t = BerTestBuilder {
                    h: h2, decoder_implementation: fac, modulation: Modulation::Bpsk, puncturing_pattern: None,
                    interleaving_columns: None, max_frame_errors: target, max_iterations: 9, ebn0s_db: &[60.0],
                    reporter: Some(Reporter { tx, interval: Duration::ZERO }), bch_max_errors: bch,
                }.build().unwrap();
                match t.run() {
                    Ok(stats) => {
                        let mut toks = Vec::new();
                        for r in rx.try_iter() {
                            match r {
                                Report::Finished => toks.push("FIN".to_string()),
                                Report::Statistics(s) => toks.push(stat_token("R", 0, &s)),
                            }
                        }
                        toks.push("|".to_string());
                        for (i, s) in stats.iter().enumerate() { toks.push(stat_token("S", i, s)); }
                        toks.join(" ")
                    }
                    Err(_) => "err".to_string(),
                }
            }, 60);
            ctx.emit(&format!("c13 seq {} {} {}", k, target, bch), &out, true, &["sequential-single-worker", if bch > 0 { "with-outer-code-threshold" } else { "no-outer-code" }]);
        }
    }
    set_workers(1024);
    // failure injection: run() must return Err, never hang
    let fails: Vec<(&str, Modulation, Option<Vec<bool>>, Option<isize>, u64)> = vec![
        ("puncturer-error-pattern-length-5", Modulation::Bpsk, Some(vec![true, true, false, true, true]), None, 0),
        ("interleaver-panic-columns-5", Modulation::Bpsk, None, Some(5), 0),
        ("modulator-panic-8psk-n-8", Modulation::Psk8, Some(vec![true, true, false]), None, 0),
        ("decoder-panic-in-every-worker", Modulation::Bpsk, None, None, 1),
        ("decoder-panic-in-every-second-worker", Modulation::Bpsk, None, None, 2),
        ("decoder-panic-in-every-third-worker", Modulation::Psk8, None, None, 3),
    ];
    for &w in &[1usize, 4, 16] {
        set_workers(w);
        for (name, modulation, punct, inter, panic_every) in fails.clone() {
            let fac = Scripted {
                counter: Arc::new(AtomicU64::new(0)), log: Arc::new(Mutex::new(Vec::new())), log_limit: 0,
                panic_every, built: Arc::new(AtomicU64::new(0)), seed: ctx.seed, seq: false, iter_offset: 0,
            };
            let h2 = h.clone();
            // half of the failing runs have a reporter attached: the final `Finished` report must arrive also when the run fails
            let with_reporter = (w + name.len()) % 2 == 0;
            let out = with_watchdog(move || {
                let (tx, rx) = mpsc::channel();
                let r = guarded(move || {
                    BerTestBuilder {
                        h: h2, decoder_implementation: fac, modulation, puncturing_pattern: punct.as_deref(),
                        interleaving_columns: inter, max_frame_errors: 5, max_iterations: 9, ebn0s_db: &[60.0],
                        reporter: if with_reporter { Some(Reporter { tx, interval: Duration::ZERO }) } else { None }, bch_max_errors: 0,
                    }.build().map(|t| t.run().map(|_| ()).map_err(|_| ())).map_err(|_| ())
                });
                let reports: Vec<Report> = rx.try_iter().collect();
                let fin = if !with_reporter { "" } else if matches!(reports.last(), Some(Report::Finished))
                    && reports.iter().filter(|r| matches!(r, Report::Finished)).count() == 1 { "" } else { "-without-final-finished-report" };
                match r {
                    Ok(Ok(Ok(()))) => format!("ok{}", fin),
                    Ok(Ok(Err(()))) => format!("err{}", fin),
                    Ok(Err(())) => "err-at-build".to_string(),
                    Err(_) => "panic".to_string(),
                }
            }, 20);
            // with panic_every = 2 and a single worker nothing panics: the run legitimately succeeds
            let expect_ok = panic_every >= 2 && (w as u64) < panic_every;
            let o = if expect_ok && out == "ok" { "err".to_string() } else { out };
            ctx.emit(&format!("c13 fail {}@{}", name, w), &o, true, &["failure-injection"]);
        }
    }
    // a frame-error target of 2^63 and more ("run until interrupted"): the point must keep collecting -- here until the decoders die after 60
    // frames, which makes the run fail; a run that ends without an error, or before a single frame was collected, stopped short of its target
    for (i, target) in [u64::MAX, 1u64 << 63, (1u64 << 63) + 7, (1u64 << 32) + 1].into_iter().enumerate() {
        set_workers([1usize, 4, 16, 2][i]);
        let fac = Scripted {
            counter: Arc::new(AtomicU64::new(0)), log: Arc::new(Mutex::new(Vec::new())), log_limit: 0,
            panic_every: 0, built: Arc::new(AtomicU64::new(0)), seed: u64::MAX - 3, seq: false, iter_offset: 0,
        };
        let h2 = h.clone();
        let out = with_watchdog(move || {
            let (tx, rx) = mpsc::channel();
            let r = guarded(move || {
                BerTestBuilder {
                    h: h2, decoder_implementation: fac, modulation: Modulation::Bpsk, puncturing_pattern: None,
                    interleaving_columns: None, max_frame_errors: target, max_iterations: 9, ebn0s_db: &[60.0, 61.0],
                    reporter: Some(Reporter { tx, interval: Duration::ZERO }), bch_max_errors: 0,
                }.build().map(|t| t.run().map(|_| ()).map_err(|_| ())).map_err(|_| ())
            });
            let frames = rx.try_iter().filter_map(|r| match r { Report::Statistics(s) => Some(s.num_frames), _ => None }).max().unwrap_or(0);
            match r {
                Ok(Ok(Ok(()))) => format!("ok-after-{}-frames-with-a-target-of-{}-frame-errors", frames, target),
                Ok(Ok(Err(()))) => if frames >= 1 { "err".to_string() } else { format!("err-but-no-frame-was-collected-with-a-target-of-{}-frame-errors", target) },
                Ok(Err(())) => "err-at-build".to_string(),
                Err(_) => "panic".to_string(),
            }
        }, 30);
        ctx.emit(&format!("c13 fail frame-error-target-{}-never-reached@{}", target, [1usize, 4, 16, 2][i]), &out, true, &["failure-injection", "frame-error-target-2^32-and-more"]);
    }
    set_workers(1024);
}
