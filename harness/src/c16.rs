//! C16: MacKay-Neal and PEG constructions, seed search.
use crate::fmt::*;
use crate::rng::Rng;
use crate::{Ctx, guarded};
use ldpc_toolbox::mackay_neal::{self, FillPolicy};
use ldpc_toolbox::peg;
use ldpc_toolbox::sparse::SparseMatrix;

fn mn_cfg_str(c: &mackay_neal::Config) -> String {
    format!("{} {} {} {} {} {} {} {} {}", c.nrows, c.ncols, c.wr, c.wc, c.backtrack_cols, c.backtrack_trials,
        c.min_girth.map(|g| g.to_string()).unwrap_or("-".into()), c.girth_trials,
        if c.fill_policy == FillPolicy::Uniform { "U" } else { "R" })
}

fn gen_mn(rng: &mut Rng, big: bool) -> mackay_neal::Config {
    let nrows = rng.range(2, if big { 30 } else { 12 });
    let wc = rng.range(1, 4.min(nrows));
    let ncols = rng.range(2, if big { 60 } else { 24 });
    // wr around the value that makes the construction feasible, sometimes tight, sometimes roomy
    let need = (ncols * wc).div_ceil(nrows);
    // ... and sometimes infeasible (wr * nrows < wc * ncols): no run can succeed, whatever the policy
    let wr = match rng.below(5) { 0 => need, 1 => need + 1, 2 => need + 3, 3 => need.saturating_sub(1).max(1), _ => need.max(1) + rng.below(3) };
    // odd requests too: "girth at least 5" means no 4-cycle, "at least 7" no 6-cycle (the search bound is min_girth - 1)
    let min_girth = match rng.below(7) { 0 => None, 1 => Some(4), 2 => Some(6), 3 => Some(5), 4 => Some(7), 5 => Some(3), _ => Some(8) };
    mackay_neal::Config {
        nrows, ncols, wr: wr.max(1), wc,
        backtrack_cols: rng.below(4), backtrack_trials: rng.below(20),
        min_girth, girth_trials: if min_girth.is_some() { rng.below(200) } else { 0 },
        fill_policy: if rng.chance(1, 2) { FillPolicy::Uniform } else { FillPolicy::Random },
    }
}

pub fn run(ctx: &mut Ctx, _replay: Option<&[String]>) {
    let mut rng = Rng::new(ctx.seed, 16);
    let n = ctx.scale(400, 40000);
    for k in 0..n {
        let cfg = gen_mn(&mut rng, k % 6 == 0);
        let seed = rng.next() % 100_000;
        let c2 = cfg.clone();
        let out = match guarded(move || c2.run(seed)) {
            Ok(Ok(h)) => {
                // same (config, seed) again, in a fresh thread
                let c3 = cfg.clone();
                let again = std::thread::spawn(move || c3.run(seed)).join().ok().and_then(|r| r.ok());
                format!("ok {} {}", sm(&h), if again.as_ref() == Some(&h) { "same" } else { "DIFF" })
            }
            Ok(Err(_)) => "err".to_string(),
            Err(_) => "panic".to_string(),
        };
        let t1 = if out.starts_with("ok") { "mn-ok" } else { "mn-err" };
        let t2 = if cfg.fill_policy == FillPolicy::Uniform { "policy-uniform" } else { "policy-random" };
        let t3 = match cfg.min_girth { None => "girth-none", Some(4) => "girth-4", Some(6) => "girth-6", Some(8) => "girth-8", _ => "girth-odd-request" };
        let t4 = if cfg.backtrack_cols > 0 && cfg.backtrack_trials > 0 { "backtracking-on" } else { "backtracking-off" };
        ctx.emit(&format!("c16 mn {} {}", mn_cfg_str(&cfg), seed), &out, out.starts_with("ok"), &[t1, t2, t3, t4]);
    }
    // (b) girth requests whose trial budget really runs out while backtracking is allowed, and degenerate shapes (no rows / no columns /
    // column weight 0): the validator and the column-weight / row-weight / girth predicates judge every successful result
    let extra = ctx.scale(2500, 60000);
    for k in 0..extra {
        let cfg = if k % 500 == 7 {
            // few rows, hundreds of columns: row weights pass 255 / 256 while there is room left in wr (a row weight must not be compared in 8 bits)
            let nrows = rng.range(2, 5);
            let ncols = rng.range(520, 700);
            let wc = rng.range(1, 2).min(nrows);
            mackay_neal::Config {
                nrows, ncols, wr: (ncols * wc).div_ceil(nrows) + rng.range(60, 150), wc,
                backtrack_cols: 0, backtrack_trials: 0, min_girth: None, girth_trials: 0,
                fill_policy: if rng.chance(3, 4) { FillPolicy::Uniform } else { FillPolicy::Random },
            }
        } else if k % 5 == 4 {
            mackay_neal::Config {
                nrows: *rng.pick(&[0usize, 0, 1, 1, 2]), ncols: *rng.pick(&[0usize, 1, 2, 3, 5]), wr: rng.range(1, 4), wc: *rng.pick(&[0usize, 1, 1, 2]),
                backtrack_cols: rng.below(3), backtrack_trials: rng.below(4),
                min_girth: if rng.chance(1, 2) { None } else { Some(*rng.pick(&[4usize, 6])) }, girth_trials: rng.below(3),
                fill_policy: if rng.chance(1, 2) { FillPolicy::Uniform } else { FillPolicy::Random },
            }
        } else {
            // tight for the girth request: about as many columns as a graph of that girth can hold, so that the last columns are rejected
            // again and again, the trial budget runs out, columns are undone and re-inserted
            let nrows = rng.range(6, 12);
            let wc = 2;
            let ncols = rng.range(nrows, nrows + 4);
            let need = (ncols * wc).div_ceil(nrows);
            mackay_neal::Config {
                nrows, ncols, wr: need + rng.below(2), wc,
                backtrack_cols: rng.range(1, 4), backtrack_trials: rng.range(10, 40),
                min_girth: Some(*rng.pick(&[6usize, 6, 8, 5, 7])), girth_trials: rng.below(3),
                fill_policy: if rng.chance(1, 2) { FillPolicy::Uniform } else { FillPolicy::Random },
            }
        };
        let seed = rng.next() % 100_000;
        let c2 = cfg.clone();
        let out = match guarded(move || c2.run(seed)) {
            Ok(Ok(h)) => format!("ok {} same", sm(&h)),
            Ok(Err(_)) => "err".to_string(),
            Err(_) => "panic".to_string(),
        };
        let t1 = if out.starts_with("ok") { "mn-ok" } else if out == "err" { "mn-err" } else { "mn-panic" };
        let t2 = if k % 5 == 4 { "degenerate-shape" } else { "girth-trials-0..3-with-backtracking" };
        ctx.emit(&format!("c16 mn {} {}", mn_cfg_str(&cfg), seed), &out, out.starts_with("ok"), &[t1, t2]);
    }
    for k in 0..ctx.scale(300, 30000) {
        let nrows = rng.range(1, if k % 6 == 0 { 30 } else { 10 });
        let ncols = rng.range(1, if k % 6 == 0 { 60 } else { 20 });
        let wc = rng.range(1, 5);
        let seed = rng.next() % 100_000;
        let cfg = peg::Config { nrows, ncols, wc };
        let c2 = cfg.clone();
        let out = match guarded(move || c2.run(seed)) {
            Ok(Ok(h)) => {
                let c3 = cfg.clone();
                let again = std::thread::spawn(move || c3.run(seed)).join().ok().and_then(|r| r.ok());
                format!("ok {} {}", sm(&h), if again.as_ref() == Some(&h) { "same" } else { "DIFF" })
            }
            Ok(Err(_)) => "err".to_string(),
            Err(_) => "panic".to_string(),
        };
        ctx.emit(&format!("c16 peg {} {} {} {}", nrows, ncols, wc, seed), &out, out.starts_with("ok"),
            &[if out.starts_with("ok") { "peg-ok" } else { "peg-err" }, if wc > nrows { "peg-wc-exceeds-rows" } else { "peg-wc-fits" }]);
    }
    // PEG on more than 2^16 check nodes (69632 rows, a few thousand edges): row indices must not pass through a 16-bit type.  The matrix is far
    // beyond the list-based validator of the model, so the PEG rule of the property statement is replayed here, edge by edge: every
    // column has min(wc, rows) entries, and each entry, in insertion order, was placed on a check not yet adjacent to the column that was
    // unreachable from it (or, if all were reachable, at maximal distance) and of least degree among those.
    for k in 0..ctx.scale(1, 6) {
        let nrows = 65536 + 4096 + rng.below(2000);
        let (ncols, wc) = if k % 2 == 0 { (100, 30) } else { (1200, 3) };
        let seed = rng.next() % 100_000;
        let cfg = peg::Config { nrows, ncols, wc };
        let c2 = cfg.clone();
        let out = match guarded(move || c2.run(seed)) {
            Ok(Ok(h)) => peg_replay(&h, nrows, ncols, wc).err().unwrap_or_else(|| "rule-ok".to_string()),
            Ok(Err(_)) => "err".to_string(),
            Err(_) => "panic".to_string(),
        };
        ctx.emit(&format!("c16 pegbig {} {} {} {}", nrows, ncols, wc, seed), &out, true, &["peg-more-than-65536-rows"]);
    }
    // different seeds explore different choices: 16 seeds on roomy configurations
    let roomy = mackay_neal::Config { nrows: 10, ncols: 20, wr: 8, wc: 3, backtrack_cols: 0, backtrack_trials: 0, min_girth: None, girth_trials: 0, fill_policy: FillPolicy::Random };
    let distinct = (0..16u64).filter_map(|s| roomy.run(s).ok()).map(|h| h.alist()).collect::<std::collections::HashSet<_>>().len();
    ctx.emit("c16 seeds mn-roomy", &distinct.to_string(), true, &["seed-diversity"]);
    let pcfg = peg::Config { nrows: 10, ncols: 20, wc: 3 };
    let distinct = (0..16u64).filter_map(|s| pcfg.run(s).ok()).map(|h| h.alist()).collect::<std::collections::HashSet<_>>().len();
    ctx.emit("c16 seeds peg", &distinct.to_string(), true, &["seed-diversity"]);
    // boundary of the seed range: ranges whose seeds ALL fail but whose first seed beyond the range succeeds (search must return
    // nothing), and empty ranges
    let mut boundary = 0;
    for _ in 0..ctx.scale(400, 20000) {
        if boundary >= ctx.scale(40, 2000) { break; }
        let cfg = gen_mn(&mut rng, false);
        // scan 40 consecutive seeds; look for a run of failures followed by a success
        let start0 = rng.next() % 10_000;
        let outcomes: Vec<bool> = (0..40u64).map(|i| cfg.run(start0 + i).is_ok()).collect();
        // prefer a success preceded by at least one failure; every fifth case takes an empty range instead
        let want_empty = boundary % 5 == 4;
        for i in 0..outcomes.len() {
            if outcomes[i] && (want_empty || (i > 0 && !outcomes[i - 1])) {
                // longest failing stretch right before seed start0 + i
                let mut j = i;
                while !want_empty && j > 0 && !outcomes[j - 1] { j -= 1; }
                let (start, tries) = (start0 + j as u64, (i - j) as u64);
                let out = match cfg.search(start, tries) {
                    None => "none yes".to_string(),
                    Some((s, h)) => format!("some {} {} {}", s, if s >= start && s < start + tries { "yes" } else { "NO" },
                        if cfg.run(s).ok().as_ref() == Some(&h) { "yes" } else { "NO" }),
                };
                ctx.emit(&format!("c16 search {} {} {}", mn_cfg_str(&cfg), start, tries), &out, true,
                    &[if tries == 0 { "search-empty-range" } else { "search-all-fail-next-succeeds" }]);
                boundary += 1;
                break;
            }
        }
    }
    // seed search inside a ONE-thread rayon pool (all seeds of the range then run one after the other in the same job) on configurations
    // with finite girth-trial / backtrack budgets: state left behind by a seed that exhausted its budget must not reach the next seed
    {
        let pool1 = rayon::ThreadPoolBuilder::new().num_threads(1).build().unwrap();
        let fixed = mackay_neal::Config { nrows: 30, ncols: 40, wr: 4, wc: 3, backtrack_cols: 0, backtrack_trials: 0, min_girth: Some(6), girth_trials: 20, fill_policy: FillPolicy::Uniform };
        for k in 0..ctx.scale(40, 1500) {
            let cfg = if k < 6 { fixed.clone() } else {
                let nrows = rng.range(8, 30);
                let wc = rng.range(2, 3);
                let ncols = rng.range(nrows, nrows + 12);
                let need = (ncols * wc).div_ceil(nrows);
                mackay_neal::Config { nrows, ncols, wr: need + rng.below(2), wc, backtrack_cols: rng.below(3), backtrack_trials: rng.range(0, 12),
                    min_girth: Some(*rng.pick(&[6usize, 6, 8])), girth_trials: rng.range(3, 30),
                    fill_policy: if rng.chance(1, 2) { FillPolicy::Uniform } else { FillPolicy::Random } }
            };
            let start = if k < 6 { [22u64, 24, 20, 16, 23, 18][k] } else { rng.next() % 10_000 };
            let tries = if k < 6 { [8u64, 16, 10, 12, 4, 9][k] } else { rng.range(4, 24) as u64 };
            let res = pool1.install(|| cfg.search(start, tries));
            let out = match res {
                None => {
                    let all_fail = (start..start + tries).all(|s| cfg.run(s).is_err());
                    format!("none {}", if all_fail { "yes" } else { "NO" })
                }
                Some((s, h)) => format!("some {} {} {}", s, if s >= start && s < start + tries { "yes" } else { "NO" },
                    if cfg.run(s).ok().as_ref() == Some(&h) { "yes" } else { "NO" }),
            };
            ctx.emit(&format!("c16 search {} {} {}", mn_cfg_str(&cfg), start, tries), &out, true,
                &[if out.starts_with("some") { "search-one-thread-found" } else { "search-one-thread-none" }]);
        }
    }
    // parallel seed search (global rayon pool; the pool size is whatever the environment gives)
    for k in 0..ctx.scale(60, 3000) {
        let cfg = gen_mn(&mut rng, false);
        let start = rng.next() % 10_000;
        let tries = rng.range(1, 64) as u64;
        let res = cfg.search(start, tries);
        let out = match res {
            None => {
                let all_fail = (start..start + tries).all(|s| cfg.run(s).is_err());
                format!("none {}", if all_fail { "yes" } else { "NO" })
            }
            Some((s, h)) => format!("some {} {} {}", s, if s >= start && s < start + tries { "yes" } else { "NO" },
                if cfg.run(s).ok().as_ref() == Some(&h) { "yes" } else { "NO" }),
        };
        let _ = k;
        ctx.emit(&format!("c16 search {} {} {}", mn_cfg_str(&cfg), start, tries), &out, true,
            &[if out.starts_with("some") { "search-found" } else { "search-none" }]);
    }
}

/// Replay of a finished PEG matrix against the selection rule (the Rust twin of `Constr.pegAccepts`, incremental so that it is linear
/// in rows x edges): columns in order, the entries of a column in the order of its list.
fn peg_replay(h: &SparseMatrix, nrows: usize, ncols: usize, wc: usize) -> Result<(), String> {
    if h.num_rows() != nrows || h.num_cols() != ncols { return Err("wrong-size".into()); }
    let mut rows: Vec<Vec<usize>> = vec![Vec::new(); nrows];
    let mut cols: Vec<Vec<usize>> = vec![Vec::new(); ncols];
    let mut dist: Vec<usize> = vec![usize::MAX; nrows];     // distance of each row from the current column (MAX = unreachable)
    let mut cdist: Vec<usize> = vec![usize::MAX; ncols];
    for c in 0..ncols {
        let list: Vec<usize> = h.iter_col(c).copied().collect();
        if list.len() != wc.min(nrows) { return Err(format!("column-{}-weight-{}-is-not-min(wc,rows)", c, list.len())); }
        for (k, &r) in list.iter().enumerate() {
            if r >= nrows { return Err("row-index-out-of-range".into()); }
            // BFS from column c in the graph built so far
            let mut touched_r: Vec<usize> = Vec::new();
            let mut touched_c: Vec<usize> = vec![c];
            cdist[c] = 0;
            let mut frontier_c = vec![c];
            let mut d = 0usize;
            while !frontier_c.is_empty() {
                let mut frontier_r = Vec::new();
                for &cc in &frontier_c { for &rr in &cols[cc] { if dist[rr] == usize::MAX { dist[rr] = d + 1; touched_r.push(rr); frontier_r.push(rr); } } }
                frontier_c = Vec::new();
                for &rr in &frontier_r { for &cc in &rows[rr] { if cdist[cc] == usize::MAX { cdist[cc] = d + 2; touched_c.push(cc); frontier_c.push(cc); } } }
                d += 2;
            }
            // key: unreachable first, then larger distance, then smaller degree — smaller tuple is better
            let key = |x: usize| -> (u8, usize, usize) { if dist[x] == usize::MAX { (0, 0, rows[x].len()) } else { (1, usize::MAX - dist[x], rows[x].len()) } };
            let best = (0..nrows).map(key).min().unwrap();
            let verdict = if cols[c].contains(&r) { Some("already-adjacent") } else if key(r) != best { Some("not-on-a-best-check") } else { None };
            for &rr in &touched_r { dist[rr] = usize::MAX; }
            for &cc in &touched_c { cdist[cc] = usize::MAX; }
            if let Some(v) = verdict {
                return Err(format!("edge-{}-of-column-{}-on-row-{}-{}(unreachable-first,-then-farthest,-then-least-degree)", k, c, r, v));
            }
            rows[r].push(c);
            cols[c].push(r);
        }
    }
    Ok(())
}
