//! C14: modulators and demodulators (BPSK, 8PSK).
use crate::fmt::*;
use crate::rng::Rng;
use crate::{Ctx, guarded};
use ldpc_toolbox::gf2::GF2;
use ldpc_toolbox::simulation::modulation::{BpskDemodulator, BpskModulator, Demodulator, Modulator, Psk8Demodulator, Psk8Modulator};
use ndarray::Array1;
use num_complex::Complex;
use num_traits::{One, Zero};

fn hx(x: f64) -> String {
    format!("{:016x}", x.to_bits())
}

fn gf2(bits: &[bool]) -> Array1<GF2> {
    Array1::from_iter(bits.iter().map(|&b| if b { GF2::one() } else { GF2::zero() }))
}

pub fn run(ctx: &mut Ctx, _replay: Option<&[String]>) {
    let mut rng = Rng::new(ctx.seed, 14);
    // modulators: all 8 triples, all single bits, random bit strings, indivisible lengths
    let mut bitstrings: Vec<Vec<bool>> = vec![vec![]];
    for t in 0..8u32 {
        bitstrings.push((0..3).map(|i| t >> (2 - i) & 1 == 1).collect());
    }
    for _ in 0..ctx.scale(200, 20000) {
        let len = rng.range(1, 40);
        bitstrings.push((0..len).map(|_| rng.chance(1, 2)).collect());
    }
    for bs in &bitstrings {
        let b2 = bs.clone();
        let m = if rng.chance(1, 2) { BpskModulator::new().modulate(&gf2(&b2)) } else {
            let rev: Vec<bool> = b2.iter().rev().copied().collect();
            let a = gf2(&rev);
            BpskModulator::new().modulate(&a.slice(ndarray::s![..;-1]))
        };
        let s = if m.is_empty() { "-".to_string() } else { m.iter().map(|&x| hx(x)).collect::<Vec<_>>().join(",") };
        ctx.emit(&format!("c14 modb {}", bools(bs.iter().copied())), &s, !bs.is_empty(), &["bpsk-modulate"]);
        let b3 = bs.clone();
        // the bits arrive as an owned array, as a reversed view of the reversed array (stride -1) or as every second element of a
        // padded array (stride 2): `modulate` takes any 1-D array view and must read it in LOGICAL order
        let layout = rng.below(3);
        let o = match guarded(move || {
            use ndarray::s;
            match layout {
                0 => Psk8Modulator::new().modulate(&gf2(&b3)),
                1 => { let rev: Vec<bool> = b3.iter().rev().copied().collect(); let a = gf2(&rev); Psk8Modulator::new().modulate(&a.slice(s![..;-1])) }
                _ => { let pad: Vec<bool> = b3.iter().flat_map(|&b| [b, !b]).collect(); let a = gf2(&pad); Psk8Modulator::new().modulate(&a.slice(s![..;2])) }
            }
        }) {
            Ok(v) => if v.is_empty() { "-".to_string() } else { v.iter().map(|c| format!("{}.{}", hx(c.re), hx(c.im))).collect::<Vec<_>>().join(",") },
            Err(_) => "panic".to_string(),
        };
        ctx.emit(&format!("c14 mod8 {}", bools(bs.iter().copied())), &o, bs.len() >= 3, &[if bs.len() % 3 == 0 { "8psk-modulate" } else { "8psk-modulate-indivisible-length" }]);
        // noiseless hard decisions
        if bs.len() % 3 == 0 && !bs.is_empty() {
            let sigma = 0.05 + 9.95 * rng.f64_unit();
            let syms = Psk8Modulator::new().modulate(&gf2(bs));
            let llrs = Psk8Demodulator::from_noise_sigma(sigma).demodulate(&syms);
            ctx.emit(&format!("c14 hard8 {} {}", bools(bs.iter().copied()), hx(sigma)), &bools(llrs.iter().map(|&l| l <= 0.0)), true, &["8psk-noiseless-hard-decision"]);
        }
    }
    // demodulators: grid + random points, sigma in [0.05, 10]
    let sigmas = [0.05, 0.1, 0.3, 0.5, 0.7071067811865476, 1.0, 2.0, 5.0, 10.0];
    let grid: Vec<f64> = (-12..=12).map(|i| i as f64 * 0.5).collect();
    for &s in &sigmas {
        for &re in &grid {
            let l = BpskDemodulator::from_noise_sigma(s).demodulate(&[re]);
            ctx.emit(&format!("c14 demb {} {}", hx(s), hx(re)), &hx(l[0]), true, &["bpsk-demodulate-grid"]);
            for &im in &grid {
                if !ctx.thorough && ((re * 2.0) as i64 + (im * 2.0) as i64) % 3 != 0 {
                    continue;
                }
                let l = Psk8Demodulator::from_noise_sigma(s).demodulate(&[Complex::new(re, im)]);
                ctx.emit(&format!("c14 dem8 {} {} {}", hx(s), hx(re), hx(im)), &format!("{} {} {}", hx(l[0]), hx(l[1]), hx(l[2])), true, &["8psk-demodulate-grid"]);
            }
        }
    }
    // BPSK far outside the usual operating range: the exact LLR -2r/sigma^2 is unbounded ("every received sample and every positive noise level")
    for _ in 0..ctx.scale(2000, 100_000) {
        let s = 10f64.powf(8.0 * rng.f64_unit() - 4.0);
        let mag = 10f64.powf(12.0 * rng.f64_unit() - 6.0);
        let re = if rng.chance(1, 2) { -mag } else { mag };
        let l = BpskDemodulator::from_noise_sigma(s).demodulate(&[re]);
        ctx.emit(&format!("c14 demb {} {}", hx(s), hx(re)), &hx(l[0]), true, &["bpsk-demodulate-extreme-range"]);
    }
    // 8PSK: samples very close to the origin and very far from the constellation, at small and large noise ("every received sample")
    for _ in 0..ctx.scale(1500, 60_000) {
        // noise levels down to 1e-10 (1/sigma^2 up to 1e20)
        let s = 10f64.powf(11.0 * rng.f64_unit() - 10.0);
        let mag = if rng.chance(1, 2) { 10f64.powf(-10.0 + 9.0 * rng.f64_unit()) } else { 10f64.powf(3.0 * rng.f64_unit()) };
        let ang = 6.283185307179586 * rng.f64_unit();
        let (re, im) = (mag * ang.cos(), mag * ang.sin());
        let l = Psk8Demodulator::from_noise_sigma(s).demodulate(&[Complex::new(re, im)]);
        ctx.emit(&format!("c14 dem8 {} {} {}", hx(s), hx(re), hx(im)), &format!("{} {} {}", hx(l[0]), hx(l[1]), hx(l[2])), true, &["8psk-demodulate-extreme-range"]);
    }
    // ONE call of the batch `demodulate` on tens of thousands of symbols (longer than any DVB-S2 frame): sampled positions of the result,
    // including the first, the last and the neighbourhoods of multiples of 1024 / 1365 / 4096
    {
        let nsym = 40_000 + rng.below(5000);
        let s = 0.4 + rng.f64_unit();
        let syms: Vec<Complex<f64>> = (0..nsym).map(|_| Complex::new(4.0 * rng.f64_unit() - 2.0, 4.0 * rng.f64_unit() - 2.0)).collect();
        let l8 = Psk8Demodulator::from_noise_sigma(s).demodulate(&syms);
        let reals: Vec<f64> = syms.iter().map(|c| c.re).collect();
        let lb = BpskDemodulator::from_noise_sigma(s).demodulate(&reals);
        let mut idx: Vec<usize> = vec![0, 1, nsym - 1, nsym - 2, nsym / 2];
        for base in [1024usize, 1365, 1366, 2048, 4096, 8192, 16384, 32768, 32767] { for d in [0usize, 1] { if base + d < nsym { idx.push(base + d); } if base >= d + 1 { idx.push(base - d - 1); } } }
        for _ in 0..60 { idx.push(rng.below(nsym)); }
        let long_ok = l8.len() == 3 * nsym && lb.len() == nsym;
        for &i in &idx {
            if !long_ok { break; }
            ctx.emit(&format!("c14 dem8 {} {} {}", hx(s), hx(syms[i].re), hx(syms[i].im)), &format!("{} {} {}", hx(l8[3 * i]), hx(l8[3 * i + 1]), hx(l8[3 * i + 2])), true, &["8psk-demodulate-one-long-batch"]);
            ctx.emit(&format!("c14 demb {} {}", hx(s), hx(reals[i])), &hx(lb[i]), true, &["bpsk-demodulate-one-long-batch"]);
        }
        if !long_ok { ctx.emit(&format!("c14 hard8 - {}", hx(s)), "long-batch-has-the-wrong-number-of-llrs", true, &["8psk-demodulate-one-long-batch"]); }
    }
    // ONE call of each `modulate` on more than 200 000 bits (bit positions beyond 2^16 and 3 * 2^16): sampled symbols of the result, each
    // judged as the symbol of ITS OWN three (one) bits
    {
        let nsym = 70_000 + rng.below(3000);
        let bits: Vec<bool> = (0..3 * nsym).map(|_| rng.chance(1, 2)).collect();
        let m8 = Psk8Modulator::new().modulate(&gf2(&bits));
        let mb = BpskModulator::new().modulate(&gf2(&bits));
        let mut idx: Vec<usize> = vec![0, 1, nsym - 1, nsym - 2];
        for base in [21845usize, 21846, 43690, 43691, 65535, 65536, 65537] { for d in [0usize, 1, 2] { idx.push(base + d); idx.push(base - d); } }
        for _ in 0..80 { idx.push(rng.below(nsym)); }
        if m8.len() != nsym || mb.len() != 3 * nsym {
            ctx.emit(&format!("c14 hard8 - {}", hx(1.0)), "long-modulate-has-the-wrong-number-of-symbols", true, &["8psk-modulate-one-long-batch"]);
        } else {
            for &i in &idx {
                ctx.emit(&format!("c14 mod8 {}", bools(bits[3 * i..3 * i + 3].iter().copied())), &format!("{}.{}", hx(m8[i].re), hx(m8[i].im)), true, &["8psk-modulate-one-long-batch"]);
                let j = if i % 2 == 0 { i } else { 3 * i };
                ctx.emit(&format!("c14 modb {}", bools(bits[j..j + 1].iter().copied())), &hx(mb[j]), true, &["bpsk-modulate-one-long-batch"]);
            }
        }
    }
    for _ in 0..ctx.scale(6000, 1_000_000) {
        let s = (0.05f64.ln() + rng.f64_unit() * (10.0f64 / 0.05).ln()).exp();
        let re = 12.0 * rng.f64_unit() - 6.0;
        let im = 12.0 * rng.f64_unit() - 6.0;
        let l = BpskDemodulator::from_noise_sigma(s).demodulate(&[re]);
        ctx.emit(&format!("c14 demb {} {}", hx(s), hx(re)), &hx(l[0]), true, &["bpsk-demodulate-random"]);
        let l = Psk8Demodulator::from_noise_sigma(s).demodulate(&[Complex::new(re, im)]);
        ctx.emit(&format!("c14 dem8 {} {} {}", hx(s), hx(re), hx(im)), &format!("{} {} {}", hx(l[0]), hx(l[1]), hx(l[2])), true, &["8psk-demodulate-random"]);
    }
}
