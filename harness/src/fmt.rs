//! Canonical text encodings shared with the Lean driver (see lean/LdpcV/Model/Proto.lean).
use ldpc_toolbox::sparse::SparseMatrix;

pub fn nat_list(l: &[usize]) -> String {
    if l.is_empty() {
        "-".to_string()
    } else {
        l.iter().map(|x| x.to_string()).collect::<Vec<_>>().join(",")
    }
}

pub fn int_list(l: &[i64]) -> String {
    if l.is_empty() {
        ".".to_string()
    } else {
        l.iter().map(|x| x.to_string()).collect::<Vec<_>>().join(",")
    }
}

pub fn ll(l: &[Vec<usize>]) -> String {
    if l.is_empty() {
        "_".to_string()
    } else {
        l.iter().map(|x| nat_list(x)).collect::<Vec<_>>().join(";")
    }
}

pub fn bools<I: IntoIterator<Item = bool>>(l: I) -> String {
    let s: String = l.into_iter().map(|b| if b { '1' } else { '0' }).collect();
    if s.is_empty() { "-".to_string() } else { s }
}

pub fn rows_of(h: &SparseMatrix) -> Vec<Vec<usize>> {
    (0..h.num_rows()).map(|r| h.iter_row(r).copied().collect()).collect()
}

pub fn cols_of(h: &SparseMatrix) -> Vec<Vec<usize>> {
    (0..h.num_cols()).map(|c| h.iter_col(c).copied().collect()).collect()
}

/// `<rows> <cols>` — both adjacency lists, in iteration (= insertion) order
pub fn sm(h: &SparseMatrix) -> String {
    format!("{} {}", ll(&rows_of(h)), ll(&cols_of(h)))
}

pub fn opt_nat(x: Option<usize>) -> String {
    match x {
        None => "none".to_string(),
        Some(n) => n.to_string(),
    }
}

/// Build a matrix by inserting the given positions in order.
pub fn sm_from(nr: usize, nc: usize, entries: &[(usize, usize)]) -> SparseMatrix {
    let mut h = SparseMatrix::new(nr, nc);
    for &(r, c) in entries {
        h.insert(r, c);
    }
    h
}
