//! C06 / C07: dump every standard-code matrix the library constructs.
use crate::fmt::*;
use crate::{Ctx, guarded};
use ldpc_toolbox::codes::{ccsds, dvbs2};
use ldpc_toolbox::encoder::Encoder;
use ldpc_toolbox::gf2::GF2;
use ldpc_toolbox::sparse::SparseMatrix;
use ndarray::Array1;
use num_traits::{One, Zero};

fn dump(h: &SparseMatrix) -> String {
    format!("{} {} {} {}", h.num_rows(), h.num_cols(), ll(&cols_of(h)), ll(&rows_of(h)))
}

/// Runs `f` in a forked child with a CPU-time alarm; its string result comes back through a pipe.  "timeout" if the
/// child is killed by the alarm (e.g. the encoder fell back to dense elimination on a 64800-column matrix), "abort" if it dies otherwise.
pub fn with_time_limit<F: FnOnce() -> String>(secs: u32, f: F) -> String {
    unsafe {
        let mut fds = [0i32; 2];
        if libc::pipe(fds.as_mut_ptr()) != 0 {
            return f();
        }
        let pid = libc::fork();
        if pid == 0 {
            libc::close(fds[0]);
            libc::alarm(secs);
            let s = f();
            let b = s.as_bytes();
            let _ = libc::write(fds[1], b.as_ptr() as *const libc::c_void, b.len());
            libc::_exit(0);
        }
        libc::close(fds[1]);
        let mut out = Vec::new();
        let mut buf = [0u8; 4096];
        loop {
            let n = libc::read(fds[0], buf.as_mut_ptr() as *mut libc::c_void, buf.len());
            if n <= 0 { break; }
            out.extend_from_slice(&buf[..n as usize]);
        }
        libc::close(fds[0]);
        let mut status = 0;
        libc::waitpid(pid, &mut status, 0);
        if libc::WIFEXITED(status) && libc::WEXITSTATUS(status) == 0 {
            String::from_utf8_lossy(&out).to_string()
        } else if libc::WIFSIGNALED(status) && libc::WTERMSIG(status) == libc::SIGALRM {
            "timeout".to_string()
        } else {
            "abort".to_string()
        }
    }
}

/// `Encoder::from_h` must accept the matrix; encode random messages; returns (kind, all syndromes zero)
pub fn encoder_accepts(h: &SparseMatrix, rng: &mut crate::rng::Rng, nmsg: usize) -> String {
    let h2 = h.clone();
    match guarded(move || Encoder::from_h(&h2)) {
        Ok(Ok(enc)) => {
            let dbg = format!("{:?}", enc);
            let kind = if dbg.starts_with("Encoder { encoder: Staircase") { "Staircase" } else { "DenseGenerator" };
            let k = h.num_cols() - h.num_rows();
            let mut ok = true;
            for _ in 0..nmsg {
                let msg: Vec<GF2> = (0..k).map(|_| if rng.chance(1, 2) { GF2::one() } else { GF2::zero() }).collect();
                let cw = enc.encode(&Array1::from_vec(msg.clone()));
                let bits: Vec<bool> = cw.iter().map(|b| b.is_one()).collect();
                let prefix_ok = bits.iter().zip(msg.iter()).all(|(b, m)| *b == m.is_one());
                let synd_ok = (0..h.num_rows()).all(|r| h.iter_row(r).filter(|&&c| bits[c]).count() % 2 == 0);
                ok &= prefix_ok && synd_ok && bits.len() == h.num_cols();
            }
            format!("{}:{}", kind, if ok { "codewords-ok" } else { "BAD-CODEWORD" })
        }
        Ok(Err(_)) => "encoder-error".to_string(),
        Err(_) => "encoder-panic".to_string(),
    }
}

pub fn run_c06(ctx: &mut Ctx, _replay: Option<&[String]>) {
    let mut rng = crate::rng::Rng::new(ctx.seed, 6);
    let codes: Vec<dvbs2::Code> = enum_iterator::all::<dvbs2::Code>().collect();
    ctx.emit("c06 count", &codes.len().to_string(), true, &["count"]);
    let mut enc = Vec::new();
    for code in codes {
        let name = format!("{:?}", code);
        let h = code.h();
        let girth = if name == "R1_2" || (ctx.thorough && name == "R1_2short") { format!("{:?}", h.girth_with_max(6)) } else { "-".into() };
        // the staircase encoder is linear-time; 300 s of CPU is orders of magnitude more than it needs on 64800 columns
        let seed = rng.next();
        let hh = h.clone();
        let acc = with_time_limit(300, move || { let mut r = crate::rng::Rng::new(seed, 6); encoder_accepts(&hh, &mut r, 3) });
        ctx.emit(&format!("c06 enc {}", name), &format!("{} {}", acc, girth.replace(' ', "")), true, &["encoder-acceptance-and-girth"]);
        enc.push(format!("{}={},girth<=6:{}", name, acc, girth));
        ctx.emit(&format!("c06 {}", name), &dump(&h), true, &[if name.ends_with("short") { "short-frame" } else { "normal-frame" }]);
    }
    // the codes again in another order: pairs with the same number of parity rows n - k generated right after each other (both orders)
    let all: Vec<(dvbs2::Code, usize)> = enum_iterator::all::<dvbs2::Code>().map(|c| { let m = c.h().num_rows(); (c, m) }).collect();
    for (a, ma) in &all {
        for (b, mb) in &all {
            let (na, nb) = (format!("{:?}", a), format!("{:?}", b));
            if na != nb && ma == mb {
                let _ = a.h();
                let hb = b.h();
                ctx.emit(&format!("c06 {}", nb), &dump(&hb), true, &["generated-right-after-a-code-with-the-same-n-k"]);
            }
        }
    }
    ctx.extra.insert("encoder_and_girth".into(), enc.join(" "));
}

fn dump_rows_sorted_cols(h: &SparseMatrix) -> String {
    let cols: Vec<Vec<usize>> = cols_of(h).into_iter().map(|mut c| { c.sort_unstable(); c }).collect();
    format!("{} {} {} {}", h.num_rows(), h.num_cols(), ll(&rows_of(h)), ll(&cols))
}

pub fn run_c07(ctx: &mut Ctx, _replay: Option<&[String]>) {
    let mut rng = crate::rng::Rng::new(ctx.seed, 7);
    let mut enc = Vec::new();
    for rate in enum_iterator::all::<ccsds::AR4JARate>() {
        for size in enum_iterator::all::<ccsds::AR4JAInfoSize>() {
            let k = match format!("{:?}", size).as_str() { "K1024" => 1024, "K4096" => 4096, _ => 16384 };
            // quick tier: of the three k = 16384 codes only rate 4/5 (M = 2048; the model expands it in 5 s, rate 1/2 takes 3.5 min)
            if k == 16384 && !ctx.thorough && format!("{:?}", rate) != "R4_5" {
                // ... but a sample of a few hundred of their rows (block boundaries and random ones) is compared with the model's rows, which
                // it computes one at a time from the standard's tables (the permutation offsets of the largest M appear only here)
                ctx.tag("k16384-sampled-rows-in-quick-tier");
                let Ok(h) = guarded(move || ccsds::AR4JACode::new(rate, size).h()) else {
                    ctx.emit(&format!("c07 ar4ja {:?} {}", rate, k), "construction-panicked", true, &["ar4ja", "construction-panicked"]);
                    continue;
                };
                let m = h.num_rows() / 3;
                let mut rs: Vec<usize> = vec![0, 1, 2, m - 1, m, m + 1, 2 * m - 1, 2 * m, 2 * m + 1, 3 * m - 1, m / 2, m + m / 4, 2 * m + 3 * m / 4];
                for _ in 0..240 { rs.push(rng.below(3 * m)); }
                rs.retain(|&r| r < h.num_rows());
                let rows: Vec<Vec<usize>> = rs.iter().map(|&r| h.iter_row(r).copied().collect()).collect();
                ctx.emit(&format!("c07 ar4jarows {:?} {} {}", rate, k, rs.iter().map(|r| r.to_string()).collect::<Vec<_>>().join(",")),
                    &format!("{} {} {}", h.num_rows(), h.num_cols(), ll(&rows)), true, &["ar4ja-sampled-rows"]);
                continue;
            }
            let Ok(h) = guarded(move || ccsds::AR4JACode::new(rate, size).h()) else {
                // the construction itself panicked: a finding for this code
                ctx.emit(&format!("c07 ar4ja {:?} {}", rate, k), "construction-panicked", true, &["ar4ja", "construction-panicked"]);
                continue;
            };
            // dense elimination is O(r^2 n): only the k = 1024 codes in quick, k = 4096 in thorough
            if k == 1024 || (k == 4096 && ctx.thorough) {
                let seed = rng.next();
                let hh = h.clone();
                let acc = with_time_limit(3600, move || { let mut r = crate::rng::Rng::new(seed, 7); encoder_accepts(&hh, &mut r, 2) });
                ctx.emit(&format!("c07 enc {:?} {}", rate, k), &acc, true, &["encoder-acceptance"]);
                enc.push(format!("{:?}/{}={}", rate, k, acc));
            }
            let girth = if format!("{:?}", rate) == "R1_2" && k == 1024 { format!("{:?}", h.girth_with_max(6)) } else { "-".into() };
            if girth != "-" {
                ctx.emit(&format!("c07 girth ar4ja-{:?}-{}", rate, k), &girth.replace(' ', ""), true, &["documented-girth"]);
            }
            enc.push(format!("{:?}/{}:girth<=6:{}", rate, k, girth));
            ctx.emit(&format!("c07 ar4ja {:?} {}", rate, k), &dump_rows_sorted_cols(&h), true, &["ar4ja"]);
        }
    }
    let h = ccsds::C2Code::new().h();
    // the other public way to obtain the code object
    let hd = <ccsds::C2Code as Default>::default().h();
    ctx.emit("c07 c2", &dump_rows_sorted_cols(&hd), true, &["c2-default-constructed"]);
    enc.push(format!("C2:girth<=6:{:?}", h.girth_with_max(6)));
    ctx.emit("c07 girth c2", &format!("{:?}", h.girth_with_max(6)).replace(' ', ""), true, &["documented-girth"]);
    ctx.emit("c07 c2", &dump_rows_sorted_cols(&h), true, &["c2"]);
    ctx.extra.insert("encoder_and_girth".into(), enc.join(" "));
}
