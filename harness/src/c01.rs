//! C01 / C10 / C18: all 36 implementation names built by the factory.
use crate::dec::*;
use crate::fmt::*;
use crate::rng::Rng;
use crate::Ctx;
use clap::ValueEnum;
use ldpc_toolbox::decoder::arithmetic::*;
use ldpc_toolbox::decoder::factory::{DecoderFactory, DecoderImplementation};
use ldpc_toolbox::decoder::{LdpcDecoder, flooding, horizontal_layered};
use ldpc_toolbox::sparse::SparseMatrix;
use std::str::FromStr;

pub fn all_impls() -> Vec<DecoderImplementation> {
    DecoderImplementation::value_variants().to_vec()
}

fn gen_calls(rng: &mut Rng, h: &SparseMatrix, ncalls: usize, tags: &mut Vec<&'static str>) -> Vec<(usize, Vec<f64>)> {
    (0..ncalls)
        .map(|_| {
            let (llrs, t) = gen_llrs(rng, h);
            tags.extend(t);
            let mut limit = *rng.pick(&LIMITS);
            if limit == 50 && h.num_cols() > 60 {
                limit = 10;
            }
            tags.push(match limit { 0 => "limit-0", 1 => "limit-1", 50 => "limit-50", _ => "limit-2..5" });
            (limit, llrs)
        })
        .collect()
}

fn calls_str(calls: &[(usize, Vec<f64>)]) -> String {
    calls.iter().map(|(l, x)| fmt_call(*l, x)).collect::<Vec<_>>().join(" ")
}

fn outcome_tags(res: &[String], tags: &mut Vec<&'static str>) {
    for r in res {
        tags.push(if r.starts_with("S:") {
            if r.ends_with(":0") { "result-success-0-iterations" } else { "result-success-after-iterations" }
        } else if r.starts_with("F:") {
            "result-failure"
        } else {
            "result-panic"
        });
    }
}

pub fn run_c01(ctx: &mut Ctx, replay: Option<&[String]>) {
    if let Some(lines) = replay {
        for line in lines {
            let t: Vec<&str> = line.split_whitespace().take_while(|t| *t != "=>").collect();
            if t.len() < 5 || t[0] != "c01" {
                continue;
            }
            let (Ok(imp), Some(h)) = (<DecoderImplementation as FromStr>::from_str(t[1]), parse_sm(t[2], t[3])) else { continue };
            let calls: Vec<_> = t[4..].iter().filter_map(|c| parse_call(c)).collect();
            let mut d = imp.build_decoder(h);
            let res = run_history(&mut d, &calls);
            ctx.emit(&t.join(" "), &res.join(" "), true, &["replay"]);
        }
        return;
    }
    let mut rng = Rng::new(ctx.seed, 1);
    let per_name = ctx.scale(120, 3000);
    let max_cols = ctx.scale(40, 200);
    for imp in all_impls() {
        for k in 0..per_name {
            let (h, fam) = gen_matrix(&mut rng, if k % 8 == 0 { max_cols } else { max_cols / 3 });
            let mut tags = vec![fam];
            let calls = gen_calls(&mut rng, &h, 1, &mut tags);
            let mut d = imp.build_decoder(h.clone());
            let res = run_history(&mut d, &calls);
            outcome_tags(&res, &mut tags);
            let input = format!("c01 {} {} {}", imp, sm(&h), calls_str(&calls));
            // non-trivial: the decoder actually iterated (input signs are not already a codeword)
            let nontrivial = !res[0].ends_with(":0");
            ctx.emit(&input, &res.join(" "), nontrivial, &tags);
            // the same frame under an iteration limit that does not fit in 32 (or 31, 16, 8) bits: a frame that decodes after k >= 1 iterations
            // under a small limit must decode identically — the limit must not pass through a narrower integer type anywhere
            if res[0].starts_with("S:") && nontrivial {
                let k_it: usize = res[0].rsplit(':').next().and_then(|x| x.parse().ok()).unwrap_or(1);
                let big = *rng.pick(&[1usize << 32, (1usize << 32) + k_it - 1, 1usize << 31, (1usize << 31) + 1, 65536, 65536 + k_it - 1, 256, usize::MAX,
                    (1usize << 40) + (k_it - 1), u32::MAX as usize]);
                let calls2 = vec![(big, calls[0].1.clone())];
                let mut d2 = imp.build_decoder(h.clone());
                let res2 = run_history(&mut d2, &calls2);
                let mut tags2 = vec![fam, "limit-256-or-more"];
                outcome_tags(&res2, &mut tags2);
                ctx.emit(&format!("c01 {} {} {}", imp, sm(&h), calls_str(&calls2)), &res2.join(" "), true, &tags2);
            }
        }
    }
    // very wide matrices (more than 2^16 columns, checks that join a low and a high column): column indices must not pass through a
    // 16-bit type anywhere between the matrix, the syndrome test and the word.  Judged by the C01 predicate only (the list-based model
    // is not run on 65 000 columns).
    for (i, imp) in all_impls().into_iter().enumerate() {
        if !ctx.thorough && i % 2 == 1 && !imp.to_string().starts_with("HL") { continue; }
        let n = 65536 + rng.range(2, 60);
        let mut h = SparseMatrix::new(3, n);
        let hi = [65536, 65536 + rng.range(1, n - 65536 - 1), n - 1];
        let lo = [1usize, rng.range(2, 300), 0];
        for r in 0..3 {
            h.insert(r, lo[r]);
            h.insert(r, hi[r]);
            if r == 1 { h.insert(r, 40_000); }
        }
        // all bits received as 0 except one or two of the high columns: the sign pattern violates a check
        let mut llrs = vec![*rng.pick(&[2.5f64, 6.0, 0.75]); n];
        llrs[hi[rng.below(3)]] = -*rng.pick(&[1.5f64, 4.0, 0.5]);
        if rng.chance(1, 2) { llrs[hi[0]] = -3.0; llrs[lo[0]] = -3.25; }
        let calls = vec![(*rng.pick(&[0usize, 1, 3]), llrs)];
        let mut d = imp.build_decoder(h.clone());
        let res = run_history(&mut d, &calls);
        let mut tags = vec!["more-than-65536-columns"];
        outcome_tags(&res, &mut tags);
        ctx.emit(&format!("c01 {} {} {}", imp, sm(&h), calls_str(&calls)), &res.join(" "), !res[0].ends_with(":0"), &tags);
    }
    // counts beyond 8 bits inside the syndrome test: (a) one check over 256 ... 520 bits almost all of which are received as 1 (its parity is a
    // count of up to 520 ones), (b) 256 / 512 / 768 disjoint checks ALL of which fail on the input (the number of failed checks is a multiple
    // of 256), under limit 0 and small limits
    for (i, imp) in all_impls().into_iter().enumerate() {
        if !ctx.thorough && i % 3 != (ctx.seed % 3) as usize { continue; }
        // (a)
        let n = *rng.pick(&[256usize, 257, 258, 300, 511, 512, 513, 520]);
        let mut h = SparseMatrix::new(2, n);
        for c in 0..n { h.insert(0, c); }
        h.insert(1, 0); h.insert(1, 1);
        let zeros = *rng.pick(&[0usize, 0, 1, 2]);
        let mut llrs: Vec<f64> = (0..n).map(|_| -(1.0 + 3.0 * rng.f64_unit())).collect();
        for z in 0..zeros { llrs[n - 1 - 7 * z] = 2.0 + rng.f64_unit(); }
        let calls = vec![(*rng.pick(&[0usize, 1, 2]), llrs)];
        let mut d = imp.build_decoder(h.clone());
        let res = run_history(&mut d, &calls);
        let mut tags = vec!["check-over-256..520-bits-received-as-ones"];
        outcome_tags(&res, &mut tags);
        ctx.emit(&format!("c01 {} {} {}", imp, sm(&h), calls_str(&calls)), &res.join(" "), true, &tags);
        // (b)
        let m = *rng.pick(&[256usize, 256, 512, 768, 255, 257]);
        let mut h = SparseMatrix::new(m, 2 * m);
        for j in 0..m { h.insert(j, 2 * j); h.insert(j, 2 * j + 1); }
        let llrs: Vec<f64> = (0..2 * m).map(|c| if c % 2 == 0 { -(0.5 + rng.f64_unit()) } else { 0.5 + 2.0 * rng.f64_unit() }).collect();
        let calls = vec![(*rng.pick(&[0usize, 0, 1, 3]), llrs)];
        let mut d = imp.build_decoder(h.clone());
        let res = run_history(&mut d, &calls);
        let mut tags = vec!["256..768-checks-all-failing-on-the-input"];
        outcome_tags(&res, &mut tags);
        ctx.emit(&format!("c01 {} {} {}", imp, sm(&h), calls_str(&calls)), &res.join(" "), true, &tags);
    }
}

pub fn run_c10(ctx: &mut Ctx, replay: Option<&[String]>) {
    let do_case = |imp: DecoderImplementation, h: &SparseMatrix, calls: &[(usize, Vec<f64>)]| -> (Vec<String>, Vec<String>) {
        let mut d = imp.build_decoder(h.clone());
        let reused = run_history(&mut d, calls);
        let mut fresh = Vec::new();
        for c in calls.iter().take(reused.len()) {
            let mut f = imp.build_decoder(h.clone());
            fresh.extend(run_history(&mut f, std::slice::from_ref(c)));
        }
        (reused, fresh)
    };
    if let Some(lines) = replay {
        for line in lines {
            let t: Vec<&str> = line.split_whitespace().take_while(|t| *t != "=>").collect();
            if t.len() < 5 || t[0] != "c10" {
                continue;
            }
            let (Ok(imp), Some(h)) = (<DecoderImplementation as FromStr>::from_str(t[1]), parse_sm(t[2], t[3])) else { continue };
            let calls: Vec<_> = t[4..].iter().filter_map(|c| parse_call(c)).collect();
            let (a, b) = do_case(imp, &h, &calls);
            ctx.emit(&t.join(" "), &format!("{} | {}", a.join(" "), b.join(" ")), true, &["replay"]);
        }
        return;
    }
    let mut rng = Rng::new(ctx.seed, 10);
    let per_name = ctx.scale(40, 1200);
    let max_cols = ctx.scale(30, 120);
    for imp in all_impls() {
        for _ in 0..per_name {
            let (h, fam) = gen_matrix(&mut rng, max_cols);
            let mut tags = vec![fam];
            let ncalls = rng.range(2, 20);
            let mut calls = gen_calls(&mut rng, &h, ncalls, &mut tags);
            // a third of the histories present the SAME LLR vector again, under another iteration limit (smaller and larger): a result
            // remembered from the previous call must not be handed out
            if rng.chance(1, 3) {
                for i in 1..calls.len() {
                    if rng.chance(1, 2) {
                        calls[i].1 = calls[i - 1].1.clone();
                        calls[i].0 = *rng.pick(&[0usize, 1, 2, 3, 5, 10, 50]);
                    }
                }
                tags.push("history-repeats-an-llr-vector-under-another-limit");
            }
            let (a, b) = do_case(imp, &h, &calls);
            outcome_tags(&a, &mut tags);
            let kinds = a.iter().map(|r| &r[..1]).collect::<std::collections::HashSet<_>>().len();
            let has0 = calls.iter().skip(1).any(|c| c.0 == 0);
            if has0 {
                tags.push("history-with-limit-0-after-first-call");
            }
            let input = format!("c10 {} {} {}", imp, sm(&h), calls_str(&calls));
            // non-trivial: the history mixes successes and failures (a stale buffer can only show then)
            ctx.emit(&input, &format!("{} | {}", a.join(" "), b.join(" ")), kinds >= 2, &tags);
        }
    }
    // long histories: one frame that iterates, then a run of 254..257 / 510..513 (thorough: also 65534..65537) frames that fail under limit 0
    // (the decoder object is entered and left without a single iteration), then one more frame that iterates — per-object counters of
    // 8 or 16 bits (frame stamps, generation numbers, lazily reset buffers) wrap exactly there
    for (i, imp) in all_impls().into_iter().enumerate() {
        let mut gaps: Vec<usize> = vec![*rng.pick(&[255usize, 255, 256, 254, 257]), *rng.pick(&[511usize, 510, 512, 513, 767])];
        if ctx.thorough && i % 9 == 1 { gaps.push(*rng.pick(&[65535usize, 65536, 65534])); }
        for gap in gaps {
            let (h, fam) = gen_matrix(&mut rng, if gap > 1000 { 8 } else { 14 });
            let mut tags = vec![fam, if gap > 1000 { "history-with-about-65536-zero-iteration-frames" } else { "history-with-255-or-more-zero-iteration-frames" }];
            // first and last frames: fresh random LLR vectors with limits >= 1; middle: ONE failing vector repeated under limit 0
            // (each drawn until a fresh decoder really iterates on it / really fails under limit 0, at most 30 draws)
            let draw = |rng: &mut Rng, limit: usize, tags: &mut Vec<&'static str>| -> (usize, Vec<f64>) {
                let mut c = (limit, Vec::new());
                for _ in 0..30 {
                    c = (limit, gen_calls(rng, &h, 1, tags).remove(0).1);
                    let mut f = imp.build_decoder(h.clone());
                    let r = run_history(&mut f, std::slice::from_ref(&c));
                    if !r[0].ends_with(":0") || (limit == 0 && r[0].starts_with("F:")) { break; }
                }
                c
            };
            let (l1, l2) = ([1usize, 2, 3, 5][rng.below(4)], [1usize, 2, 3][rng.below(3)]);
            let first = vec![draw(&mut rng, l1, &mut tags)];
            let last = vec![draw(&mut rng, l2, &mut tags), draw(&mut rng, 5, &mut tags)];
            let mid = draw(&mut rng, 0, &mut tags).1;
            let mut calls = first;
            for _ in 0..gap { calls.push((0, mid.clone())); }
            calls.extend(last);
            let (a, b) = do_case(imp, &h, &calls);
            let kinds = a.iter().map(|r| &r[..1]).collect::<std::collections::HashSet<_>>().len();
            ctx.emit(&format!("c10 {} {} {}", imp, sm(&h), calls_str(&calls)), &format!("{} | {}", a.join(" "), b.join(" ")), kinds >= 2, &tags);
        }
    }
}

/// The EXPECTED table of C18, written from the documentation of `DecoderImplementation`
/// (independently of factory.rs): name -> generic decoder over the named arithmetic and schedule.
/// The directly constructed generic decoders, driven through their INHERENT `decode` methods: the trait-object bridge
/// `impl LdpcDecoder for Decoder<A>` belongs to what `DecoderImplementation::build_decoder` hands out and is therefore under test, not
/// part of the reference.
#[derive(Debug)]
struct DirectFlooding<A: DecoderArithmetic>(flooding::Decoder<A>);
#[derive(Debug)]
struct DirectLayered<A: DecoderArithmetic>(horizontal_layered::Decoder<A>);
impl<A: DecoderArithmetic + std::fmt::Debug + Send> LdpcDecoder for DirectFlooding<A>
where A::Llr: std::fmt::Debug + Send, A::CheckMessage: std::fmt::Debug + Send, A::VarMessage: std::fmt::Debug + Send, A::VarLlr: std::fmt::Debug + Send {
    fn decode(&mut self, llrs: &[f64], max_iterations: usize) -> Result<ldpc_toolbox::decoder::DecoderOutput, ldpc_toolbox::decoder::DecoderOutput> {
        flooding::Decoder::<A>::decode(&mut self.0, llrs, max_iterations)
    }
}
impl<A: DecoderArithmetic + std::fmt::Debug + Send> LdpcDecoder for DirectLayered<A>
where A::Llr: std::fmt::Debug + Send, A::CheckMessage: std::fmt::Debug + Send, A::VarMessage: std::fmt::Debug + Send, A::VarLlr: std::fmt::Debug + Send {
    fn decode(&mut self, llrs: &[f64], max_iterations: usize) -> Result<ldpc_toolbox::decoder::DecoderOutput, ldpc_toolbox::decoder::DecoderOutput> {
        horizontal_layered::Decoder::<A>::decode(&mut self.0, llrs, max_iterations)
    }
}

macro_rules! expected_table {
    ($name:expr, $h:expr; $($fam:ident),+) => {{
        let name: &str = $name;
        let (hl, base) = match name.strip_prefix("HL") { Some(b) => (true, b), None => (false, name) };
        let mut out: Option<Box<dyn LdpcDecoder>> = None;
        $(
            if base == stringify!($fam) {
                out = Some(if hl {
                    Box::new(DirectLayered(horizontal_layered::Decoder::new($h, <$fam>::new())))
                } else {
                    Box::new(DirectFlooding(flooding::Decoder::new($h, <$fam>::new())))
                });
            }
        )+
        out
    }};
}

pub fn expected_decoder(name: &str, h: SparseMatrix) -> Option<Box<dyn LdpcDecoder>> {
    expected_table!(name, h.clone();
        Phif64, Phif32, Tanhf64, Tanhf32, Minstarapproxf64, Minstarapproxf32,
        Minstarapproxi8, Minstarapproxi8Jones, Minstarapproxi8PartialHardLimit, Minstarapproxi8JonesPartialHardLimit,
        Minstarapproxi8Deg1Clip, Minstarapproxi8JonesDeg1Clip, Minstarapproxi8PartialHardLimitDeg1Clip,
        Minstarapproxi8JonesPartialHardLimitDeg1Clip,
        Aminstarf64, Aminstarf32,
        Aminstari8, Aminstari8Jones, Aminstari8PartialHardLimit, Aminstari8JonesPartialHardLimit,
        Aminstari8Deg1Clip, Aminstari8JonesDeg1Clip, Aminstari8PartialHardLimitDeg1Clip,
        Aminstari8JonesPartialHardLimitDeg1Clip)
}

fn hexdots(s: &str) -> String {
    if s.is_empty() { "-".to_string() } else { s.chars().map(|c| (c as u32).to_string()).collect::<Vec<_>>().join(".") }
}

pub fn run_c18(ctx: &mut Ctx, _replay: Option<&[String]>) {
    let mut rng = Rng::new(ctx.seed, 18);
    let impls = all_impls();
    ctx.emit("c18 count", &impls.len().to_string(), true, &["count"]);
    for (i, imp) in impls.iter().enumerate() {
        let dbg = format!("{:?}", imp);
        let disp = imp.to_string();
        let clapname = imp.to_possible_value().map(|v| v.get_name().to_string()).unwrap_or("<hidden>".into());
        let rt = match <DecoderImplementation as FromStr>::from_str(&disp) {
            Ok(x) if x == *imp => "ok",
            Ok(_) => "other-variant",
            Err(_) => "err",
        };
        ctx.emit(&format!("c18 name {}", i), &format!("{} {} {} {}", dbg, disp, clapname, rt), true, &["name-row"]);
    }
    // behaviour: factory-built vs directly constructed expected (arithmetic, schedule)
    let per_name = ctx.scale(25, 2000);
    // separation measurement: result vectors per name on a common family
    let common: Vec<(SparseMatrix, Vec<(usize, Vec<f64>)>)> = (0..ctx.scale(40, 120))
        .map(|_| {
            let (h, _) = gen_matrix(&mut rng, 24);
            let mut t = vec![];
            let c = gen_calls(&mut rng, &h, 3, &mut t);
            (h, c)
        })
        .collect();
    let mut signatures: Vec<(String, Vec<String>)> = Vec::new();
    for imp in &impls {
        let name = imp.to_string();
        let mut sig = Vec::new();
        for (h, calls) in &common {
            let mut d = imp.build_decoder(h.clone());
            let built = run_history(&mut d, calls);
            let direct = match expected_decoder(&name, h.clone()) {
                Some(mut e) => run_history(&mut e, calls),
                None => vec!["no-expected-decoder".to_string()],
            };
            sig.push(built.join(" "));
            ctx.emit(&format!("c18 beh {} {} {}", name, sm(h), calls_str(calls)),
                &format!("{} | {}", built.join(" "), direct.join(" ")), true, &["behaviour-common-family"]);
        }
        signatures.push((name.clone(), sig));
        for _ in 0..per_name {
            let (h, fam) = gen_matrix(&mut rng, 30);
            let mut tags = vec![fam, "behaviour-random"];
            let calls = gen_calls(&mut rng, &h, 2, &mut tags);
            let mut d = imp.build_decoder(h.clone());
            let built = run_history(&mut d, &calls);
            let direct = match expected_decoder(&name, h.clone()) {
                Some(mut e) => run_history(&mut e, &calls),
                None => vec!["no-expected-decoder".to_string()],
            };
            ctx.emit(&format!("c18 beh {} {} {}", name, sm(&h), calls_str(&calls)),
                &format!("{} | {}", built.join(" "), direct.join(" ")), true, &tags);
        }
        // ... nor on the matrix: checks of weight 1 ("this bit is 0") and of weight 0 (results or panics must coincide)
        for _ in 0..ctx.scale(6, 300) {
            let (mut h, fam) = gen_matrix(&mut rng, 16);
            let mut tags = vec![fam, "behaviour-matrix-with-checks-of-weight-0-or-1"];
            for _ in 0..rng.range(1, 2) {
                let r = rng.below(h.num_rows());
                h.clear_row(r);
                if rng.chance(3, 4) { h.insert(r, rng.below(h.num_cols())); }
            }
            let calls = gen_calls(&mut rng, &h, 2, &mut tags);
            let mut d = imp.build_decoder(h.clone());
            let built = run_history(&mut d, &calls);
            let direct = match expected_decoder(&name, h.clone()) {
                Some(mut e) => run_history(&mut e, &calls),
                None => vec!["no-expected-decoder".to_string()],
            };
            ctx.emit(&format!("c18 beh {} {} {}", name, sm(&h), calls_str(&calls)),
                &format!("{} | {}", built.join(" "), direct.join(" ")), true, &tags);
        }
        // ... a bit taking part in 128 ... 257 checks (the largest variable degrees the 8-bit accumulators hold): building through the factory
        // must neither refuse nor differ from the generic decoder
        for _ in 0..ctx.scale(2, 40) {
            let w = *rng.pick(&[128usize, 129, 200, 255, 256, 257]);
            let nc = rng.range(3, 6);
            let mut h = SparseMatrix::new(w, nc);
            for r in 0..w { h.insert(r, 0); h.insert(r, 1 + rng.below(nc - 1)); }
            let mut tags = vec!["one-variable-in-128..257-checks", "behaviour-heavy-column"];
            let calls = gen_calls(&mut rng, &h, 2, &mut tags);
            let (imp2, h2, calls2) = (imp, h.clone(), calls.clone());
            let built = crate::guarded(move || { let mut d = imp2.build_decoder(h2); run_history(&mut d, &calls2) })
                .unwrap_or_else(|_| vec!["factory-panicked".to_string()]);
            let direct = match expected_decoder(&name, h.clone()) {
                Some(mut e) => run_history(&mut e, &calls),
                None => vec!["no-expected-decoder".to_string()],
            };
            ctx.emit(&format!("c18 beh {} {} {}", name, sm(&h), calls_str(&calls)),
                &format!("{} | {}", built.join(" "), direct.join(" ")), true, &tags);
        }
        // "behaves exactly like" has no restriction on the input: LLR vectors with NaN / +-inf entries (results or panics must coincide)
        for _ in 0..ctx.scale(6, 300) {
            let (h, fam) = gen_matrix(&mut rng, 20);
            let mut tags = vec![fam, "behaviour-non-finite-llrs"];
            let mut calls = gen_calls(&mut rng, &h, 2, &mut tags);
            for c in calls.iter_mut() {
                if c.1.is_empty() { continue; }
                for _ in 0..rng.range(1, 3) {
                    let i = rng.below(c.1.len());
                    c.1[i] = *rng.pick(&[f64::NAN, -f64::NAN, f64::INFINITY, f64::NEG_INFINITY, f64::NAN]);
                }
            }
            let mut d = imp.build_decoder(h.clone());
            let built = run_history(&mut d, &calls);
            let direct = match expected_decoder(&name, h.clone()) {
                Some(mut e) => run_history(&mut e, &calls),
                None => vec!["no-expected-decoder".to_string()],
            };
            ctx.emit(&format!("c18 beh {} {} {}", name, sm(&h), calls_str(&calls)),
                &format!("{} | {}", built.join(" "), direct.join(" ")), true, &tags);
        }
    }
    // how many pairs of names does the common family separate?
    let mut unsep = Vec::new();
    for a in 0..signatures.len() {
        for b in a + 1..signatures.len() {
            if signatures[a].1 == signatures[b].1 {
                unsep.push(format!("{}~{}", signatures[a].0, signatures[b].0));
            }
        }
    }
    ctx.extra.insert("separation_pairs_total".into(), (signatures.len() * (signatures.len() - 1) / 2).to_string());
    ctx.extra.insert("separation_pairs_unseparated".into(), format!("{} {}", unsep.len(), unsep.join(",")));
    // non-member strings
    let names: Vec<String> = impls.iter().map(|i| i.to_string()).collect();
    for _ in 0..ctx.scale(2000, 200000) {
        let base = rng.pick(&names).clone();
        let s = match rng.below(9) {
            0 => base.to_lowercase(),
            1 => base.to_uppercase(),
            2 => format!(" {}", base),
            3 => format!("{} ", base),
            4 => format!("HL{}", base),
            5 => base[..base.len() - 1].to_string(),
            6 => format!("{}x", base),
            7 => String::new(),
            _ => {
                let mut c: Vec<char> = base.chars().collect();
                let i = rng.below(c.len());
                c[i] = (b'a' + rng.below(26) as u8) as char;
                c.into_iter().collect()
            }
        };
        let r = if <DecoderImplementation as FromStr>::from_str(&s).is_ok() { "ok" } else { "err" };
        let member = names.contains(&s);
        ctx.emit(&format!("c18 rej {}", hexdots(&s)), r, !member, &[if member { "string-member" } else { "string-non-member" }]);
    }
}
