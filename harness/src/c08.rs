//! C08: alist writer and parser.
use crate::fmt::*;
use crate::rng::Rng;
use crate::{Ctx, guarded};
use ldpc_toolbox::sparse::SparseMatrix;

pub fn enc_text(s: &str) -> String {
    if s.is_empty() { "-".to_string() } else { s.chars().map(|c| (c as u32).to_string()).collect::<Vec<_>>().join(".") }
}

pub fn dec_text(s: &str) -> String {
    if s == "-" { String::new() } else { s.split('.').filter_map(|t| t.parse::<u32>().ok().and_then(char::from_u32)).collect() }
}

/// the property is about texts with moderate declared dimensions: skip texts whose header declares more than 5000
pub fn huge_dims(text: &str) -> bool {
    let first = text.split('\n').next().unwrap_or("");
    first.split_whitespace().take(2).any(|t| t.parse::<usize>().map(|v| v > 5000).unwrap_or(false))
}

pub fn parse_res(text: &str) -> String {
    if huge_dims(text) {
        return "skipped-huge-dimensions".to_string();
    }
    let t = text.to_string();
    match guarded(move || SparseMatrix::from_alist(&t)) {
        Ok(Ok(h)) => format!("ok {}", sm(&h)),
        Ok(Err(_)) => "err".to_string(),
        Err(_) => "panic".to_string(),
    }
}

pub fn write_res(h: &SparseMatrix) -> String {
    let h2 = h.clone();
    match guarded(move || (h2.alist(), h2.alist_no_padding())) {
        Ok((a, b)) => format!("{} {}", enc_text(&a), enc_text(&b)),
        Err(_) => "panic".to_string(),
    }
}

pub fn gen_sparse(rng: &mut Rng, maxdim: usize) -> SparseMatrix {
    let nr = rng.range(1, maxdim);
    let nc = rng.range(1, maxdim);
    let mut h = SparseMatrix::new(nr, nc);
    let density = *rng.pick(&[0u64, 0, 1, 2, 5, 10, 20]);
    for r in 0..nr {
        for c in 0..nc {
            if rng.chance(density, 20) {
                h.insert(r, c);
            }
        }
    }
    // random insertion order matters for the model comparison: shuffle by removing/reinserting
    for _ in 0..rng.below(4) {
        let (r, c) = (rng.below(nr), rng.below(nc));
        h.toggle(r, c);
    }
    h
}

/// a token that is not a number: 1-40 characters drawn from ASCII letters / digits / signs and 2-, 3- and 4-byte UTF-8
/// characters, so that a multi-byte character can straddle every byte offset (error messages that quote or cut the token)
fn garbage(rng: &mut Rng) -> String {
    let alphabet = ["a", "Z", "7", "0", "-", "+", ".", "_", "é", "ß", "٣", "€", "１", "字", "😀", "𝟙"];
    let n = rng.range(1, 40);
    let mut s = String::new();
    for _ in 0..n { s.push_str(*rng.pick(&alphabet)); }
    if s.parse::<usize>().is_ok() { s.push('x'); }
    s
}

fn mutate(rng: &mut Rng, text: &str, nrows: usize) -> String {
    let mut lines: Vec<Vec<String>> = text.split('\n').map(|l| l.split(' ').map(|t| t.to_string()).collect()).collect();
    for _ in 0..rng.range(1, 3) {
        let li = rng.below(lines.len());
        match rng.below(12) {
            // repeat a token somewhere else in the same line (a column list naming the same row twice, not necessarily next to each other)
            11 => { if lines[li].len() >= 2 { let t = rng.below(lines[li].len()); let x = lines[li][t].clone(); let pos = rng.below(lines[li].len() + 1); lines[li].insert(pos, x); } }
            // respell a number without changing its value: `usize::from_str` accepts a leading `+` and leading zeros
            // (so "00" / "+0" are padding zeros and "+3" / "003" are the index 3)
            9 | 10 => { if !lines[li].is_empty() { let t = rng.below(lines[li].len());
                     if let Ok(v) = lines[li][t].parse::<usize>() {
                         lines[li][t] = match rng.below(4) { 0 => format!("+{}", v), 1 => format!("0{}", v), 2 => format!("000{}", v), _ => format!("+00{}", v) };
                     } } }
            0 => { lines.truncate(li.max(1)); }                                   // truncation at a line
            1 => { if !lines[li].is_empty() { let t = rng.below(lines[li].len()); lines[li].remove(t); } }
            2 => { if !lines[li].is_empty() { let t = rng.below(lines[li].len()); let x = lines[li][t].clone(); lines[li].insert(t, x); } }
            3 => { if !lines[li].is_empty() { let t = rng.below(lines[li].len());
                     if let Ok(v) = lines[li][t].parse::<usize>() { lines[li][t] = v.saturating_add(nrows).to_string(); } } }   // index + nrows
            4 => { if !lines[li].is_empty() { let t = rng.below(lines[li].len());
                     if let Ok(v) = lines[li][t].parse::<usize>() { lines[li][t] = v.saturating_sub(nrows.min(v)).to_string(); } } }
            5 => { if !lines[li].is_empty() { let t = rng.below(lines[li].len());
                     if rng.chance(1, 2) { lines[li][t] = garbage(rng); } else
                     { lines[li][t] = rng.pick(&["x", "-1", "+3", "1.5", "", "18446744073709551616", "18446744073709551615", "0x1", "٣", "１"]).to_string(); } } }
            6 => { lines.remove(li); if lines.is_empty() { lines.push(vec![]); } }
            7 => { let l = lines[li].clone(); lines.insert(li, l); }
            _ => { if !lines[li].is_empty() { let t = rng.below(lines[li].len());
                     if let Ok(v) = lines[li][t].parse::<usize>() { lines[li][t] = v.saturating_add(1).to_string(); } } }
        }
    }
    let sep = *rng.pick(&[" ", " ", " ", "\t", "  ", "\u{a0}", "\r ", "\u{2003}"]);
    lines.iter().map(|l| l.join(sep)).collect::<Vec<_>>().join("\n")
}

fn soup(rng: &mut Rng) -> String {
    let toks = ["0", "1", "2", "3", "4", "5", "7", "10", "12", "100", "+2", "-1", "x", "00", "+0", "000", "01", "+01", "-0", "1e3", "99999999999999999999999", " ", "\t", "\n", "\n", "\r\n",
        "\u{a0}", "\u{3000}", "\u{85}", "\u{200b}", "", "٣"];
    let n = rng.range(0, 40);
    let mut s = String::new();
    // keep declared dimensions moderate: start with two small numbers most of the time
    if rng.chance(4, 5) {
        s.push_str(&format!("{} {}", rng.below(12), rng.below(12)));
        s.push_str(*rng.pick(&["\n", " ", "\n\n", " 3\n"]));
    }
    for _ in 0..n {
        if rng.chance(1, 12) { s.push_str(&garbage(rng)); } else { s.push_str(*rng.pick(&toks)); }
        s.push_str(*rng.pick(&[" ", " ", "\n"]));
    }
    s
}

pub fn run(ctx: &mut Ctx, replay: Option<&[String]>) {
    if let Some(lines) = replay {
        for line in lines {
            let t: Vec<&str> = line.split_whitespace().take_while(|t| *t != "=>").collect();
            if t.len() >= 3 && t[0] == "c08" && t[1] == "p" {
                ctx.emit(&t.join(" "), &parse_res(&dec_text(t[2])), true, &["replay"]);
            } else if t.len() == 4 && t[0] == "c08" && t[1] == "w" {
                if let Some(h) = crate::dec::parse_sm(t[2], t[3]) {
                    ctx.emit(&t.join(" "), &write_res(&h), true, &["replay"]);
                }
            }
        }
        return;
    }
    let mut rng = Rng::new(ctx.seed, 8);
    // corpus: the two repaired defects D1 / D2
    for (r, c) in [(2usize, 3usize), (1, 1), (3, 1)] {
        let h = SparseMatrix::new(r, c);
        ctx.emit(&format!("c08 w {}", sm(&h)), &write_res(&h), true, &["corpus-all-zero-matrix"]);
    }
    let d2 = "3 2\n1 1\n1 1 1\n1 1\n1\n2\n3\n1\n2\n";
    ctx.emit(&format!("c08 p {}", enc_text(d2)), &parse_res(d2), true, &["corpus-row-index-out-of-range"]);
    let maxdim = ctx.scale(10, 24);
    for k in 0..ctx.scale(1500, 200000) {
        let h = gen_sparse(&mut rng, if k % 10 == 0 { maxdim } else { 6 });
        let entries = h.iter_all().count();
        let tag = if entries == 0 { "write-zero-matrix" } else { "write-matrix" };
        let has_empty = (0..h.num_rows()).any(|r| h.row_weight(r) == 0) || (0..h.num_cols()).any(|c| h.col_weight(c) == 0);
        let out = write_res(&h);
        ctx.emit(&format!("c08 w {}", sm(&h)), &out, entries > 0, &[tag, if has_empty { "has-empty-row-or-column" } else { "no-empty-row-or-column" }]);
        // parse back what was written, and mutations of it
        let (a, b) = (h.alist(), h.alist_no_padding());
        for text in [&a, &b] {
            ctx.emit(&format!("c08 p {}", enc_text(text)), &parse_res(text), entries > 0, &["parse-written-alist"]);
        }
        for _ in 0..2 {
            let pick_a = rng.chance(1, 2);
            let m = mutate(&mut rng, if pick_a { &a } else { &b }, h.num_rows());
            let o = parse_res(&m);
            let tag = if o.starts_with("ok") { "parse-mutated-ok" } else if o == "err" { "parse-mutated-err" } else if o.starts_with("skipped") { "parse-mutated-skipped-huge-dimensions" } else { "parse-mutated-panic" };
            ctx.emit(&format!("c08 p {}", enc_text(&m)), &o, true, &[tag]);
        }
    }
    // heavy lines: a row and a column of weight 33 ... 90 (index lists longer than any batch size a writer might use), entries inserted
    // in random order; compared character by character with the model like every other matrix
    for _ in 0..ctx.scale(12, 200) {
        // (every fourth: weights 255 ... 320 -- a weight must not be kept in 8 bits anywhere in the writer)
        let big = rng.chance(1, 4);
        let (nr, nc) = if big { (rng.range(257, 330), rng.range(257, 330)) } else { (rng.range(40, 100), rng.range(40, 100)) };
        let mut h = SparseMatrix::new(nr, nc);
        let (hr, hc) = (rng.below(nr), rng.below(nc));
        let mut cols: Vec<usize> = (0..nc).collect();
        for i in (1..nc).rev() { cols.swap(i, rng.below(i + 1)); }
        let wr = if big { *rng.pick(&[255usize, 256, 257, nc.min(300), nc]) } else { rng.range(33, nc.min(90)) };
        for &c in cols.iter().take(wr) { h.insert(hr, c); }
        let mut rows: Vec<usize> = (0..nr).collect();
        for i in (1..nr).rev() { rows.swap(i, rng.below(i + 1)); }
        let wc = if big { *rng.pick(&[255usize, 256, 257, nr.min(300), nr]) } else { rng.range(33, nr.min(90)) };
        for &r in rows.iter().take(wc) { h.insert(r, hc); }
        for _ in 0..rng.below(40) { h.insert(rng.below(nr), rng.below(nc)); }
        ctx.emit(&format!("c08 w {}", sm(&h)), &write_res(&h), true, &["write-matrix-with-heavy-row-and-column"]);
        for text in [h.alist(), h.alist_no_padding()] {
            ctx.emit(&format!("c08 p {}", enc_text(&text)), &parse_res(&text), true, &["parse-written-alist-heavy"]);
        }
    }
    // large sparse matrices (the shapes of real codes: rows x columns beyond 2^30 while the number of ones stays small): written and
    // parsed back by the implementation, compared there (the list-based model is not run on them)
    for (nr, nc, per_col) in [(40_000usize, 40_000usize, 3usize), (21_600, 64_800, 3), (50_000, 30_000, 0), (70_000, 20_000, 2), (3, 70_000, 2), (20_000, 66_000, 2)] {
        let mut h = SparseMatrix::new(nr, nc);
        for c in 0..nc { for _ in 0..per_col { h.insert(rng.below(nr), c); } }
        let mut verdict = "roundtrip-ok".to_string();
        for (form, text) in [("padded", h.alist()), ("unpadded", h.alist_no_padding())] {
            let h2 = h.clone();
            // the parser only reads the column lists: the row lists of the text (the last `rows` lines: sorted 1-based column indices,
            // zeros only as padding) are judged here
            let lines: Vec<&str> = text.lines().collect();
            if lines.len() != 4 + nc + nr { verdict = format!("line-count-{}", form); }
            else {
                for r in 0..nr {
                    let got: Vec<usize> = lines[4 + nc + r].split_whitespace().filter_map(|t| t.parse::<usize>().ok()).filter(|&x| x != 0).collect();
                    let mut want: Vec<usize> = h.iter_row(r).map(|&c| c + 1).collect();
                    want.sort_unstable();
                    if got != want { verdict = format!("row-lists-wrong-{}", form); break; }
                }
            }
            match guarded(move || SparseMatrix::from_alist(&text)) {
                Ok(Ok(g)) => {
                    let same = g.num_rows() == h2.num_rows() && g.num_cols() == h2.num_cols()
                        && (0..h2.num_cols()).all(|c| { let mut a: Vec<usize> = g.iter_col(c).copied().collect(); let mut b: Vec<usize> = h2.iter_col(c).copied().collect(); a.sort_unstable(); b.sort_unstable(); a == b });
                    if !same { verdict = format!("roundtrip-differs-{}", form); }
                }
                Ok(Err(_)) => verdict = format!("own-{}-alist-rejected", form),
                Err(_) => verdict = format!("panic-{}", form),
            }
        }
        ctx.emit(&format!("c08 big {} {} {}", nr, nc, per_col), &verdict, true, &["large-sparse-matrix-roundtrip"]);
    }
    for _ in 0..ctx.scale(1500, 200000) {
        let s = soup(&mut rng);
        let o = parse_res(&s);
        let tag = if o.starts_with("ok") { "parse-soup-ok" } else if o == "err" { "parse-soup-err" } else { "parse-soup-panic" };
        ctx.emit(&format!("c08 p {}", enc_text(&s)), &o, true, &[tag]);
    }
}
