//! C12: what the BER chain hands the decoder (observed through an injected decoder factory).
use crate::c13::{Scripted, set_workers};
use crate::fmt::*;
use crate::rng::Rng;
use crate::Ctx;
use ldpc_toolbox::encoder::Encoder;
use ldpc_toolbox::simulation::factory::{BerTestBuilder, Modulation};
use ldpc_toolbox::sparse::SparseMatrix;
use std::sync::atomic::AtomicU64;
use std::sync::{Arc, Mutex};

fn hx(x: f64) -> String {
    format!("{:016x}", x.to_bits())
}

pub fn staircase_h(rng: &mut Rng, r: usize, n: usize) -> SparseMatrix {
    let k = n - r;
    let mut h = SparseMatrix::new(r, n);
    for c in 0..k {
        for _ in 0..2 {
            h.insert(rng.below(r), c);
        }
    }
    for j in 0..r {
        h.insert(j, k + j);
        if j > 0 {
            h.insert(j, k + j - 1);
        }
    }
    h
}

pub fn run(ctx: &mut Ctx, _replay: Option<&[String]>) {
    let mut rng = Rng::new(ctx.seed, 12);
    set_workers(4);
    // (codeword lengths 10 and 20 are NOT multiples of 3, but some of their punctured frame lengths are: 9, 18, 15)
    let mut hs: Vec<SparseMatrix> = vec![crate::c13::test_matrix(), staircase_h(&mut rng, 6, 18), staircase_h(&mut rng, 12, 24),
        staircase_h(&mut rng, 5, 10), staircase_h(&mut rng, 8, 20)];
    if ctx.thorough {
        hs.push(staircase_h(&mut rng, 9, 36));
        hs.push(staircase_h(&mut rng, 24, 48));
    }
    for h in &hs {
        assert!(Encoder::from_h(h).is_ok());
        let ncw = h.num_cols();
        let k = ncw - h.num_rows();
        // patterns of length dividing n_cw: none, tail block, middle block, systematic (first) block
        let mut patterns: Vec<Option<Vec<bool>>> = vec![None];
        for plen in [2usize, 3, 4, 5, 6, 10] {
            if ncw % plen != 0 { continue; }
            for off in [plen - 1, plen / 2, 0] {
                let p: Vec<bool> = (0..plen).map(|i| i != off).collect();
                if !patterns.contains(&Some(p.clone())) { patterns.push(Some(p)); }
            }
        }
        for pat in &patterns {
            let trues = pat.as_ref().map(|p| p.iter().filter(|&&b| b).count()).unwrap_or(1);
            let plen = pat.as_ref().map(|p| p.len()).unwrap_or(1);
            let n = ncw * trues / plen;
            for modulation in [Modulation::Bpsk, Modulation::Psk8] {
                let bps = if modulation == Modulation::Psk8 { 3 } else { 1 };
                if n % bps != 0 { continue; }
                for inter in [0isize, 2, -2, 3, -3, 4, -4, n as isize, -(n as isize), 1, -1] {
                    if inter != 0 && n % (inter.unsigned_abs()) != 0 { continue; }
                    if !ctx.thorough && rng.chance(1, 2) && inter.abs() == 4 { continue; }
                    let fac = Scripted {
                        counter: Arc::new(AtomicU64::new(0)), log: Arc::new(Mutex::new(Vec::new())), log_limit: 24,
                        panic_every: 0, built: Arc::new(AtomicU64::new(0)), seed: ctx.seed, seq: false, iter_offset: 0,
                    };
                    let log = fac.log.clone();
                    let t = BerTestBuilder {
                        h: h.clone(), decoder_implementation: fac, modulation, puncturing_pattern: pat.as_deref(),
                        interleaving_columns: if inter == 0 { None } else { Some(inter) }, max_frame_errors: 6, max_iterations: 5,
                        ebn0s_db: &[60.0], reporter: None, bch_max_errors: 0,
                    }.build().unwrap();
                    let head = format!("{} {} {} {}", t.n(), t.n_cw(), t.k(), hx(t.rate()));
                    let _ = t.run();
                    let vecs: Vec<String> = log.lock().unwrap().iter().map(|v| v.iter().map(|&x|
                        if x.is_nan() { 'n' } else if x > 0.0 { '+' } else if x < 0.0 { '-' } else { '0' }).collect::<String>()).collect();
                    let input = format!("c12 chain {} {} {} {}", sm(h), if bps == 3 { "P" } else { "B" },
                        pat.as_ref().map(|p| bools(p.iter().copied())).unwrap_or("-".into()),
                        if inter > 0 { format!("+{}", inter) } else { inter.to_string() });
                    let tags = [if bps == 3 { "8psk" } else { "bpsk" }, if pat.is_some() { "punctured" } else { "unpunctured" },
                        if inter == 0 { "no-interleaver" } else if inter > 0 { "interleaver-forward" } else { "interleaver-backward" }];
                    ctx.emit(&input, &format!("{} {}", head, vecs.join(" ")), pat.is_some() || inter != 0, &tags);
                    // (i-c) LLR scale at 60 dB (noise ~1e-3 of the symbol distance): the magnitudes are those of the noiseless chain with
                    // sigma from (Eb/N0, rate after puncturing, bits per symbol) -- also covers 8PSK, where the noise cannot be read off the LLRs
                    if let Some(v) = log.lock().unwrap().first() {
                        let fl: Vec<String> = v.iter().map(|&x| hx(x)).collect();
                        ctx.emit(&format!("c12 scale {} {} {} {} {}", sm(h), if bps == 3 { "P" } else { "B" },
                            pat.as_ref().map(|p| bools(p.iter().copied())).unwrap_or("-".into()),
                            if inter > 0 { format!("+{}", inter) } else { inter.to_string() }, hx(60.0)),
                            &fl.join(","), true, &[if bps == 3 { "llr-scale-8psk" } else { "llr-scale-bpsk" }]);
                    }
                    let _ = k;
                }
            }
        }
    }
    // (i-e) block sizes that do NOT fit (8PSK with a frame length that is not a multiple of 3, interleaver columns that do not divide the
    // frame): the run must fail and no LLR vector may reach a decoder (C12.misfit_psk8_panics / misfit_interleaver_panics)
    {
        let shapes: [(usize, usize); 5] = [(5, 10), (4, 8), (7, 16), (6, 14), (8, 20)];
        for (r, ncw) in shapes {
            let h = staircase_h(&mut rng, r, ncw);
            let mut cfgs: Vec<(Modulation, Option<Vec<bool>>, isize)> = Vec::new();
            for pat in [None, Some(vec![true, false]), Some(vec![true, true, true, false])] {
                let (trues, plen) = pat.as_ref().map(|p: &Vec<bool>| (p.iter().filter(|&&b| b).count(), p.len())).unwrap_or((1, 1));
                if ncw % plen != 0 { continue; }
                let n = ncw * trues / plen;
                if n % 3 != 0 { cfgs.push((Modulation::Psk8, pat.clone(), 0)); }
                if pat.is_none() {
                    for c in [3isize, -3, 7, -7, 6, 9] {
                        if n % c.unsigned_abs() != 0 { cfgs.push((Modulation::Bpsk, None, c)); }
                    }
                }
            }
            for (modulation, pat, inter) in cfgs {
                let fac = Scripted {
                    counter: Arc::new(AtomicU64::new(0)), log: Arc::new(Mutex::new(Vec::new())), log_limit: 64,
                    panic_every: 0, built: Arc::new(AtomicU64::new(0)), seed: ctx.seed, seq: false, iter_offset: 0,
                };
                let log = fac.log.clone();
                // built and run inside a watchdog thread: a run that neither fails nor finishes is reported as `hang`
                let (tx, rx) = std::sync::mpsc::channel();
                {
                    let (h2, pat2) = (h.clone(), pat.clone());
                    std::thread::spawn(move || {
                        let built = BerTestBuilder {
                            h: h2, decoder_implementation: fac, modulation, puncturing_pattern: pat2.as_deref(),
                            interleaving_columns: if inter == 0 { None } else { Some(inter) }, max_frame_errors: 3, max_iterations: 5,
                            ebn0s_db: &[60.0], reporter: None, bch_max_errors: 0,
                        }.build();
                        let r = match built { Err(_) => false, Ok(t) => t.run().is_ok() };
                        let _ = tx.send(r);
                    });
                }
                let res = match rx.recv_timeout(std::time::Duration::from_secs(60)) {
                    Ok(true) => "ok".to_string(), Ok(false) => "err".to_string(), Err(_) => "hang".to_string(),
                };
                let lens: Vec<String> = log.lock().unwrap().iter().map(|v| v.len().to_string()).collect();
                let bps = if modulation == Modulation::Psk8 { 3 } else { 1 };
                ctx.emit(&format!("c12 misfit {} {} {} {}", sm(&h), if bps == 3 { "P" } else { "B" },
                    pat.as_ref().map(|p| bools(p.iter().copied())).unwrap_or("-".into()),
                    if inter > 0 { format!("+{}", inter) } else { inter.to_string() }),
                    &format!("{} {} {}", res, lens.len(), if lens.is_empty() { "-".to_string() } else { lens.join(",") }), true,
                    &[if bps == 3 { "misfit-8psk-frame-not-multiple-of-3" } else { "misfit-interleaver-columns" }]);
            }
        }
    }
    // (i-d) several Eb/N0 points in one run: the LAST frame handed to a decoder belongs to the last point and must have that point's LLR scale
    {
        let h = &hs[0];
        for modulation in [Modulation::Bpsk, Modulation::Psk8] {
            for pat in [None, Some(vec![true, true, true, false])] {
                let bps = if modulation == Modulation::Psk8 { 3 } else { 1 };
                let fac = Scripted {
                    counter: Arc::new(AtomicU64::new(0)), log: Arc::new(Mutex::new(Vec::new())), log_limit: 2000,
                    panic_every: 0, built: Arc::new(AtomicU64::new(0)), seed: ctx.seed, seq: false, iter_offset: 0,
                };
                let log = fac.log.clone();
                let t = BerTestBuilder {
                    h: h.clone(), decoder_implementation: fac, modulation, puncturing_pattern: pat.as_deref(),
                    interleaving_columns: None, max_frame_errors: 6, max_iterations: 5,
                    ebn0s_db: &[52.0, 57.0, 60.0], reporter: None, bch_max_errors: 0,
                }.build().unwrap();
                let _ = t.run();
                if let Some(v) = log.lock().unwrap().last() {
                    let fl: Vec<String> = v.iter().map(|&x| hx(x)).collect();
                    ctx.emit(&format!("c12 scale {} {} {} 0 {}", sm(h), if bps == 3 { "P" } else { "B" },
                        pat.as_ref().map(|p| bools(p.iter().copied())).unwrap_or("-".into()), hx(60.0)),
                        &fl.join(","), true, &["llr-scale-last-of-three-ebn0-points"]);
                }
            }
        }
    }
    // (i-b) bookkeeping of BerTest::new on a sweep of (n_cw, pattern): every pattern length <= 12 dividing n_cw, any number of kept blocks
    // (quotients n_cw / (len/trues) that land just below an integer in floating point are the interesting ones)
    for ncw in (4..=72usize).step_by(1) {
        if !ctx.thorough && ncw % 3 != 0 && ncw % 5 != 0 && ncw % 7 != 0 && ncw % 11 != 0 { continue; }
        let r = (ncw / 3).max(1);
        let h = staircase_h(&mut rng, r, ncw);
        for plen in 2..=12usize {
            if ncw % plen != 0 { continue; }
            for trues in 1..=plen {
                let mut p: Vec<bool> = (0..plen).map(|i| i < trues).collect();
                for i in (1..plen).rev() { p.swap(i, rng.below(i + 1)); }
                let fac = Scripted {
                    counter: Arc::new(AtomicU64::new(0)), log: Arc::new(Mutex::new(Vec::new())), log_limit: 0,
                    panic_every: 0, built: Arc::new(AtomicU64::new(0)), seed: 0, seq: false, iter_offset: 0,
                };
                let t = BerTestBuilder {
                    h: h.clone(), decoder_implementation: fac, modulation: Modulation::Bpsk, puncturing_pattern: Some(&p),
                    interleaving_columns: None, max_frame_errors: 1, max_iterations: 1, ebn0s_db: &[1.0], reporter: None,
                    // (the outer-code option only changes how frame errors are counted: sizes and rate must not depend on it; this test object is never run)
                    bch_max_errors: *rng.pick(&[0u64, 0, 2, 12]),
                }.build().unwrap();
                ctx.emit(&format!("c12 chain {} B {} 0", sm(&h), bools(p.iter().copied())),
                    &format!("{} {} {} {}", t.n(), t.n_cw(), t.k(), hx(t.rate())), trues < plen, &["frame-size-bookkeeping-sweep"]);
            }
        }
    }
    // (ii) channel noise statistics, BPSK, Eb/N0 where hard-decision errors are negligible but noise is far above rounding
    let h = crate::c13::test_matrix();
    let (ncw, k) = (12usize, 8usize);
    for (pat, ebn0) in [(None, 12.0f32), (Some(vec![true, true, true, false]), 12.0), (Some(vec![true, false, true]), 15.0), (None, 15.0)] {
        let trues = pat.as_ref().map(|p| p.iter().filter(|&&b| b).count()).unwrap_or(1);
        let plen = pat.as_ref().map(|p| p.len()).unwrap_or(1);
        let n = ncw * trues / plen;
        let frames = ctx.scale(20_000, 200_000);
        let fac = Scripted {
            counter: Arc::new(AtomicU64::new(0)), log: Arc::new(Mutex::new(Vec::new())), log_limit: frames,
            panic_every: 0, built: Arc::new(AtomicU64::new(0)), seed: 0, seq: false, iter_offset: 0,
        };
        let log = fac.log.clone();
        // the scripted decoder reports bit errors on frames 1,2,3 mod 4, so ~3/4 of the frames are frame errors
        let t = BerTestBuilder {
            h: h.clone(), decoder_implementation: fac, modulation: Modulation::Bpsk, puncturing_pattern: pat.as_deref(),
            interleaving_columns: None, max_frame_errors: (frames as u64) * 3 / 4, max_iterations: 5,
            ebn0s_db: &[ebn0], reporter: None, bch_max_errors: 0,
        }.build().unwrap();
        let _ = t.run();
        // model sigma, computed independently from the property statement
        let rate = k as f64 / n as f64;
        let sigma = (0.5 / (rate * 1.0 * 10f64.powf(0.1 * ebn0 as f64))).sqrt();
        // independence between frames / workers: with continuous noise no two frames handed to the decoders can coincide
        let dup = {
            let mut seen = std::collections::HashSet::new();
            log.lock().unwrap().iter().filter(|v| !seen.insert(v.iter().map(|x| x.to_bits()).collect::<Vec<u64>>())).count()
        };
        let mut xs: Vec<f64> = Vec::new();
        for v in log.lock().unwrap().iter() {
            for &llr in v.iter() {
                if llr == 0.0 { continue; } // punctured position
                let r = -llr * sigma * sigma / 2.0;
                let s = if r > 0.0 { 1.0 } else { -1.0 };
                xs.push(r - s);
            }
        }
        let nn = xs.len() as f64;
        let mean = xs.iter().sum::<f64>() / nn;
        let var = xs.iter().map(|x| (x - mean) * (x - mean)).sum::<f64>() / nn;
        let lag1 = xs.windows(2).map(|w| (w[0] - mean) * (w[1] - mean)).sum::<f64>() / (nn - 1.0);
        ctx.emit(&format!("c12 noise {} {} 1 {}", k, n, hx(ebn0 as f64)),
            &format!("{} {} {} {} {} {}", hx(sigma), hx(nn), hx(mean), hx(var), hx(lag1), dup), true, &["noise-statistics-bpsk"]);
    }
    // (iii) the AWGN channel itself, real and complex: mean, variance, Re/Im covariance, lag-1 covariances, 4th moment (Gaussian: 3 sigma^4)
    {
        use ldpc_toolbox::rand::{Rng as LRng, SeedableRng};
        use ldpc_toolbox::simulation::channel::{AwgnChannel, Channel};
        use num_complex::Complex;
        let nsamp = ctx.scale(200_000, 2_000_000) + 5;      // not a multiple of any block size
        for (i, sigma) in [0.05f64, 0.7, 3.0].into_iter().enumerate() {
            let ch = AwgnChannel::new(sigma);
            let mut r = LRng::seed_from_u64(ctx.seed * 1000 + i as u64);
            // complex: non-zero symbols, the noise is what is added
            let base: Vec<Complex<f64>> = (0..nsamp).map(|j| Complex::new(((j % 3) as f64) - 1.0, ((j % 5) as f64) * 0.5)).collect();
            let mut y = base.clone();
            ch.add_noise(&mut r, &mut y);
            let re: Vec<f64> = y.iter().zip(&base).map(|(a, b)| a.re - b.re).collect();
            let im: Vec<f64> = y.iter().zip(&base).map(|(a, b)| a.im - b.im).collect();
            let base_r: Vec<f64> = (0..nsamp).map(|j| if j % 2 == 0 { 1.0 } else { -1.0 }).collect();
            let mut yr = base_r.clone();
            ch.add_noise(&mut r, &mut yr);
            let rr: Vec<f64> = yr.iter().zip(&base_r).map(|(a, b)| a - b).collect();
            let st = |x: &[f64]| -> (f64, f64, f64, f64) {
                let n = x.len() as f64;
                let m = x.iter().sum::<f64>() / n;
                let v = x.iter().map(|a| (a - m) * (a - m)).sum::<f64>() / n;
                let l1 = x.windows(2).map(|w| (w[0] - m) * (w[1] - m)).sum::<f64>() / (n - 1.0);
                let m4 = x.iter().map(|a| (a - m).powi(4)).sum::<f64>() / n;
                (m, v, l1, m4)
            };
            let (mre, vre, lre, qre) = st(&re);
            let (mim, vim, lim, qim) = st(&im);
            let (mr, vr, lr, qr) = st(&rr);
            // every single sample must have received noise (sigma > 0): in particular the last ones of the block
            let untouched = re.iter().zip(&im).filter(|(a, b)| **a == 0.0 || **b == 0.0).count() + rr.iter().filter(|a| **a == 0.0).count()
                + (0..8).filter(|&j| y[nsamp - 1 - j] == base[nsamp - 1 - j] || yr[nsamp - 1 - j] == base_r[nsamp - 1 - j]).count();
            let cov = re.iter().zip(&im).map(|(a, b)| (a - mre) * (b - mim)).sum::<f64>() / nsamp as f64;
            // Re of sample j against Im of sample j+1 and Im of j against Re of j+1 (consecutive draws of the generator)
            let cross1 = im.iter().zip(re.iter().skip(1)).map(|(a, b)| (a - mim) * (b - mre)).sum::<f64>() / (nsamp as f64 - 1.0);
            ctx.emit(&format!("c12 awgn {} {}", hx(sigma), nsamp),
                &format!("{} {}", [mre, vre, lre, qre, mim, vim, lim, qim, cov, cross1, mr, vr, lr, qr].iter().map(|&x| hx(x)).collect::<Vec<_>>().join(" "), untouched),
                true, &["awgn-channel-statistics"]);
        }
    }
    set_workers(1024);
}
